// Package c27 decides property C27, "Decryption never accepts a forged
// ciphertext": decrypting the output of encryption with the same key returns
// the original text, and decrypting anything else (any altered, truncated or
// extended ciphertext, or the right ciphertext with a different key) reports an
// error rather than returning text - for token encryption (util.Encrypt /
// util.Decrypt, tokens.New / Unwrap / Validate) and for encrypted profile
// settings (settings.Encrypt / settings.Decrypt).
//
// What is exercised
//
//   - target "util":     util.Encrypt / util.Decrypt on the raw byte string.
//   - target "settings": settings.Encrypt / settings.Decrypt on the
//     "v3:"+base64 string.
//   - target "token":    tokens.New / tokens.Unwrap (or tokens.Validate) on
//     the hex string, key taken from EGO_SERVER_TOKEN_KEY as the package's
//     own tests do; the blacklist is off (no database path), tokens live 24h
//     (v3) or until 2099 (older formats), so the wall clock plays no part.
//   - formats: "v3" is whatever the package's Encrypt produces today. "v2"
//     and "legacy" are the two older layouts both Decrypt functions say they
//     still read ("retained for existing data"); no encryptor for them exists
//     any more, so the harness builds those blobs itself exactly as the
//     comments in crypto.go describe them (util v2: magic FF 45 47 4F, 16-byte
//     salt, PBKDF2-SHA256 100000 rounds; util legacy: AES key = hex(md5(pass));
//     settings v2: "v2:" + base64, key = sha256(pass); settings legacy: bare
//     base64, key = hex(md5(pass)); all AES-256-GCM, 12-byte nonce first). The
//     round trip of every harness-built blob is checked first: if the harness
//     had the layout wrong that would show as a "harness-built blob" failure,
//     never as a forgery.
//
// Preconditions taken from real callers
//
//   - Keys are arbitrary strings for util and settings (the Ego function
//     cipher.decrypt passes user strings; profiles use name+salt+id). The token
//     key is a non-empty string without NUL (it travels in an environment
//     variable; an empty one would make ego generate and persist a random
//     key).
//   - Keys contain no NUL byte. No ego caller produces one, and for the v2
//     format the distinction cannot exist: PBKDF2 is built on HMAC, which
//     zero-pads its key, so "" and "\x00" (any two keys that differ only in
//     trailing NULs) are the same PBKDF2 password by construction of the
//     standard. (An early version of this check generated such keys and
//     reported util v2 "accepting a different key"; that was a domain error
//     of the harness, not a defect of ego.)
//   - Callers that keep util ciphertexts as text use encoding/hex
//     (tokens, dsns, cipher.*); settings uses base64.StdEncoding behind a
//     version prefix. The "text" layer edits act on those strings.
//
// Soundness notes
//
//   - Encrypt draws salt and nonce from crypto/rand, so the blob differs from
//     run to run. No verdict depends on their values: edits are XORs with a
//     non-zero mask, insertions, deletions and truncations, which change the
//     byte string whatever it contains. Acceptance of a changed message by
//     AES-GCM has probability 2^-128.
//   - An edit of the *text* that does not change the *message* is not a
//     forgery: hex digits may change case, base64.StdEncoding (non-strict)
//     ignores CR/LF and the unused low bits of the last digit before '='. The
//     oracle decodes the edited text the way ego does (hex.DecodeString;
//     version prefix + base64.StdEncoding.DecodeString) and, when prefix and
//     decoded bytes equal the original's, accepts either outcome that is
//     consistent with "same message": an error, or the original text. Only a
//     *different* text without error is a violation there.
//   - "Reports an error rather than returning text": the verdict is on the
//     error value. For util/settings err == nil is acceptance whatever the
//     text (so ("", nil) is acceptance of a forged input); for tokens a
//     non-nil *Token, or Validate's true, or a nil error is acceptance.
//   - The 4-byte magic of util's v2/v3 formats can in principle collide with
//     the first nonce bytes of a legacy blob (documented, 2^-32); harness-built
//     legacy blobs avoid those four bytes.
package c27

import (
	"bytes"
	"crypto/aes"
	"crypto/cipher"
	"crypto/md5"
	"crypto/sha256"
	"encoding/base64"
	"encoding/hex"
	"encoding/json"
	"fmt"
	"os"
	"strings"
	"sync"
	"testing"
	"time"

	"github.com/google/uuid"
	"github.com/tucats/ego/internal/cli/settings"
	"github.com/tucats/ego/internal/language/tokens"
	"github.com/tucats/ego/internal/util"
	"github.com/tucats/ego/verif/vkit"
	"golang.org/x/crypto/pbkdf2"
	"pgregory.net/rapid"
)

// Edit is one attempt: a change applied to the original ciphertext (or key).
type Edit struct {
	// Layer: "raw" edits the byte string that util.Decrypt sees (re-encoded
	// with the standard encoder for token/settings); "text" edits the hex /
	// prefixed base64 string itself.
	Layer string `json:"layer"`
	// Op: xor trunc append prepend insert delete dup magic key (raw);
	// set case trunc append insert delete prefix padbits (text).
	Op string `json:"op"`
	// Region of the position for raw xor: magic salt nonce body tag any.
	Region string `json:"region,omitempty"`
	// Pos is reduced modulo the length of the region / string.
	Pos int `json:"pos,omitempty"`
	// Mask for xor (1..255), N for delete.
	Mask int `json:"mask,omitempty"`
	N    int `json:"n,omitempty"`
	// Data: bytes added by a raw append/prepend/insert.
	Data []byte `json:"data,omitempty"`
	// Text: characters for text set/append/insert, new prefix for prefix.
	Text string `json:"text,omitempty"`
	// Key: the other key for op key.
	Key string `json:"key,omitempty"`
}

// Case is one ciphertext and a list of independent attempts on it.
type Case struct {
	Target string `json:"target"` // util | settings | token
	Format string `json:"format"` // v3 | v2 | legacy
	// util, settings: the plaintext is PlainUnit repeated and cut to PlainLen bytes.
	PlainUnit string `json:"plain_unit,omitempty"`
	PlainLen  int    `json:"plain_len,omitempty"`
	// token: fields of the token.
	Name string `json:"name,omitempty"`
	Data string `json:"data,omitempty"`
	// Validate: judge tokens with tokens.Validate instead of tokens.Unwrap.
	Validate bool   `json:"validate,omitempty"`
	Key      string `json:"key"`
	// BlobSeed determines salt and nonce of harness-built (v2, legacy) blobs.
	BlobSeed int    `json:"blob_seed,omitempty"`
	Edits    []Edit `json:"edits"`
}

const (
	tokenUUID = "aaaaaaaa-aaaa-aaaa-aaaa-aaaaaaaaaaaa"
	tokenKey  = "00000000-0000-0000-0000-000000000001-00000000-0000-0000-0000-000000000002"
)

var (
	magicV3 = []byte{0xFF, 0x45, 0x47, 0x33}
	magicV2 = []byte{0xFF, 0x45, 0x47, 0x4F}
)

// --------------------------------------------------------------- blob building

func (c Case) plaintext() string {
	if c.Target == "token" {
		return ""
	}
	u := c.PlainUnit
	if u == "" {
		u = "x"
	}
	var sb strings.Builder
	for sb.Len() < c.PlainLen {
		sb.WriteString(u)
	}
	return sb.String()[:c.PlainLen]
}

func seedBytes(seed int, label string, n int) []byte {
	var out []byte
	for i := 0; len(out) < n; i++ {
		h := sha256.Sum256([]byte(fmt.Sprintf("c27/%s/%d/%d", label, seed, i)))
		out = append(out, h[:]...)
	}
	return out[:n]
}

func md5HexKey(pass string) []byte {
	h := md5.Sum([]byte(pass))
	return []byte(hex.EncodeToString(h[:]))
}

func seal(key, nonce, plain []byte) []byte {
	block, err := aes.NewCipher(key)
	if err != nil {
		panic(err)
	}
	gcm, err := cipher.NewGCM(block)
	if err != nil {
		panic(err)
	}
	return gcm.Seal(append([]byte{}, nonce...), nonce, plain, nil)
}

// utilBlob returns the raw byte string in util's format.
func utilBlob(format, plain, key string, seed int) ([]byte, error) {
	switch format {
	case "v3":
		s, err := util.Encrypt(plain, key)
		return []byte(s), err
	case "v2":
		salt := seedBytes(seed, "salt", 16)
		k := pbkdf2.Key([]byte(key), salt, 100_000, 32, sha256.New)
		out := append(append([]byte{}, magicV2...), salt...)
		return append(out, seal(k, seedBytes(seed, "nonce", 12), []byte(plain))...), nil
	default:
		nonce := seedBytes(seed, "nonce", 12)
		if nonce[0] == 0xFF {
			nonce[0] = 0x7F
		}
		return seal(md5HexKey(key), nonce, []byte(plain)), nil
	}
}

// blob is the original message in the three views the oracle needs.
type blob struct {
	raw    []byte // bytes behind the text encoding (what reaches AES-GCM dispatch)
	prefix string // settings only
	text   string // what is handed to the decrypt function
}

func (c Case) build() (blob, error) {
	switch c.Target {
	case "util":
		raw, err := utilBlob(c.Format, c.plaintext(), c.Key, c.BlobSeed)
		return blob{raw: raw, text: string(raw)}, err
	case "settings":
		switch c.Format {
		case "v3":
			s, err := settings.Encrypt(c.plaintext(), c.Key)
			if err != nil {
				return blob{}, err
			}
			raw, err := base64.StdEncoding.DecodeString(strings.TrimPrefix(s, "v3:"))
			return blob{raw: raw, prefix: "v3:", text: s}, err
		case "v2":
			k := sha256.Sum256([]byte(c.Key))
			raw := seal(k[:], seedBytes(c.BlobSeed, "nonce", 12), []byte(c.plaintext()))
			return blob{raw: raw, prefix: "v2:", text: "v2:" + base64.StdEncoding.EncodeToString(raw)}, nil
		default:
			raw := seal(md5HexKey(c.Key), seedBytes(c.BlobSeed, "nonce", 12), []byte(c.plaintext()))
			return blob{raw: raw, text: base64.StdEncoding.EncodeToString(raw)}, nil
		}
	case "token":
		os.Setenv("EGO_SERVER_TOKEN_KEY", c.Key)
		if c.Format == "v3" {
			s, err := tokens.New(c.Name, c.Data, "24h", tokenUUID, 0)
			if err != nil {
				return blob{}, err
			}
			raw, err := hex.DecodeString(s)
			return blob{raw: raw, text: s}, err
		}
		id := uuid.UUID{}
		copy(id[:], seedBytes(c.BlobSeed, "tokenid", 16))
		tk := tokens.Token{Name: c.Name, Data: c.Data, TokenID: id, AuthID: uuid.MustParse(tokenUUID),
			Created: time.Date(2026, 1, 1, 0, 0, 0, 0, time.UTC), Expires: time.Date(2099, 1, 1, 0, 0, 0, 0, time.UTC)}
		j, err := json.Marshal(tk)
		if err != nil {
			return blob{}, err
		}
		raw, err := utilBlob(c.Format, string(j), c.Key, c.BlobSeed)
		return blob{raw: raw, text: hex.EncodeToString(raw)}, err
	}
	return blob{}, fmt.Errorf("unknown target %q", c.Target)
}

// encode turns edited raw bytes back into the text the target reads.
func (c Case) encode(b blob, raw []byte) string {
	switch c.Target {
	case "util":
		return string(raw)
	case "token":
		return hex.EncodeToString(raw)
	default:
		return b.prefix + base64.StdEncoding.EncodeToString(raw)
	}
}

// decode reads a text the way the target does before any cryptography:
// the version path it selects, the bytes, and whether it decodes at all.
func (c Case) decode(text string) (path string, raw []byte, ok bool) {
	switch c.Target {
	case "util":
		raw = []byte(text)
		return utilPath(raw), raw, true
	case "token":
		raw, err := hex.DecodeString(text)
		if err != nil {
			return "", nil, false
		}
		return utilPath(raw), raw, true
	default:
		path, rest := "legacy", text
		switch {
		case strings.HasPrefix(text, "v3:"):
			path, rest = "v3", text[3:]
		case strings.HasPrefix(text, "v2:"):
			path, rest = "v2", text[3:]
		}
		raw, err := base64.StdEncoding.DecodeString(rest)
		if err != nil {
			return path, nil, false
		}
		return path, raw, true
	}
}

// utilPath is the documented dispatch of util.Decrypt on the 4-byte magic.
func utilPath(raw []byte) string {
	if len(raw) > 4 && bytes.Equal(raw[:4], magicV3) {
		return "v3"
	}
	if len(raw) > 4 && bytes.Equal(raw[:4], magicV2) {
		return "v2"
	}
	return "legacy"
}

// headerLen is the number of bytes before the GCM ciphertext on a path:
// magic + salt + nonce; below it nothing can be authenticated.
func (c Case) headerLen(path string) int {
	if c.Target == "settings" {
		if path == "v3" {
			return 16 + 12
		}
		return 12
	}
	if path == "legacy" {
		return 12
	}
	return 4 + 16 + 12
}

// regions of the original raw bytes: name -> [lo, hi).
func (c Case) regions(n int) map[string][2]int {
	r := map[string][2]int{"any": {0, n}}
	off := 0
	add := func(name string, k int) {
		r[name] = [2]int{off, off + k}
		off += k
	}
	switch {
	case c.Target == "settings" && c.Format == "v3":
		add("salt", 16)
	case c.Target != "settings" && c.Format != "legacy":
		add("magic", 4)
		add("salt", 16)
	}
	add("nonce", 12)
	r["body"] = [2]int{off, n - 16}
	r["tag"] = [2]int{n - 16, n}
	return r
}

// ------------------------------------------------------------------ edits

// xorAt resolves the byte an xor edit touches in a blob of n bytes and names
// the region that byte lies in (an empty requested region, e.g. the body of an
// empty plaintext, falls back to the whole blob).
func (c Case) xorAt(e Edit, n int) (int, string) {
	regs := c.regions(n)
	rg, ok := regs[e.Region]
	if !ok || rg[1] <= rg[0] {
		rg = [2]int{0, n}
	}
	p := rg[0] + e.Pos%(rg[1]-rg[0])
	for _, name := range []string{"magic", "salt", "nonce", "body", "tag"} {
		if r, ok := regs[name]; ok && p >= r[0] && p < r[1] {
			return p, name
		}
	}
	return p, "any"
}

// applyRaw returns the edited raw bytes (never aliasing raw).
func (c Case) applyRaw(e Edit, raw []byte) []byte {
	out := append([]byte{}, raw...)
	n := len(raw)
	pos := func(limit int) int {
		if limit <= 0 {
			return 0
		}
		p := e.Pos % limit
		if p < 0 {
			p += limit
		}
		return p
	}
	switch e.Op {
	case "xor":
		m := byte(e.Mask)
		if m == 0 {
			m = 1
		}
		p, _ := c.xorAt(e, n)
		out[p] ^= m
	case "trunc":
		limit := n
		if e.Region == "header" {
			if h := c.headerLen(c.Format); h < n {
				limit = h
			}
		}
		out = out[:pos(limit)]
	case "append":
		out = append(out, nonEmpty(e.Data)...)
	case "prepend":
		out = append(append([]byte{}, nonEmpty(e.Data)...), out...)
	case "insert":
		p := pos(n + 1)
		out = append(append(append([]byte{}, raw[:p]...), nonEmpty(e.Data)...), raw[p:]...)
	case "delete":
		p := pos(n)
		k := e.N
		if k < 1 {
			k = 1
		}
		if p+k > n {
			k = n - p
		}
		out = append(append([]byte{}, raw[:p]...), raw[p+k:]...)
	case "dup":
		out = append(out, raw...)
	case "magic":
		// present the same bytes under the other version's magic
		if n > 4 && bytes.Equal(raw[:4], magicV3) {
			copy(out, magicV2)
		} else if n > 4 && bytes.Equal(raw[:4], magicV2) {
			copy(out, magicV3)
		} else {
			out = append(append([]byte{}, magicV3...), raw...)
		}
	}
	return out
}

func nonEmpty(b []byte) []byte {
	if len(b) == 0 {
		return []byte{0}
	}
	return b
}

const (
	hexDigits = "0123456789abcdef"
	b64Digits = "ABCDEFGHIJKLMNOPQRSTUVWXYZabcdefghijklmnopqrstuvwxyz0123456789+/"
)

// applyText returns the edited text.
func (c Case) applyText(e Edit, text string) string {
	n := len(text)
	pos := func(limit int) int {
		if limit <= 0 {
			return 0
		}
		p := e.Pos % limit
		if p < 0 {
			p += limit
		}
		return p
	}
	switch e.Op {
	case "set":
		if n == 0 {
			return e.Text
		}
		p := pos(n)
		ch := e.Text
		if ch == "" {
			ch = "0"
		}
		if text[p:p+1] == ch[:1] {
			// never a no-op: take the next digit of the alphabet instead
			alpha := hexDigits
			if c.Target == "settings" {
				alpha = b64Digits
			}
			i := strings.IndexByte(alpha, ch[0])
			ch = string(alpha[(i+1)%len(alpha)])
		}
		return text[:p] + ch[:1] + text[p+1:]
	case "case":
		// flip the case of the first letter at or after Pos (wrapping)
		for i := 0; i < n; i++ {
			p := (pos(n) + i) % n
			ch := text[p]
			if ch >= 'a' && ch <= 'z' {
				return text[:p] + string(ch-32) + text[p+1:]
			}
			if ch >= 'A' && ch <= 'Z' {
				return text[:p] + string(ch+32) + text[p+1:]
			}
		}
		return text + "0"
	case "trunc":
		return text[:pos(n)]
	case "append":
		if e.Text == "" {
			return text + "0"
		}
		return text + e.Text
	case "insert":
		p := pos(n + 1)
		t := e.Text
		if t == "" {
			t = "0"
		}
		return text[:p] + t + text[p:]
	case "delete":
		if n == 0 {
			return "0"
		}
		p := pos(n)
		return text[:p] + text[p+1:]
	case "prefix":
		rest := text
		for _, p := range []string{"v3:", "v2:"} {
			rest = strings.TrimPrefix(rest, p)
		}
		if e.Text+rest == text {
			return "v2:" + rest + "A"
		}
		return e.Text + rest
	case "padbits":
		// change only the unused low bits of the last base64 digit before the
		// padding: same decoded bytes under the non-strict decoder
		t := strings.TrimRight(text, "=")
		pad := n - len(t)
		if pad == 0 || len(t) == 0 {
			return text + "="
		}
		i := strings.IndexByte(b64Digits, t[len(t)-1])
		if i < 0 {
			return text + "="
		}
		return t[:len(t)-1] + string(b64Digits[i^1]) + text[len(t):]
	}
	return text + "0"
}

// ----------------------------------------------------------------- decrypt

type result struct {
	accepted bool   // no error reported (token: a token came back / Validate said true)
	text     string // util/settings: the text; token: name|data|authid
	err      error
}

func (c Case) decrypt(text, key string) result {
	switch c.Target {
	case "util":
		s, err := util.Decrypt(text, key)
		return result{accepted: err == nil, text: s, err: err}
	case "settings":
		s, err := settings.Decrypt(text, key)
		return result{accepted: err == nil, text: s, err: err}
	default:
		os.Setenv("EGO_SERVER_TOKEN_KEY", key)
		defer os.Setenv("EGO_SERVER_TOKEN_KEY", c.Key)
		if c.Validate {
			ok, err := tokens.Validate(text, 0)
			return result{accepted: ok || err == nil, text: c.wantText(), err: err}
		}
		tk, err := tokens.Unwrap(text, 0)
		r := result{accepted: tk != nil || err == nil, err: err}
		if tk != nil {
			r.text = tk.Name + "|" + tk.Data + "|" + tk.AuthID.String()
		}
		return r
	}
}

func (c Case) wantText() string {
	if c.Target == "token" {
		return c.Name + "|" + c.Data + "|" + tokenUUID
	}
	return c.plaintext()
}

// ------------------------------------------------------------------ oracle

var (
	statMu sync.Mutex
	stats  = map[string]int{}
)

func count(k string) {
	statMu.Lock()
	stats[k]++
	statMu.Unlock()
}

func clipText(s string) string {
	if len(s) > 80 {
		return fmt.Sprintf("%q… (%d bytes)", s[:80], len(s))
	}
	return fmt.Sprintf("%q", s)
}

func oracle(c Case) vkit.Outcome {
	var out vkit.Outcome
	tf := c.Target + "/" + c.Format
	if c.Target == "token" && c.Key == "" {
		out.Skip = "token key must be a non-empty environment value"
		return out
	}
	if strings.ContainsRune(c.Key, 0) {
		out.Skip = "keys with NUL bytes are outside the domain"
		return out
	}
	b, err := c.build()
	if err != nil {
		out.Fail = &vkit.Failure{Sig: "encrypt failed " + tf, Observed: err.Error(), Expected: "a ciphertext"}
		return out
	}
	want := c.wantText()
	out.Labels = append(out.Labels, fmt.Sprintf("case %s plain_len=%s", tf, lenClass(len(want))))

	// 1. round trip
	count("attempts")
	count("roundtrips")
	if r := c.decrypt(b.text, c.Key); !r.accepted || r.text != want {
		who := "roundtrip " + tf
		if c.Format != "v3" {
			who = "harness-built blob does not decrypt " + tf
		}
		out.Fail = &vkit.Failure{Sig: who, Observed: fmt.Sprintf("decrypt(encrypt(%s)) = %s, err=%v", clipText(want), clipText(r.text), r.err), Expected: "the original text, no error"}
		return out
	}

	// 2. every attempt must be rejected. All attempts are judged even after
	// one failed; the case reports the gravest failure (a forgery that returns
	// text outranks the acceptance of a too-short input), so that a recorded
	// finding of the lesser kind cannot mask a graver one in the same case.
	origPath, _, _ := c.decode(b.text)
	rank := 0
	for i, e := range c.Edits {
		count("attempts")
		key := c.Key
		var text string
		region := e.Region
		if e.Op == "xor" && e.Layer != "text" {
			_, region = c.xorAt(e, len(b.raw))
		}
		switch {
		case e.Op == "key":
			key = e.Key
			text = b.text
			if key == c.Key || strings.ContainsRune(key, 0) || (c.Target == "token" && key == "") {
				key = c.Key + "x"
			}
		case e.Layer == "text" && c.Target != "util":
			text = c.applyText(e, b.text)
		default:
			text = c.encode(b, c.applyRaw(e, b.raw))
		}
		path, raw, decodable := c.decode(text)
		sameMessage := key == c.Key && decodable && path == origPath && bytes.Equal(raw, b.raw)
		short := decodable && len(raw) < c.headerLen(path)
		reaches := decodable && !short
		if reaches {
			count("attempts_reaching_key_derivation_and_gcm")
			out.NonTrivial = true
		}
		if short {
			count("attempts_below_header_length")
			out.NonTrivial = true
		}
		r := c.decrypt(text, key)
		op := e.Layer + ":" + e.Op
		if e.Op == "key" {
			op = "key"
		}
		class := "rejected"
		switch {
		case sameMessage && r.accepted && r.text == want:
			class = "same-message accepted (encoding-only edit)"
		case sameMessage && !r.accepted:
			class = "same-message rejected (encoding-only edit)"
		case r.accepted:
			class = "ACCEPTED"
		case !decodable:
			class = "rejected undecodable"
		case short:
			class = "rejected below-header"
		}
		out.Labels = append(out.Labels, fmt.Sprintf("attempt %s %s -> %s", tf, op, class))
		if e.Op == "xor" && e.Layer != "text" {
			out.Labels = append(out.Labels, fmt.Sprintf("xor %s region=%s", tf, region))
		}
		if !r.accepted || (sameMessage && r.text == want) {
			continue
		}
		returned := "other text"
		switch r.text {
		case want:
			returned = "the original text"
		case "":
			returned = "empty text"
		}
		f := &vkit.Failure{
			Observed: fmt.Sprintf("edit #%d %+v: input %d bytes (decoded %d, path %s), key changed=%v: returned %s, err=%v", i, e, len(text), len(raw), path, key != c.Key, clipText(r.text), r.err),
			Expected: "an error (the input is not the ciphertext that was produced, or the key is not the key)",
		}
		k := 3
		switch {
		case sameMessage:
			f.Sig = fmt.Sprintf("same message returned different text %s", tf)
			f.Expected = "the original text or an error"
		case short && r.text == "":
			k = 1
			f.Sig = fmt.Sprintf("short-input-accepted target=%s format=%s", c.Target, c.Format)
		default:
			k = 2
			if r.text != "" {
				k = 4
			}
			f.Sig = fmt.Sprintf("forgery-accepted target=%s format=%s edit=%s returned=%s", c.Target, c.Format, editClass(e, region), returned)
		}
		if k > rank {
			rank, out.Fail = k, f
		}
	}
	return out
}

// editClass names the kind of change for the failure signature: the same
// root cause gives the same class whatever the position or the bytes.
func editClass(e Edit, region string) string {
	switch e.Op {
	case "key":
		return "other-key"
	case "trunc", "delete":
		return e.Layer + ":shorter"
	case "append", "prepend", "insert", "dup":
		return e.Layer + ":longer"
	case "xor":
		if e.Layer != "text" {
			return "raw:xor-in-" + region
		}
	}
	return e.Layer + ":" + e.Op
}

func lenClass(n int) string {
	switch {
	case n == 0:
		return "0"
	case n < 16:
		return "1-15"
	case n <= 32:
		return "16-32"
	case n <= 256:
		return "33-256"
	case n <= 4096:
		return "257-4096"
	}
	return ">4096"
}

// --------------------------------------------------------------- generator

var keyMenu = []string{"k", "password", tokenKey, "pässwörd-鍵", "key with spaces ", strings.Repeat("long-key/", 30), "K", "0"}

func genKey(t *rapid.T, token bool) string {
	switch rapid.IntRange(0, 3).Draw(t, "keykind") {
	case 0:
		if !token {
			return rapid.SampledFrom([]string{"", " ", "\t", "\xff\xfe"}).Draw(t, "oddkey")
		}
		return tokenKey
	case 1:
		return rapid.StringOfN(rapid.RuneFrom([]rune("abXY09 -_é")), 1, 12, -1).Draw(t, "key")
	default:
		return rapid.SampledFrom(keyMenu).Draw(t, "keymenu")
	}
}

func otherKey(t *rapid.T, key string, token bool) string {
	var k string
	switch rapid.IntRange(0, 5).Draw(t, "otherkey") {
	case 0:
		k = key + "x"
	case 1:
		k = key + " "
	case 2:
		if len(key) > 1 {
			k = key[:len(key)-1]
		}
	case 3:
		k = strings.ToUpper(key)
		if k == key {
			k = strings.ToLower(key)
		}
	case 4:
		k = key + "\n"
	default:
		k = rapid.SampledFrom(keyMenu).Draw(t, "otherkeymenu")
	}
	if k == key || (token && k == "") {
		k = key + "y"
	}
	return k
}

var masks = []int{1, 1, 2, 4, 8, 16, 32, 64, 128, 128, 255, 0x7c, 0x20}

func genRawEdit(t *rapid.T, c Case) Edit {
	e := Edit{Layer: "raw"}
	ops := []string{"xor", "xor", "xor", "xor", "xor", "xor", "trunc", "trunc", "trunc", "trunc", "append", "append", "prepend", "insert", "delete", "delete", "dup", "key", "key", "magic"}
	e.Op = rapid.SampledFrom(ops).Draw(t, "op")
	e.Pos = rapid.IntRange(0, 1<<16).Draw(t, "pos")
	switch e.Op {
	case "xor":
		regs := []string{"nonce", "body", "tag", "tag", "any"}
		if _, ok := c.regions(100)["salt"]; ok {
			regs = append(regs, "salt", "salt")
		}
		if _, ok := c.regions(100)["magic"]; ok {
			regs = append(regs, "magic")
		}
		e.Region = rapid.SampledFrom(regs).Draw(t, "region")
		if rapid.Bool().Draw(t, "maskmenu") {
			e.Mask = rapid.SampledFrom(masks).Draw(t, "mask")
		} else {
			e.Mask = rapid.IntRange(1, 255).Draw(t, "maskany")
		}
	case "trunc":
		if rapid.Bool().Draw(t, "header") {
			e.Region = "header"
		}
	case "append", "prepend", "insert":
		e.Data = rapid.SliceOfN(rapid.Byte(), 1, 20).Draw(t, "data")
	case "delete":
		e.N = rapid.SampledFrom([]int{1, 1, 1, 2, 12, 16, 17, 40}).Draw(t, "n")
	case "key":
		e.Layer = ""
		e.Key = otherKey(t, c.Key, c.Target == "token")
	}
	return e
}

func genTextEdit(t *rapid.T, c Case) Edit {
	e := Edit{Layer: "text"}
	ops := []string{"set", "set", "set", "case", "case", "trunc", "trunc", "append", "insert", "delete", "delete"}
	texts := []string{"0", "f", "F", "a", "g", "G", " ", "\n", "x", "00", "0g", "-"}
	if c.Target == "settings" {
		ops = append(ops, "prefix", "prefix", "padbits", "padbits")
		texts = []string{"A", "B", "a", "z", "0", "+", "/", "-", "_", "=", "==", "\n", "\r\n", " ", ":", "AAAA", "v3:"}
	}
	e.Op = rapid.SampledFrom(ops).Draw(t, "top")
	e.Pos = rapid.IntRange(0, 1<<16).Draw(t, "tpos")
	switch e.Op {
	case "set", "append", "insert":
		e.Text = rapid.SampledFrom(texts).Draw(t, "ttext")
	case "prefix":
		e.Text = rapid.SampledFrom([]string{"v3:", "v2:", "", "V3:", "v3", "v1:", "v4:", "v3:v3:"}).Draw(t, "prefix")
	}
	return e
}

var plainUnits = []string{"x", "secret", "pässwörd", "\x00", "{\"a\":1}", "line\n", "\xff\xfe", "0123456789abcdef"}
var plainLens = []int{0, 0, 1, 2, 5, 15, 16, 17, 31, 32, 33, 64, 100, 255, 1000, 4096}

func gen(t *rapid.T) Case {
	var c Case
	c.Target = rapid.SampledFrom([]string{"util", "util", "util", "settings", "settings", "settings", "token", "token"}).Draw(t, "target")
	c.Format = rapid.SampledFrom([]string{"v3", "v3", "v3", "v3", "v2", "v2", "legacy", "legacy"}).Draw(t, "format")
	c.Key = genKey(t, c.Target == "token")
	c.BlobSeed = rapid.IntRange(0, 1<<20).Draw(t, "blobseed")
	if c.Target == "token" {
		c.Name = rapid.SampledFrom([]string{"alice", "", "root", "bob o'neil", "用户"}).Draw(t, "name")
		c.Data = rapid.SampledFrom([]string{"", "payload", "{\"perm\":[\"root\"]}", strings.Repeat("d", 300)}).Draw(t, "data")
		c.Validate = rapid.IntRange(0, 3).Draw(t, "validate") == 0
	} else {
		c.PlainUnit = rapid.SampledFrom(plainUnits).Draw(t, "unit")
		if rapid.IntRange(0, 29).Draw(t, "huge") == 0 {
			c.PlainLen = 65536
		} else {
			c.PlainLen = rapid.SampledFrom(plainLens).Draw(t, "plen")
		}
	}
	// attempts that reach Argon2id cost tens of milliseconds each: few of
	// them per v3 blob, more for the cheap formats
	max := 4
	if c.Format != "v3" {
		max = 10
	}
	n := rapid.IntRange(1, max).Draw(t, "nedits")
	for i := 0; i < n; i++ {
		if c.Target != "util" && rapid.IntRange(0, 2).Draw(t, "layer") == 0 {
			c.Edits = append(c.Edits, genTextEdit(t, c))
		} else {
			c.Edits = append(c.Edits, genRawEdit(t, c))
		}
	}
	return c
}

// fixed enumerates, for small blobs: truncation to every length, a bit flip
// at every byte position, deletion of every byte, one-byte extension at
// either end, a key change - for every target and format; for the hex and
// base64 layers, a case flip / digit change at every character position of a
// cheap (legacy) blob. For v3 the lengths at or above the header and the
// positions outside the magic cost one Argon2id evaluation each.
func fixed() []Case {
	var cs []Case
	for _, target := range []string{"util", "settings"} {
		for _, format := range []string{"legacy", "v2", "v3"} {
			for _, plen := range []int{0, 2} {
				if format == "v3" && plen == 0 {
					continue // keep the Argon2id bill of the fixed part near 100 evaluations
				}
				base := Case{Target: target, Format: format, PlainUnit: "hi", PlainLen: plen, Key: "fixed key", BlobSeed: 7}
				total := plen + 16 + base.headerLen(format)
				tr := base
				for k := 0; k < total; k++ {
					tr.Edits = append(tr.Edits, Edit{Layer: "raw", Op: "trunc", Pos: k})
				}
				cs = append(cs, tr)
				fl := base
				step := 1
				if format == "v3" && target == "settings" {
					step = 3
				}
				for k := 0; k < total; k += step {
					fl.Edits = append(fl.Edits, Edit{Layer: "raw", Op: "xor", Region: "any", Pos: k, Mask: 1 << (k % 8)})
				}
				cs = append(cs, fl)
				if format == "v3" {
					continue
				}
				del := base
				for k := 0; k < total; k++ {
					del.Edits = append(del.Edits, Edit{Layer: "raw", Op: "delete", Pos: k, N: 1})
				}
				del.Edits = append(del.Edits,
					Edit{Layer: "raw", Op: "append", Data: []byte{0}}, Edit{Layer: "raw", Op: "prepend", Data: []byte{0}},
					Edit{Layer: "raw", Op: "dup"}, Edit{Layer: "raw", Op: "magic"},
					Edit{Op: "key", Key: "fixed key "}, Edit{Op: "key", Key: ""}, Edit{Op: "key", Key: "Fixed key"})
				cs = append(cs, del)
			}
		}
	}
	// text layers on cheap blobs
	tok := Case{Target: "token", Format: "legacy", Name: "alice", Data: "payload", Key: tokenKey, BlobSeed: 3}
	for k := 0; k < 120; k++ {
		tok.Edits = append(tok.Edits, Edit{Layer: "text", Op: "case", Pos: k * 3}, Edit{Layer: "text", Op: "set", Pos: k * 3, Text: "7"})
	}
	tok.Edits = append(tok.Edits, Edit{Layer: "text", Op: "delete", Pos: 5}, Edit{Layer: "text", Op: "append", Text: "0"}, Edit{Layer: "text", Op: "append", Text: "00"},
		Edit{Layer: "text", Op: "trunc", Pos: 0}, Edit{Layer: "text", Op: "trunc", Pos: 8}, Edit{Layer: "text", Op: "trunc", Pos: 22})
	cs = append(cs, tok)
	tokv := tok
	tokv.Validate = true
	cs = append(cs, tokv)
	for _, plen := range []int{1, 2, 3} { // 0, 1 and 2 padding characters
		st := Case{Target: "settings", Format: "v2", PlainUnit: "abc", PlainLen: plen, Key: "profile-salt-id", BlobSeed: 5}
		for k := 0; k < 44; k++ {
			st.Edits = append(st.Edits, Edit{Layer: "text", Op: "set", Pos: k, Text: "A"}, Edit{Layer: "text", Op: "insert", Pos: k, Text: "\n"})
		}
		st.Edits = append(st.Edits, Edit{Layer: "text", Op: "padbits"}, Edit{Layer: "text", Op: "prefix", Text: "v3:"}, Edit{Layer: "text", Op: "prefix", Text: ""},
			Edit{Layer: "text", Op: "trunc", Pos: 0}, Edit{Layer: "text", Op: "trunc", Pos: 3}, Edit{Layer: "text", Op: "trunc", Pos: 7}, Edit{Layer: "text", Op: "append", Text: "="})
		cs = append(cs, st)
	}
	// one real token, a few attempts of every kind
	cs = append(cs, Case{Target: "token", Format: "v3", Name: "alice", Data: "payload", Key: tokenKey, Edits: []Edit{
		{Layer: "text", Op: "case", Pos: 0}, {Layer: "raw", Op: "xor", Region: "tag", Pos: 15, Mask: 1}, {Layer: "raw", Op: "trunc", Region: "header", Pos: 20},
		{Layer: "raw", Op: "trunc", Pos: 4}, {Layer: "text", Op: "trunc", Pos: 0}, {Op: "key", Key: tokenKey + "x"}}})
	return cs
}

func TestMain(m *testing.M) {
	dir, temp := os.Getenv("VERIF_RUN_DIR"), false
	if dir == "" {
		dir, _ = os.MkdirTemp("", "c27-")
		temp = true
	}
	os.Setenv("HOME", dir)
	os.Setenv("EGO_PATH", dir)
	os.Setenv("EGO_SERVER_TOKEN_KEY", tokenKey)
	rc := m.Run()
	if temp {
		os.RemoveAll(dir)
	}
	os.Exit(rc)
}

func TestC27(t *testing.T) {
	vkit.Run(t, vkit.Spec[Case]{
		ID:    "C27",
		Level: "exploration",
		Rule: "a case is one ciphertext (target util | settings | token; format v3 from the package's Encrypt, v2 / legacy built by the harness; plaintext 0..64 KiB; " +
			"keys incl. empty, non-ASCII, 270 bytes; no NUL) with its round trip and 1..10 independent attempts: XOR of one byte in a chosen region (magic, salt, nonce, body, tag), " +
			"truncation to any length, append/prepend/insert/delete/duplicate, magic or prefix swap, another key; on the hex/base64 text: digit change, case flip, " +
			"CR/LF and padding edits. Every attempt whose decoded message or key differs must return an error. " +
			"Non-trivial: some attempt decodes and reaches key derivation + GCM, or is shorter than magic+salt+nonce; distinct by case. " +
			"Attempts are counted in extra.attempts (one case = several attempts).",
		Assumptions: []string{
			"AES-GCM accepts a changed message with probability 2^-128; salts and nonces from crypto/rand do not influence any verdict",
			"v2 and legacy blobs are built by the harness from the layouts documented in internal/util/crypto.go and internal/cli/settings/crypto.go; their round trip is checked first",
			"an edit of the hex/base64 text that leaves prefix and decoded bytes unchanged is not a forgery (hex case, base64 CR/LF and non-canonical padding bits)",
			"token key is a non-empty environment value without NUL; blacklist off; token lifetime 24h / 2099 so the clock is irrelevant",
		},
		Gen:      gen,
		Oracle:   oracle,
		Fixed:    fixed,
		Quick:    50,
		Thorough: 1500,
		Extra: func() map[string]any {
			statMu.Lock()
			defer statMu.Unlock()
			m := map[string]any{}
			for k, v := range stats {
				m[k] = v
			}
			return m
		},
	})
}
