package c41

import (
	"encoding/json"
	"fmt"
	"os"
	"strings"
	"testing"

	"github.com/tucats/ego/internal/cli/settings"
	"github.com/tucats/ego/internal/defs"
	"github.com/tucats/ego/verif/srvfix"
)

// TestDev (development aid, not part of the verdict) prints the answers and
// all differences for replay files: C41_DEV=file[,file…]. With C41_PANIC=1 the
// in-process request is also sent through srvfix.Do with the router's panic
// recovery off, to show a handler panic and its stack.
func TestDev(t *testing.T) {
	files := os.Getenv("C41_DEV")
	if files == "" {
		t.Skip("dev only")
	}
	e, err := getEnv()
	if err != nil {
		t.Fatal(err)
	}
	for _, f := range strings.Split(files, ",") {
		b, err := os.ReadFile(f)
		if err != nil {
			t.Fatal(err)
		}
		var rf struct {
			Case Case `json:"case"`
		}
		if err := json.Unmarshal(b, &rf); err != nil {
			t.Fatal(err)
		}
		c := rf.Case
		if c.Svc.Lib == "" {
			if err := e.install(c.Svc); err != nil {
				t.Fatal(err)
			}
			fmt.Println(c.Svc.source())
		}
		raw := e.wire(c)
		fmt.Printf("==== %s: %s %s\n", f, c.Req.Method, target(c))
		if os.Getenv("C41_PANIC") != "" {
			settings.SetDefault(defs.ServerPanicRecoverySetting, "false")
			h := map[string]string{}
			for _, kv := range c.Req.Headers {
				h[kv.K] = kv.V
			}
			switch c.Req.Auth {
			case "admin-token":
				h["Authorization"] = "Bearer " + e.adminTok
			case "user-token":
				h["Authorization"] = "Bearer " + e.userTok
			}
			r := e.f.Do(srvfix.Request{Method: c.Req.Method, Path: target(c), Header: h, Body: string(c.Req.Body)})
			fmt.Printf("-- srvfix.Do: %d panic=%v\n%s\n", r.Status, r.Panic, r.Stack)
			settings.SetDefault(defs.ServerPanicRecoverySetting, "true")
		}
		var as []answer
		for _, m := range []string{"inproc", "file", "pipe"} {
			e.mode(m)
			a := e.send(c.Req.Method, raw)
			e.mode("inproc")
			as = append(as, a)
			fmt.Printf("-- %s: %d reach=%v err=%q\n   %v\n   %q\n", m, a.Status, a.Reach, a.Err, a.Header, clip(string(a.Body), 900))
		}
		for j, m := range []string{"file", "pipe"} {
			for _, d := range compare(as[0], as[j+1], bodyNote(c.Req.Body)) {
				fmt.Printf("   DIFF %s: %s\n", m, d.sig)
			}
		}
	}
}
