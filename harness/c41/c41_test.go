// Package c41 decides property C41, "Child-process services answer like
// in-process services":
//
//	With child-process service execution enabled (file or pipe transport),
//	every service request gets the same status, headers and body it gets
//	when the service runs inside the server process.
//
// Set-up. One real server start-up sequence in this process (srvfix, hook H1),
// served by a plain net/http server on a loopback listener, so that the check
// observes exactly what an HTTP client observes (status line, header lines as
// sent, body bytes). Requests are written as raw HTTP/1.1 text on a TCP
// connection: that is how repeated header lines and odd header casing reach
// a server. The same request bytes are sent four times:
//
//	in-process (ego.server.child.services=false)            A
//	child, file transport (…child.services.dir=<scratch>)   F
//	child, pipe transport (…child.services.dir=pipe)        P
//	in-process again                                         B
//
// The child is the real `ego` binary built by prep from the same tree
// ($VERIF_BIN/ego, run through a link inside the scratch directory):
// child.go spawns os.Args[0] with `--log-format json --log <loggers>
// --service <file|pipe>`, so the check points os.Args[0] at that link. Parent
// and child share HOME, EGO_PATH and the profile file ($HOME/.ego, the profile
// directory name the real binary uses), as a server and its children do.
//
// Oracle. A and B must agree (otherwise the service itself is not a function
// of the request and the case is skipped); F and P must each equal A in
// status, in every header (all values, in order) except Date, and in the body
// bytes. Fields that the server documents as per-request (the "session"
// number and server id inside ego's own error JSON) are masked.
//
// Services: the deterministic samples shipped in lib/services (factor,
// sample, hello, count, unit-test/*, admin/redirect, admin/debug,
// bogus-runtime, bogus-compile) and generated services that echo what the
// documented http.Request exposes (Method, URL.Path, URL.Parts, Endpoint,
// Parameters, Headers, Body, Username, IsAdmin, Authenticated,
// Authentication, Permissions, IsJSON, IsText) and use the documented
// ResponseWriter (Header().Add/Set/Del, WriteHeader, Write([]byte),
// Write(value), WriteJSON). A generated service is written to
// <lib>/services/c41/<id>/svc.ego and registered with
// services.DefineLibHandlers, the function the server start-up uses for
// route discovery.
//
// Preconditions taken from callers / documentation:
//   - only documented Request fields and ResponseWriter methods are used by
//     generated services (docs/LANGUAGE.md "http Package", docs/SERVER.md
//     "Writing a Service"); undocumented pseudo-globals (_user, _session, the
//     URL variables as bare symbols) are not used;
//   - query parameters are declared with parameter= in @endpoint (the router
//     rejects undeclared ones before the handler);
//   - up.ego and admin/memory.ego are excluded: they print the pid, host
//     statistics and the time;
//   - the configuration is the default one; both sides read the same profile.
//     Server command-line options that change compiler settings only in the
//     parent's memory (--typing …) are not explored.
package c41

import (
	"bufio"
	"bytes"
	"crypto/sha256"
	"encoding/base64"
	"encoding/json"
	"fmt"
	"io"
	"net"
	"net/http"
	"net/url"
	"os"
	"path/filepath"
	"regexp"
	"sort"
	"strings"
	"sync"
	"sync/atomic"
	"testing"
	"time"
	"unicode/utf8"

	"github.com/tucats/ego/internal/cli/settings"
	"github.com/tucats/ego/internal/defs"
	"github.com/tucats/ego/internal/router"
	"github.com/tucats/ego/internal/server/services"
	"github.com/tucats/ego/verif/srvfix"
	"github.com/tucats/ego/verif/vkit"
	"pgregory.net/rapid"
)

// ---------------------------------------------------------------- case data

// Param is a query parameter declared by a generated service.
type Param struct {
	Name string `json:"name"`
	Kind string `json:"kind"` // string | int | bool | list | string|flag
}

// HOp is one response-header operation of a generated service.
type HOp struct {
	Op    string `json:"op"` // add | set | del
	Name  string `json:"name"`
	Value string `json:"value,omitempty"`
}

// Svc names a library service or describes a generated one.
type Svc struct {
	Lib string `json:"lib,omitempty"` // key of libServices; everything below is unused then

	Method string   `json:"method,omitempty"` // "" (any) | get | post | put | delete | patch
	Vars   int      `json:"vars,omitempty"`   // URL variables {{a}} {{b}}
	Auth   string   `json:"auth,omitempty"`   // "" | authenticated | admin
	Params []Param  `json:"params,omitempty"`
	Echo   []string `json:"echo,omitempty"` // what the handler reports, in order
	Out    string   `json:"out"`            // text | json | value | raw | none
	Status int      `json:"status,omitempty"`
	// StatusLast: WriteHeader is called after the body is written
	StatusLast bool   `json:"status_last,omitempty"`
	HOps       []HOp  `json:"hops,omitempty"`
	Tail       string `json:"tail,omitempty"` // "" | diverr | exit
}

// KV is an ordered name/value pair.
type KV struct {
	K string `json:"k"`
	V string `json:"v"`
	// Enc: every byte of the value is sent %XX-encoded (query and path only)
	Enc bool `json:"enc,omitempty"`
}

// Req is one request.
type Req struct {
	Method  string `json:"method"`
	Vars    []KV   `json:"vars,omitempty"` // values of the URL variables (K unused)
	Slash   bool   `json:"slash,omitempty"`
	Query   []KV   `json:"query,omitempty"`
	Headers []KV   `json:"headers,omitempty"` // K as written on the wire
	Body    []byte `json:"body,omitempty"`
	HasBody bool   `json:"has_body,omitempty"` // send Content-Length even when the body is empty
	Auth    string `json:"auth,omitempty"`     // "" | admin-token | user-token | admin-basic | bad-token
}

// Case is one service and one request.
type Case struct {
	Svc Svc `json:"svc"`
	Req Req `json:"req"`
}

// ---------------------------------------------------------------- library services

type libService struct {
	path   string // with %s for variables
	nvars  int
	method string
	vars   [][]string // candidate values per variable
	query  []Param
}

var libServices = map[string]libService{
	"factor":        {path: "/services/factor", nvars: 1, method: "GET", vars: [][]string{{"12", "97", "360", "1", "0", "-6", "x", "1e3", "4 2", "9999991"}}},
	"sample":        {path: "/services/sample/users", nvars: 2, method: "GET", vars: [][]string{{"tom", "mary", "bob", "TOM", "to m"}, {"age", "gender", "shoe", "AGE"}}},
	"hello":         {path: "/services/hello", method: "GET"},
	"count":         {path: "/services/count", method: "GET"},
	"echo-get":      {path: "/services/unit-test/echo", method: "GET", query: []Param{{"name", "string"}, {"count", "int"}}},
	"echo-post":     {path: "/services/unit-test/echo", method: "POST"},
	"echo-put":      {path: "/services/unit-test/echo", method: "PUT"},
	"echo-patch":    {path: "/services/unit-test/echo", method: "PATCH"},
	"echo-delete":   {path: "/services/unit-test/echo", method: "DELETE"},
	"media":         {path: "/services/unit-test/media", method: "GET"},
	"protected":     {path: "/services/unit-test/protected", method: "GET"},
	"status":        {path: "/services/unit-test/status", nvars: 1, method: "GET", vars: [][]string{{"200", "201", "204", "301", "400", "401", "403", "404", "418", "500", "503", "abc", "99", "600"}}},
	"redirect":      {path: "/services/admin/redirect", method: "GET"},
	"debug":         {path: "/services/admin/debug", method: "GET"},
	"bogus-runtime": {path: "/services/bogus-runtime", method: "GET"},
	"bogus-compile": {path: "/services/bogus-compile", method: "GET"},
}

func libNames() []string {
	ns := make([]string, 0, len(libServices))
	for n := range libServices {
		ns = append(ns, n)
	}
	sort.Strings(ns)
	return ns
}

// ---------------------------------------------------------------- generated service source

var varNames = []string{"a", "b"}

// echoHeaders are the request headers a generated service reports by name
// (all are on util.NonSensitiveHeader's list; X-Secret is not and must be
// invisible in both modes).
var echoHeaders = []string{"Accept", "Accept-Language", "Cache-Control", "Content-Type", "Prefer", "Via", "X-Forwarded-For", "X-Secret"}

func (s Svc) id() string {
	b, _ := json.Marshal(s)
	h := sha256.Sum256(b)
	return fmt.Sprintf("g%x", h[:6])
}

func (s Svc) route() string {
	p := "/services/c41/" + s.id()
	for i := 0; i < s.Vars; i++ {
		p += "/{{" + varNames[i] + "}}"
	}
	return p
}

func egoQuote(s string) string {
	var b strings.Builder
	b.WriteByte('"')
	for _, r := range s {
		switch {
		case r == '"' || r == '\\':
			b.WriteByte('\\')
			b.WriteRune(r)
		case r == '\n':
			b.WriteString(`\n`)
		case r == '\t':
			b.WriteString(`\t`)
		default:
			b.WriteRune(r)
		}
	}
	b.WriteByte('"')
	return b.String()
}

// source renders the service program.
func (s Svc) source() string {
	var b strings.Builder
	b.WriteString("@endpoint ")
	if s.Method != "" {
		b.WriteString(s.Method + " ")
	}
	b.WriteString(`path="` + s.route() + `"`)
	if len(s.Params) > 0 {
		b.WriteString(" parameter=")
		for i, p := range s.Params {
			if i > 0 {
				b.WriteString(",")
			}
			b.WriteString(`"` + p.Name + ":" + p.Kind + `"`)
		}
	}
	if s.Auth != "" {
		b.WriteString(" " + s.Auth)
	}
	b.WriteString("\n\nimport \"http\"\nimport \"fmt\"\nimport \"sort\"\nimport \"strings\"\n")
	if s.Tail == "exit" {
		b.WriteString("import \"os\"\n")
	}
	b.WriteString(`
func join(vs []interface{}) string {
    parts := []string{}
    for _, x := range vs {
        parts = append(parts, fmt.Sprintf("%v", x))
    }
    return fmt.Sprintf("%d:", len(parts)) + strings.Join(parts, "|")
}

func handler(req http.Request, w *http.ResponseWriter) {
    out := ""
`)
	has := map[string]bool{}
	for _, e := range s.Echo {
		if has[e] {
			continue
		}
		has[e] = true
		switch e {
		case "method":
			b.WriteString("    out = out + \"method=\" + req.Method + \"\\n\"\n")
		case "path":
			b.WriteString("    out = out + \"url.path=\" + req.URL.Path + \"\\n\"\n")
		case "endpoint":
			b.WriteString("    out = out + \"endpoint=\" + req.Endpoint + \"\\n\"\n")
		case "params":
			b.WriteString(`    pkeys := []string{}
    for k, _ := range req.Parameters {
        pkeys = append(pkeys, k)
    }
    sort.Strings(pkeys)
    for _, k := range pkeys {
        out = out + "param." + k + "=" + join(req.Parameters[k]) + "\n"
    }
`)
		case "headers":
			for _, h := range echoHeaders {
				fmt.Fprintf(&b, "    if hv, ok := req.Headers[%s]; ok {\n        out = out + \"header.%s=\" + join(hv) + \"\\n\"\n    }\n", egoQuote(h), h)
			}
		case "hkeys":
			b.WriteString(`    hkeys := []string{}
    for k, _ := range req.Headers {
        hkeys = append(hkeys, k)
    }
    sort.Strings(hkeys)
    out = out + "header.keys=" + strings.Join(hkeys, ",") + "\n"
`)
		case "parts":
			for i := 0; i < s.Vars; i++ {
				fmt.Fprintf(&b, "    out = out + fmt.Sprintf(\"part.%s=%%v\\n\", req.URL.Parts[%s])\n", varNames[i], egoQuote(varNames[i]))
			}
			// the literal segments of the pattern are documented to be
			// present too ("indicating if the value was present"); the
			// shipped sample.ego tests one with bool(...)
			b.WriteString("    if bool(req.URL.Parts[\"c41\"]) {\n        out = out + \"part.literal=present\\n\"\n    } else {\n        out = out + \"part.literal=absent\\n\"\n    }\n")
		case "user":
			b.WriteString("    out = out + fmt.Sprintf(\"user=%s admin=%v authenticated=%v authentication=%s\\n\", req.Username, req.IsAdmin, req.Authenticated, req.Authentication)\n")
			b.WriteString("    perms := []string{}\n    for _, p := range req.Permissions {\n        perms = append(perms, p)\n    }\n    sort.Strings(perms)\n    out = out + \"permissions=\" + strings.Join(perms, \",\") + \"\\n\"\n")
		case "media":
			b.WriteString("    out = out + fmt.Sprintf(\"media.json=%v media.text=%v\\n\", req.IsJSON, req.IsText)\n")
		case "bodysum":
			b.WriteString(`    bb := []byte(req.Body)
    sum := 0
    for i := 0; i < len(bb); i = i + 1 {
        sum = (sum*31 + int(bb[i])) % 1000003
    }
    out = out + fmt.Sprintf("body.bytes=%d body.sum=%d\n", len(bb), sum)
`)
		case "body":
			b.WriteString("    out = out + \"body.text=\" + req.Body + \"\\n\"\n")
		}
	}
	for _, op := range s.HOps {
		switch op.Op {
		case "add":
			fmt.Fprintf(&b, "    w.Header().Add(%s, %s)\n", egoQuote(op.Name), egoQuote(op.Value))
		case "set":
			fmt.Fprintf(&b, "    w.Header().Set(%s, %s)\n", egoQuote(op.Name), egoQuote(op.Value))
		case "del":
			fmt.Fprintf(&b, "    w.Header().Del(%s)\n", egoQuote(op.Name))
		}
	}
	status := ""
	if s.Status != 0 {
		status = fmt.Sprintf("    w.WriteHeader(%d)\n", s.Status)
	}
	if !s.StatusLast {
		b.WriteString(status)
	}
	switch s.Out {
	case "text":
		b.WriteString("    w.Write([]byte(out))\n")
	case "value":
		b.WriteString("    w.Write(out)\n")
	case "json":
		// the shape of the shipped unit-test/echo services
		b.WriteString("    w.WriteJSON({method: req.Method, path: req.URL.Path, parameters: req.Parameters, headers: req.Headers, body: req.Body, parts: req.URL.Parts, user: req.Username, echo: out})\n")
	case "raw":
		b.WriteString("    w.Write([]byte(req.Body))\n")
	case "none":
	}
	if s.StatusLast {
		b.WriteString(status)
	}
	switch s.Tail {
	case "diverr":
		b.WriteString("    zero := len(out) - len(out)\n    out = fmt.Sprintf(\"%d\", 10 / zero)\n")
	case "exit":
		b.WriteString("    os.Exit(3)\n")
	}
	b.WriteString("}\n")
	return b.String()
}

// ---------------------------------------------------------------- fixture

type env struct {
	f        *srvfix.Fixture
	addr     string
	reqDir   string
	adminTok string
	userTok  string
	mu       sync.Mutex
	have     map[string]bool // installed generated services
	wrapped  map[string]bool
}

var (
	envOnce  sync.Once
	theEnv   *env
	envErr   error
	handlerN atomic.Int64 // calls that reached a service handler
)

const userName, userPass = "c41user", "c41-pass-1"

func getEnv() (*env, error) {
	envOnce.Do(func() { theEnv, envErr = newEnv() })
	return theEnv, envErr
}

func newEnv() (*env, error) {
	bin := os.Getenv("VERIF_BIN")
	if bin == "" {
		bin = filepath.Join(vkit.Root(), ".bin")
	}
	real := filepath.Join(bin, "ego")
	if _, err := os.Stat(real); err != nil {
		return nil, fmt.Errorf("ego binary: %v", err)
	}
	// the real binary keeps its profile in $HOME/.ego (main.go:
	// SetProfileDirectory(".ego")); parent and child must read the same one
	settings.ProfileDirectory = ".ego"
	f, err := srvfix.Start(srvfix.Options{PanicRecovery: true})
	if err != nil {
		return nil, err
	}
	e := &env{f: f, have: map[string]bool{}, wrapped: map[string]bool{}}
	// srvfix sets ego.runtime.path only in memory; the profile file (written
	// by InitProfileDefaults) still names the directory of the test binary.
	// Store the real location, as `ego config set ego.runtime.path=…` would.
	settings.Set(defs.EgoPathSetting, f.Dir)
	if err := settings.Save(); err != nil {
		return nil, fmt.Errorf("save profile: %v", err)
	}
	if err := os.MkdirAll(filepath.Join(f.Dir, "bin"), 0o755); err != nil {
		return nil, err
	}
	link := filepath.Join(f.Dir, "bin", "ego")
	if err := os.Symlink(real, link); err != nil {
		return nil, err
	}
	// child.go: exec.Command(os.Args[0], "--log-format", "json", "--log", …, "--service", …)
	os.Args[0] = link
	e.reqDir = filepath.Join(f.Dir, "childreq")
	if err := os.MkdirAll(e.reqDir, 0o700); err != nil {
		return nil, err
	}
	if e.adminTok, err = f.AdminToken(); err != nil {
		return nil, err
	}
	if err = f.CreateUser(e.adminTok, userName, userPass, []string{"ego.logon", "c41.read"}); err != nil {
		return nil, err
	}
	if e.userTok, err = f.Logon(userName, userPass); err != nil {
		return nil, err
	}
	// at start-up ego asks gopsutil for the host description, which runs
	// /usr/bin/lsb_release when it is on PATH; the children inherit this
	// process's environment
	os.Setenv("PATH", "/nonexistent")
	os.Setenv("EGO_LANG", "en")
	os.Setenv("LANG", "C")
	e.wrap()
	ln, err := net.Listen("tcp", "127.0.0.1:0")
	if err != nil {
		return nil, err
	}
	e.addr = ln.Addr().String()
	go func() { _ = (&http.Server{Handler: f.Router}).Serve(ln) }()
	return e, nil
}

// wrap puts a counter in front of every service route that does not have one
// yet, so that the oracle knows whether a request reached a service handler.
func (e *env) wrap() {
	e.f.Router.VerifWrapHandlers(func(info router.VerifRouteInfo, h router.HandlerFunc) router.HandlerFunc {
		key := info.Method + " " + info.Endpoint
		if info.Filename == "" || e.wrapped[key] || h == nil {
			return h
		}
		e.wrapped[key] = true
		return func(s *router.Session, w http.ResponseWriter, r *http.Request) int {
			handlerN.Add(1)
			return h(s, w, r)
		}
	})
}

// install writes a generated service and registers its route the way the
// server start-up does (services.DefineLibHandlers on its directory).
func (e *env) install(s Svc) error {
	e.mu.Lock()
	defer e.mu.Unlock()
	id := s.id()
	if e.have[id] {
		return nil
	}
	dir := filepath.Join(router.PathRoot, "services", "c41", id)
	if err := os.MkdirAll(dir, 0o755); err != nil {
		return err
	}
	if err := os.WriteFile(filepath.Join(dir, "svc.ego"), []byte(s.source()), 0o644); err != nil {
		return err
	}
	if err := services.DefineLibHandlers(e.f.Router, router.PathRoot, "/services/c41/"+id); err != nil {
		return err
	}
	e.wrap()
	e.have[id] = true
	return nil
}

func (e *env) mode(m string) {
	switch m {
	case "inproc":
		settings.SetDefault(defs.ChildServicesSetting, "false")
	case "file":
		settings.SetDefault(defs.ChildRequestDirSetting, e.reqDir)
		settings.SetDefault(defs.ChildServicesSetting, "true")
	case "pipe":
		settings.SetDefault(defs.ChildRequestDirSetting, defs.ChildServicesPipeMode)
		settings.SetDefault(defs.ChildServicesSetting, "true")
	}
}

// ---------------------------------------------------------------- wire

type answer struct {
	Status int
	Header http.Header
	Body   []byte
	Err    string
	Reach  bool // a service handler was called
}

func encAll(s string) string {
	var b strings.Builder
	for i := 0; i < len(s); i++ {
		fmt.Fprintf(&b, "%%%02X", s[i])
	}
	return b.String()
}

// target is the request target (path and query) of a case.
func target(c Case) string {
	var p string
	if c.Svc.Lib != "" {
		p = libServices[c.Svc.Lib].path
	} else {
		p = "/services/c41/" + c.Svc.id()
	}
	for _, v := range c.Req.Vars {
		if v.Enc {
			p += "/" + encAll(v.V)
		} else {
			p += "/" + url.PathEscape(v.V)
		}
	}
	if c.Req.Slash {
		p += "/"
	}
	for i, q := range c.Req.Query {
		if i == 0 {
			p += "?"
		} else {
			p += "&"
		}
		p += url.QueryEscape(q.K)
		if q.V == "\x00novalue" {
			continue
		}
		if q.Enc {
			p += "=" + encAll(q.V)
		} else {
			p += "=" + url.QueryEscape(q.V)
		}
	}
	return p
}

func (e *env) wire(c Case) []byte {
	var b bytes.Buffer
	fmt.Fprintf(&b, "%s %s HTTP/1.1\r\nHost: c41.test\r\n", c.Req.Method, target(c))
	for _, h := range c.Req.Headers {
		fmt.Fprintf(&b, "%s: %s\r\n", h.K, h.V)
	}
	switch c.Req.Auth {
	case "admin-token":
		fmt.Fprintf(&b, "Authorization: Bearer %s\r\n", e.adminTok)
	case "user-token":
		fmt.Fprintf(&b, "Authorization: Bearer %s\r\n", e.userTok)
	case "admin-basic":
		fmt.Fprintf(&b, "Authorization: %s\r\n", srvfix.Basic("admin", "secret0"))
	case "bad-token":
		fmt.Fprintf(&b, "Authorization: Bearer %s\r\n", base64.StdEncoding.EncodeToString([]byte("not a token at all")))
	}
	if len(c.Req.Body) > 0 || c.Req.HasBody {
		fmt.Fprintf(&b, "Content-Length: %d\r\n", len(c.Req.Body))
	}
	b.WriteString("Connection: close\r\n\r\n")
	b.Write(c.Req.Body)
	return b.Bytes()
}

func (e *env) send(method string, raw []byte) answer {
	var a answer
	before := handlerN.Load()
	conn, err := net.Dial("tcp", e.addr)
	if err != nil {
		a.Err = "dial: " + err.Error()
		return a
	}
	defer conn.Close()
	// protection of the run only: no answer within 20 minutes makes the case
	// inconclusive, never a violation
	_ = conn.SetDeadline(time.Now().Add(20 * time.Minute))
	if _, err := conn.Write(raw); err != nil {
		a.Err = "write: " + err.Error()
		return a
	}
	resp, err := http.ReadResponse(bufio.NewReader(conn), &http.Request{Method: method})
	if err != nil {
		a.Err = "read: " + err.Error()
		return a
	}
	defer resp.Body.Close()
	a.Status = resp.StatusCode
	a.Header = resp.Header
	a.Body, err = io.ReadAll(resp.Body)
	if err != nil {
		a.Err = "body: " + err.Error()
	}
	a.Reach = handlerN.Load() > before
	return a
}

// ---------------------------------------------------------------- comparison

var (
	sessionRE = regexp.MustCompile(`"session":\s*\d+`)
	idRE      = regexp.MustCompile(`"id":\s*"[0-9a-f]{8}-[0-9a-f-]{27}"`)
	digitsRE  = regexp.MustCompile(`\d+`)
	quotedRE  = regexp.MustCompile(`"[^"]*"|'[^']*'`)
)

// maskBody hides the per-request session number and the server instance id
// in ego's own JSON bodies.
func maskBody(b []byte) []byte {
	return idRE.ReplaceAll(sessionRE.ReplaceAll(b, []byte(`"session": 0`)), []byte(`"id": "ID"`))
}

type diff struct {
	sig string
	obs string
	exp string
}

// errMsg extracts the msg of an ego error body ("" when it is not one).
func errMsg(b []byte) (string, bool) {
	var m struct {
		Msg    *string `json:"msg"`
		Status int     `json:"status"`
	}
	if json.Unmarshal(b, &m) != nil || m.Msg == nil {
		return "", false
	}
	return *m.Msg, true
}

var compileErrRE = regexp.MustCompile(`^at line \d+:\d+, `)

func msgClass(s string) string {
	if compileErrRE.MatchString(s) {
		return "compile error"
	}
	s = quotedRE.ReplaceAllString(s, `"…"`)
	s = digitsRE.ReplaceAllString(s, "N")
	if len(s) > 70 {
		s = s[:70]
	}
	return s
}

// bodyDiff names the first place where two bodies differ: the key of the
// first differing "key=value" line of a generated text echo, the field of a
// JSON object, or a description of the byte difference.
func bodyDiff(a, b []byte) string {
	if len(a) == 0 {
		return "in-process empty, child not"
	}
	if len(b) == 0 {
		return "child empty, in-process not"
	}
	if ma, ok := errMsg(a); ok {
		if mb, ok := errMsg(b); ok {
			if ma != mb {
				if strings.HasSuffix(ma, mb) {
					// e.g. the localized "Error: " / "Service aborted" wrapper
					return fmt.Sprintf("error-msg: the child message %q lacks the prefix of the in-process message", msgClass(mb))
				}
				return fmt.Sprintf("error-msg in=%q child=%q", msgClass(ma), msgClass(mb))
			}
			// same message: compare the layout
			var ca, cb bytes.Buffer
			if json.Compact(&ca, a) == nil && json.Compact(&cb, b) == nil && bytes.Equal(maskBody(ca.Bytes()), maskBody(cb.Bytes())) {
				return "error-json layout (indentation)"
			}
			return "error-json fields"
		}
		return fmt.Sprintf("in-process ego error body (%s), child other", msgClass(ma))
	}
	if mb, ok := errMsg(b); ok {
		return fmt.Sprintf("child ego error body (%s), in-process other", msgClass(mb))
	}
	var sa, sb string
	if json.Unmarshal(a, &sa) == nil && json.Unmarshal(b, &sb) == nil {
		// Write(value) for a JSON client: the echo text as one JSON string
		if sa == sb {
			return "json string differs only in escaping"
		}
		return lineDiff([]byte(sa), []byte(sb))
	}
	var ja, jb map[string]any
	if json.Unmarshal(a, &ja) == nil && json.Unmarshal(b, &jb) == nil {
		keys := map[string]bool{}
		for k := range ja {
			keys[k] = true
		}
		for k := range jb {
			keys[k] = true
		}
		ks := make([]string, 0, len(keys))
		for k := range keys {
			ks = append(ks, k)
		}
		sort.Strings(ks)
		for _, k := range ks {
			x, _ := json.Marshal(ja[k])
			y, _ := json.Marshal(jb[k])
			if !bytes.Equal(x, y) {
				if k == "echo" {
					return lineDiff([]byte(fmt.Sprint(ja[k])), []byte(fmt.Sprint(jb[k])))
				}
				return "json field " + k
			}
		}
		return "json text (same value)"
	}
	if bytes.Contains(a, []byte("=")) && bytes.Contains(a, []byte("\n")) {
		return lineDiff(a, b)
	}
	switch {
	case len(a) == 0:
		return "in-process empty, child not"
	case len(b) == 0:
		return "child empty, in-process not"
	case len(a) != len(b):
		return "bytes (length)"
	}
	return "bytes (same length)"
}

func lineDiff(a, b []byte) string {
	la := strings.Split(string(a), "\n")
	lb := strings.Split(string(b), "\n")
	for i := 0; i < len(la) || i < len(lb); i++ {
		var x, y string
		if i < len(la) {
			x = la[i]
		}
		if i < len(lb) {
			y = lb[i]
		}
		if x != y {
			k := x
			if k == "" {
				k = y
			}
			if j := strings.Index(k, "="); j > 0 {
				k = k[:j]
			}
			if strings.HasPrefix(k, "param.") {
				k = "param.*"
			}
			if len(k) > 30 {
				k = k[:30]
			}
			return "echo line " + k
		}
	}
	return "echo (no line differs)"
}

// sniffed are the Content-Type values net/http derives from the body when the
// handler set none.
var sniffed = map[string]bool{"text/plain; charset=utf-8": true, "text/html; charset=utf-8": true, "application/octet-stream": true, "text/xml; charset=utf-8": true}

func ctNorm(vs []string) string {
	if len(vs) == 0 {
		return "none"
	}
	if len(vs) == 1 && sniffed[vs[0]] {
		return "(sniffed by net/http)"
	}
	return strings.Join(vs, "+")
}

var securityHeaders = map[string]bool{"X-Frame-Options": true, "X-Content-Type-Options": true, "Referrer-Policy": true, "Content-Security-Policy": true}

const panicSig = "in-process handler panic (router answers 500 internal server error), child mode answers normally"

// compare lists the differences between the in-process answer a and the
// child answer b, most significant first. Signatures name the relation that
// fails, not the values.
func compare(a, b answer, bodyNote string) []diff {
	var ds []diff
	if b.Err != "" {
		return []diff{{sig: "no response from child mode", obs: b.Err, exp: fmt.Sprintf("status %d", a.Status)}}
	}
	ab, bb := maskBody(a.Body), maskBody(b.Body)
	ma, aErr := errMsg(a.Body)
	_, bErr := errMsg(b.Body)
	aErr = aErr && a.Status >= 400
	bErr = bErr && b.Status >= 400
	if a.Status != b.Status {
		// everything else about the two answers follows from whatever made the
		// statuses differ: report this alone
		extra := ""
		if m, ok := errMsg(b.Body); ok {
			extra = " child-msg=" + msgClass(m)
		} else if aErr {
			extra = " in-process-msg=" + msgClass(ma)
		}
		sig := fmt.Sprintf("status in=%d child=%d%s", a.Status, b.Status, extra)
		return []diff{{sig: sig,
			obs: fmt.Sprintf("child status %d body %s", b.Status, clip(string(bb), 400)), exp: fmt.Sprintf("in-process status %d body %s", a.Status, clip(string(ab), 400))}}
	}
	if aErr && a.Status == 500 && !bErr {
		return []diff{{sig: "service fails at run time after writing its answer: in-process sends ego's error document, child mode the service's partial answer with status 500",
			obs: fmt.Sprintf("child: Content-Type %q body %s", b.Header["Content-Type"], clip(string(bb), 400)), exp: fmt.Sprintf("in-process: Content-Type %q body %s", a.Header["Content-Type"], clip(string(ab), 400))}}
	}
	names := map[string]bool{}
	for k := range a.Header {
		names[k] = true
	}
	for k := range b.Header {
		names[k] = true
	}
	hs := make([]string, 0, len(names))
	for k := range names {
		hs = append(hs, k)
	}
	sort.Strings(hs)
	bodySame := bytes.Equal(ab, bb)
	for _, k := range hs {
		if k == "Date" {
			continue
		}
		va, vb := a.Header[k], b.Header[k]
		if k == "Content-Length" && !bytes.Equal(a.Body, b.Body) {
			continue // follows from the body difference (or from a masked field of different width)
		}
		if strings.Join(va, "\x00") == strings.Join(vb, "\x00") {
			continue
		}
		var sig string
		switch {
		case len(va) >= 2 && len(vb) == 1 && strings.TrimSpace(vb[0]) == strings.TrimSpace(strings.Join(va, ", ")):
			sig = "response header with several values is one comma-joined value in child mode"
		case k == "Content-Type" && len(vb) >= 2 && vb[len(vb)-1] == defs.ErrorMediaType:
			sig = "child mode error answer carries several Content-Type lines (the service's or application/json, then the error type)"
		case k == "Content-Type" && len(vb) >= 2:
			sig = "child mode sends Content-Type " + fmt.Sprint(len(vb)) + " times: " + strings.Join(vb, "+") + " in=" + ctNorm(va)
		case k == "Content-Type" && len(va) == 1 && va[0] == "application/json" && (len(vb) == 0 || len(vb) == 1 && sniffed[vb[0]]):
			sig = "Content-Type application/json of the in-process answer is not set in child mode"
		case k == "Content-Type":
			sig = "header Content-Type in=" + ctNorm(va) + " child=" + ctNorm(vb)
		case k == "Www-Authenticate":
			sig = "header Www-Authenticate of a 401 answer differs (child mode sets its own challenge)"
		case aErr && bErr && len(va) == 0:
			sig = "error answer: headers the service had set before it failed are sent only in child mode"
		default:
			name := k
			if strings.HasPrefix(k, "X-C41-") {
				name = "X-C41-*"
			}
			var rel string
			switch {
			case len(va) == 0:
				rel = "only in child mode"
			case len(vb) == 0:
				rel = "missing in child mode"
			case len(va) != len(vb):
				rel = fmt.Sprintf("%d values in-process, %d in child mode", len(va), len(vb))
			default:
				rel = "value differs"
			}
			if securityHeaders[k] {
				name = "(security header set by the router)"
			}
			sig = "header " + name + " " + rel
		}
		ds = append(ds, diff{sig: sig, obs: fmt.Sprintf("child: %s: %q", k, vb), exp: fmt.Sprintf("in-process: %s: %q", k, va)})
	}
	if !bodySame {
		what := bodyDiff(ab, bb)
		if strings.Contains(what, "body.") || strings.HasPrefix(what, "bytes") || what == "json field body" || strings.Contains(what, "only in escaping") {
			// the echo of the request body differs: say what kind of body it was
			what += bodyNote
		}
		ds = append(ds, diff{sig: "body " + what, obs: "child body: " + clip(string(bb), 600), exp: "in-process body: " + clip(string(ab), 600)})
	}
	return ds
}

func clip(s string, n int) string {
	if len(s) > n {
		return s[:n] + "…"
	}
	return s
}

// bodyNote classifies the request body for signatures about its echo.
func bodyNote(b []byte) string {
	switch {
	case len(b) == 0:
		return " [no request body]"
	case !utf8.Valid(b):
		return " [request body is not valid UTF-8]"
	default:
		return " [UTF-8 request body]"
	}
}

// panicSite sends the request once more in-process through srvfix.Do with the
// router's panic recovery switched off, to learn where a handler panic that
// the router turned into "500 internal server error" comes from. Best effort
// (srvfix.Do cannot repeat header lines); "unknown" when it does not panic.
func (e *env) panicSite(c Case) string {
	settings.SetDefault(defs.ServerPanicRecoverySetting, "false")
	defer settings.SetDefault(defs.ServerPanicRecoverySetting, "true")
	h := map[string]string{}
	for _, kv := range c.Req.Headers {
		h[kv.K] = kv.V
	}
	switch c.Req.Auth {
	case "admin-token":
		h["Authorization"] = "Bearer " + e.adminTok
	case "user-token":
		h["Authorization"] = "Bearer " + e.userTok
	case "admin-basic":
		h["Authorization"] = srvfix.Basic("admin", "secret0")
	}
	r := e.f.Do(srvfix.Request{Method: c.Req.Method, Path: target(c), Header: h, Body: string(c.Req.Body)})
	if r.Panic == nil {
		return "unknown"
	}
	// the frames below the LAST "panic(" line: the router's reporter
	// re-panics when recovery is off, the original panic is further down
	lines := strings.Split(r.Stack, "\n")
	last := -1
	for i, l := range lines {
		if strings.HasPrefix(l, "panic(") {
			last = i
		}
	}
	for i := last + 1; last >= 0 && i < len(lines); i++ {
		l := lines[i]
		if strings.HasPrefix(l, "github.com/tucats/ego/") && !strings.Contains(l, "/verif/") {
			if j := strings.LastIndex(l, "("); j > 0 {
				l = l[:j]
			}
			return strings.TrimPrefix(l, "github.com/tucats/ego/")
		}
	}
	return "unknown"
}

// ---------------------------------------------------------------- known findings (to look behind them)

var (
	knownOnce sync.Once
	knownSigs map[string]bool
)

// known reads the same file vkit matches against; the oracle uses it only to
// choose which of several differences of one case to report: the first one
// that is not recorded yet.
func known() map[string]bool {
	knownOnce.Do(func() {
		knownSigs = map[string]bool{}
		p := os.Getenv("VERIF_KNOWN")
		if p == "" {
			p = filepath.Join(vkit.Root(), "known_findings.json")
		}
		b, err := os.ReadFile(p)
		if err != nil {
			return
		}
		var kf struct {
			Findings []struct {
				Property string `json:"property"`
				Sig      string `json:"sig"`
			} `json:"findings"`
		}
		if json.Unmarshal(b, &kf) != nil {
			return
		}
		for _, k := range kf.Findings {
			if k.Property == "C41" {
				knownSigs[k.Sig] = true
			}
		}
	})
	return knownSigs
}

// ---------------------------------------------------------------- oracle

func multi(kvs []KV, fold bool) bool {
	n := map[string]int{}
	for _, kv := range kvs {
		k := kv.K
		if fold {
			k = strings.ToLower(k)
		}
		n[k]++
		if n[k] >= 2 {
			return true
		}
	}
	return false
}

func oracle(c Case) vkit.Outcome {
	out, _ := evaluate(c, "")
	return out
}

// evaluate runs a case and returns the outcome and every difference found.
// When several differences exist, the one reported is the first whose
// signature contains want (if want is set), else the first that is not a
// recorded finding, else the first.
func evaluate(c Case, want string) (out vkit.Outcome, all []diff) {
	e, err := getEnv()
	if err != nil {
		out.Skip = "fixture: " + err.Error()
		return out, all
	}
	svcKind := "gen"
	if c.Svc.Lib != "" {
		if _, ok := libServices[c.Svc.Lib]; !ok {
			out.Skip = "unknown library service"
			return out, all
		}
		svcKind = "lib:" + c.Svc.Lib
	} else {
		if c.Svc.Vars < 0 || c.Svc.Vars > len(varNames) {
			out.Skip = "malformed service"
			return out, all
		}
		if err := e.install(c.Svc); err != nil {
			out.Skip = "install: " + err.Error()
			return out, all
		}
	}
	raw := e.wire(c)
	run := func(m string) answer {
		e.mode(m)
		defer e.mode("inproc")
		return e.send(c.Req.Method, raw)
	}
	a := run("inproc")
	if a.Err != "" {
		out.Inconclusive = "in-process request got no response"
		out.Labels = append(out.Labels, "inproc-no-response "+clip(a.Err, 40))
		return out, all
	}
	out.Labels = append(out.Labels, fmt.Sprintf("svc=%s", svcKind), fmt.Sprintf("inproc-status=%d reached=%v", a.Status, a.Reach))
	if !a.Reach {
		// the router answered (authentication, method, parameter validation,
		// unknown path): the service did not run, there is nothing to compare
		out.Labels = append(out.Labels, "router-answered")
		out.Key = "router:" + string(raw)
		return out, all
	}
	fa := run("file")
	pa := run("pipe")
	b := run("inproc")
	hasBody := len(c.Req.Body) > 0
	hasVar := len(c.Req.Vars) > 0
	multiQ := multi(c.Req.Query, false)
	multiH := multi(c.Req.Headers, true)
	out.NonTrivial = hasBody || hasVar || multiQ || multiH
	out.Labels = append(out.Labels, fmt.Sprintf("req body=%v var=%v multi-param=%v multi-header=%v auth=%s", hasBody, hasVar, multiQ, multiH, c.Req.Auth))
	if c.Svc.Lib == "" {
		out.Labels = append(out.Labels, "gen out="+c.Svc.Out, fmt.Sprintf("gen status=%d tail=%s", c.Svc.Status, c.Svc.Tail))
	}
	if len(c.Req.Body) > 0 {
		kind := "utf8"
		if !json.Valid(append(append([]byte(`"`), bytes.ReplaceAll(bytes.ReplaceAll(c.Req.Body, []byte(`\`), nil), []byte(`"`), nil)...), '"')) {
			kind = "binary/control"
		}
		if len(c.Req.Body) > 60000 {
			kind += " large"
		}
		out.Labels = append(out.Labels, "body "+kind)
	}
	note := bodyNote(c.Req.Body)
	if ds := compare(a, b, note); len(ds) > 0 {
		// the service is not a function of the request in-process: no verdict
		out.Skip = "in-process answers differ: " + ds[0].sig
		return out, all
	}
	df, dp := compare(a, fa, note), compare(a, pa, note)
	inP := map[string]bool{}
	for _, d := range dp {
		inP[d.sig] = true
	}
	inF := map[string]bool{}
	for _, d := range df {
		inF[d.sig] = true
		if inP[d.sig] {
			all = append(all, d)
		} else {
			d.sig = "file only: " + d.sig
			all = append(all, d)
		}
	}
	for _, d := range dp {
		if !inF[d.sig] {
			d.sig = "pipe only: " + d.sig
			all = append(all, d)
		}
	}
	if len(all) == 0 {
		out.Labels = append(out.Labels, "agree")
		return out, all
	}
	if _, isErr := errMsg(a.Body); isErr && a.Status == 500 {
		// The in-process answer may be the router's recovery from a handler
		// panic (its message is localized, so the text does not tell). If the
		// request panics with recovery off, that panic is the one root cause of
		// every difference of this case.
		if site := e.panicSite(c); site != "unknown" {
			all = []diff{{sig: panicSig + " at " + site,
				obs: fmt.Sprintf("child answers: file %d, pipe %d", fa.Status, pa.Status), exp: fmt.Sprintf("in-process status %d body %s", a.Status, clip(string(maskBody(a.Body)), 300))}}
		}
	}
	out.Labels = append(out.Labels, "differ")
	kn := known()
	pick := all[0]
	for _, d := range all {
		if !kn[d.sig] {
			pick = d
			break
		}
	}
	if want != "" {
		for _, d := range all {
			if strings.Contains(d.sig, want) {
				pick = d
				break
			}
		}
	}
	var sigs []string
	for _, d := range all {
		sigs = append(sigs, d.sig)
	}
	out.Fail = &vkit.Failure{Sig: pick.sig,
		Observed: fmt.Sprintf("%s %s: %s (all differences: %s)", c.Req.Method, target(c), pick.obs, strings.Join(sigs, " | ")),
		Expected: pick.exp}
	return out, all
}

// ---------------------------------------------------------------- generator

var (
	paramPool = []Param{{"q", "string"}, {"n", "int"}, {"flag", "bool"}, {"list", "list"}, {"opt", "string|flag"}, {"any", "any"}}
	strVals   = []string{"", "a", "hello world", "a&b=c", "é√", "%", "+", "a+b", "x/y", "?", "#frag", "true", "0", strings.Repeat("z", 300), "\t", "a,b,c", "\"q\"", "<tag>"}
	intVals   = []string{"0", "-5", "12", "007", "9007199254740993"}
	boolVals  = []string{"true", "false", "", "1", "no", "TRUE"}
	varVals   = []string{"x", "42", "a b", "é", "a+b", "%25", "A.B", "~t", "true", "false", "0", "x;y", "a,b", "a=b", "UPPER", strings.Repeat("p", 120)}
	accepts   = []string{"application/json", "text/plain", "*/*", "application/json, text/plain", "text/html", "application/JSON", "text/plain;q=0.9, application/json;q=0.8"}
	hdrPool   = []KV{
		{K: "Accept-Language", V: "en"}, {K: "Accept-Language", V: "fr-CH, fr;q=0.9"}, {K: "accept-language", V: "es"},
		{K: "Cache-Control", V: "no-cache"}, {K: "Cache-Control", V: "max-age=0"}, {K: "cache-control", V: "no-store"}, {K: "CACHE-CONTROL", V: "private"},
		{K: "Content-Type", V: "application/json"}, {K: "Content-Type", V: "text/plain; charset=utf-8"}, {K: "content-TYPE", V: "application/octet-stream"},
		{K: "Prefer", V: "return=minimal"}, {K: "prefer", V: "wait=10"},
		{K: "Via", V: "1.1 proxy-a"}, {K: "Via", V: "1.0 proxy-b, 1.1 proxy-c"},
		{K: "X-Forwarded-For", V: "10.1.2.3"}, {K: "x-forwarded-for", V: "10.9.9.9, 10.1.1.1"},
		{K: "X-Secret", V: "hidden"}, {K: "User-Agent", V: "c41/1.0 (verif)"}, {K: "From", V: "a@example.org"},
		{K: "Accept-Encoding", V: "identity"},
	}
	respHdrNames = []string{"X-C41-One", "X-C41-Two", "x-c41-lower", "Set-Cookie", "Cache-Control", "Content-Type", "Location", "X-Frame-Options", "Content-Language", "WWW-Authenticate"}
	respHdrVals  = []string{"1", "a", "b", "v=1; Path=/", "w=2; HttpOnly", "no-cache", "text/plain", "application/json", "application/x-c41; charset=utf-8", "https://example.org/x?y=1", "a, b", "", "é", "SAMEORIGIN"}
	statuses     = []int{0, 0, 200, 200, 201, 202, 204, 301, 304, 400, 401, 403, 404, 409, 418, 500, 503}
	echoItems    = []string{"method", "path", "endpoint", "params", "headers", "hkeys", "parts", "user", "media", "bodysum", "body"}
)

func genBody(t *rapid.T) ([]byte, bool) {
	switch rapid.IntRange(0, 9).Draw(t, "bodyclass") {
	case 0, 1:
		return nil, false
	case 2:
		return nil, true // Content-Length: 0
	case 3, 4:
		return []byte(rapid.SampledFrom([]string{"Hello", `{"A":1,"b":[true,null,"X"]}`, "Line1\nline2\r\n", "ÜnïcÖdé ☃", "A=1&b=2", " ", "\"Quoted\" \\ Back", "MiXeD cAsE"}).Draw(t, "textbody")), true
	case 5:
		return []byte(rapid.SampledFrom([]string{"\xff\xfe\xfd", "OK\x00nul", "\x80", "\xc3\x28", "Caf\xe9", "\x1b[0m\x07", "\xed\xa0\x80"}).Draw(t, "binbody")), true
	case 6:
		n := rapid.IntRange(1, 48).Draw(t, "rawlen")
		b := make([]byte, n)
		for i := range b {
			b[i] = byte(rapid.IntRange(0, 255).Draw(t, "byte"))
		}
		return b, true
	case 7:
		n := rapid.SampledFrom([]int{4096, 65536, 70001, 300000}).Draw(t, "largelen")
		unit := rapid.SampledFrom([]string{"0123456789ABCDEF", "é☃X", "\x00\xffAb"}).Draw(t, "largeunit")
		return []byte(strings.Repeat(unit, n/len(unit)+1))[:n], true
	default:
		return []byte(rapid.StringN(0, 40, 80).Draw(t, "anybody")), true
	}
}

func genHeaders(t *rapid.T) []KV {
	var hs []KV
	if rapid.IntRange(0, 9).Draw(t, "accept?") > 0 {
		hs = append(hs, KV{K: rapid.SampledFrom([]string{"Accept", "Accept", "accept", "ACCEPT"}).Draw(t, "acceptname"), V: rapid.SampledFrom(accepts).Draw(t, "accept")})
		if rapid.IntRange(0, 5).Draw(t, "accept2?") == 0 {
			hs = append(hs, KV{K: "Accept", V: rapid.SampledFrom(accepts).Draw(t, "accept2")})
		}
	}
	n := rapid.IntRange(0, 5).Draw(t, "nheaders")
	for i := 0; i < n; i++ {
		hs = append(hs, rapid.SampledFrom(hdrPool).Draw(t, "header"))
	}
	return hs
}

func genAuth(t *rapid.T) string {
	return rapid.SampledFrom([]string{"", "", "admin-token", "user-token", "user-token", "admin-basic", "bad-token"}).Draw(t, "auth")
}

func genQuery(t *rapid.T, params []Param) []KV {
	var q []KV
	if len(params) == 0 {
		return nil
	}
	n := rapid.IntRange(0, 4).Draw(t, "nquery")
	for i := 0; i < n; i++ {
		p := rapid.SampledFrom(params).Draw(t, "qparam")
		var v string
		switch p.Kind {
		case "int":
			v = rapid.SampledFrom(intVals).Draw(t, "intval")
		case "bool":
			v = rapid.SampledFrom(boolVals).Draw(t, "boolval")
		default:
			v = rapid.SampledFrom(strVals).Draw(t, "strval")
		}
		kv := KV{K: p.Name, V: v, Enc: rapid.IntRange(0, 5).Draw(t, "qenc") == 0}
		q = append(q, kv)
		if (p.Kind == "list" || p.Kind == "string|flag") && rapid.Bool().Draw(t, "repeat") {
			q = append(q, KV{K: p.Name, V: rapid.SampledFrom(strVals).Draw(t, "strval2")})
		}
	}
	if rapid.IntRange(0, 11).Draw(t, "novalue?") == 0 {
		for _, p := range params {
			if p.Kind == "string|flag" {
				q = append(q, KV{K: p.Name, V: "\x00novalue"})
				break
			}
		}
	}
	return q
}

func genLib(t *rapid.T) Case {
	name := rapid.SampledFrom(libNames()).Draw(t, "lib")
	ls := libServices[name]
	c := Case{Svc: Svc{Lib: name}}
	c.Req.Method = ls.method
	if rapid.IntRange(0, 14).Draw(t, "othermethod?") == 0 {
		c.Req.Method = rapid.SampledFrom([]string{"GET", "POST", "PUT", "DELETE", "PATCH"}).Draw(t, "method")
	}
	nv := ls.nvars
	if nv > 0 && rapid.IntRange(0, 5).Draw(t, "fewer?") == 0 {
		nv = rapid.IntRange(0, nv-1).Draw(t, "nvars")
	}
	for i := 0; i < nv; i++ {
		c.Req.Vars = append(c.Req.Vars, KV{V: rapid.SampledFrom(ls.vars[i]).Draw(t, "var"), Enc: rapid.IntRange(0, 7).Draw(t, "venc") == 0})
	}
	c.Req.Slash = rapid.IntRange(0, 9).Draw(t, "slash") == 0
	c.Req.Query = genQuery(t, ls.query)
	c.Req.Headers = genHeaders(t)
	if c.Req.Method != "GET" || rapid.IntRange(0, 5).Draw(t, "getbody?") == 0 {
		c.Req.Body, c.Req.HasBody = genBody(t)
	}
	c.Req.Auth = genAuth(t)
	return c
}

func genSvc(t *rapid.T) Svc {
	var s Svc
	s.Method = rapid.SampledFrom([]string{"", "", "get", "post", "put", "delete", "patch"}).Draw(t, "svcmethod")
	s.Vars = rapid.IntRange(0, 2).Draw(t, "svcvars")
	s.Auth = rapid.SampledFrom([]string{"", "", "", "authenticated", "admin"}).Draw(t, "svcauth")
	np := rapid.IntRange(0, 4).Draw(t, "nparams")
	seen := map[string]bool{}
	for i := 0; i < np; i++ {
		p := rapid.SampledFrom(paramPool).Draw(t, "param")
		if !seen[p.Name] {
			seen[p.Name] = true
			s.Params = append(s.Params, p)
		}
	}
	ne := rapid.IntRange(1, 6).Draw(t, "necho")
	es := map[string]bool{}
	for i := 0; i < ne; i++ {
		e := rapid.SampledFrom(echoItems).Draw(t, "echo")
		if !es[e] {
			es[e] = true
			s.Echo = append(s.Echo, e)
		}
	}
	s.Out = rapid.SampledFrom([]string{"text", "text", "text", "json", "value", "raw", "none"}).Draw(t, "out")
	s.Status = rapid.SampledFrom(statuses).Draw(t, "status")
	s.StatusLast = rapid.IntRange(0, 4).Draw(t, "statuslast") == 0
	nh := rapid.IntRange(0, 4).Draw(t, "nhops")
	casing := map[string]string{} // one spelling per header name within a service
	for i := 0; i < nh; i++ {
		name := rapid.SampledFrom(respHdrNames).Draw(t, "hname")
		if prev, ok := casing[strings.ToLower(name)]; ok {
			name = prev
		}
		casing[strings.ToLower(name)] = name
		op := rapid.SampledFrom([]string{"add", "add", "add", "set", "del"}).Draw(t, "hop")
		h := HOp{Op: op, Name: name}
		if op != "del" {
			h.Value = rapid.SampledFrom(respHdrVals).Draw(t, "hval")
		}
		s.HOps = append(s.HOps, h)
	}
	s.Tail = rapid.SampledFrom([]string{"", "", "", "", "", "", "diverr", "exit"}).Draw(t, "tail")
	if s.Out == "none" && s.Status == 0 && len(s.HOps) == 0 {
		// a handler that never touches w does not compile ("variable created
		// but never used: w")
		s.Status = 200
	}
	return s
}

func genGen(t *rapid.T) Case {
	c := Case{Svc: genSvc(t)}
	s := c.Svc
	m := strings.ToUpper(s.Method)
	if m == "" || rapid.IntRange(0, 19).Draw(t, "othermethod?") == 0 {
		m = rapid.SampledFrom([]string{"GET", "POST", "PUT", "DELETE", "PATCH"}).Draw(t, "method")
	}
	c.Req.Method = m
	nv := s.Vars
	if nv > 0 && rapid.IntRange(0, 5).Draw(t, "fewer?") == 0 {
		nv = rapid.IntRange(0, nv-1).Draw(t, "nvars")
	}
	for i := 0; i < nv; i++ {
		c.Req.Vars = append(c.Req.Vars, KV{V: rapid.SampledFrom(varVals).Draw(t, "var"), Enc: rapid.IntRange(0, 7).Draw(t, "venc") == 0})
	}
	c.Req.Slash = rapid.IntRange(0, 9).Draw(t, "slash") == 0
	c.Req.Query = genQuery(t, s.Params)
	c.Req.Headers = genHeaders(t)
	if m != "GET" || rapid.IntRange(0, 3).Draw(t, "getbody?") == 0 {
		c.Req.Body, c.Req.HasBody = genBody(t)
	}
	c.Req.Auth = genAuth(t)
	if s.Auth != "" && rapid.IntRange(0, 5).Draw(t, "authfit") > 0 {
		// mostly send credentials that pass the route's requirement, so that
		// the handler runs
		if s.Auth == "admin" {
			c.Req.Auth = rapid.SampledFrom([]string{"admin-token", "admin-basic"}).Draw(t, "adminauth")
		} else if c.Req.Auth == "" || c.Req.Auth == "bad-token" {
			c.Req.Auth = "user-token"
		}
	}
	return c
}

// fixed cases: every library service once in its plain form, and a few
// generated services chosen to touch each observation.
func fixed() []Case {
	var cs []Case
	acc := []KV{{K: "Accept", V: "application/json"}}
	for _, n := range libNames() {
		ls := libServices[n]
		c := Case{Svc: Svc{Lib: n}, Req: Req{Method: ls.method, Headers: acc}}
		for i := 0; i < ls.nvars; i++ {
			c.Req.Vars = append(c.Req.Vars, KV{V: ls.vars[i][0]})
		}
		if ls.method != "GET" {
			c.Req.Body, c.Req.HasBody = []byte(`{"K":"v"}`), true
		}
		if n == "protected" || n == "debug" {
			c.Req.Auth = "user-token"
		}
		cs = append(cs, c)
		c.Req.Headers = []KV{{K: "Accept", V: "text/plain"}}
		cs = append(cs, c)
	}
	all := Svc{Vars: 2, Params: []Param{{"list", "list"}, {"q", "string"}}, Echo: echoItems, Out: "text"}
	cs = append(cs, Case{Svc: all, Req: Req{Method: "POST", Vars: []KV{{V: "x"}, {V: "a b"}}, Query: []KV{{K: "list", V: "1"}, {K: "list", V: "2"}, {K: "q", V: ""}},
		Headers: []KV{{K: "Accept", V: "text/plain"}, {K: "Via", V: "1.1 a"}, {K: "via", V: "1.1 b"}}, Body: []byte("Hello, World"), HasBody: true, Auth: "user-token"}})
	cs = append(cs, Case{Svc: Svc{Echo: []string{"method"}, Out: "text", HOps: []HOp{{Op: "add", Name: "X-C41-Two", Value: "a"}, {Op: "add", Name: "X-C41-Two", Value: "b"}}},
		Req: Req{Method: "GET", Headers: []KV{{K: "Accept", V: "text/plain"}}}})
	cs = append(cs, Case{Svc: Svc{Echo: []string{"bodysum"}, Out: "raw"}, Req: Req{Method: "PUT", Headers: []KV{{K: "Accept", V: "*/*"}}, Body: []byte("\xff\x00\x80Binary"), HasBody: true}})
	cs = append(cs, Case{Svc: Svc{Echo: []string{"method"}, Out: "none", Status: 404}, Req: Req{Method: "GET", Headers: acc}})
	cs = append(cs, Case{Svc: Svc{Echo: []string{"user"}, Out: "json", Auth: "admin", Status: 201}, Req: Req{Method: "GET", Headers: acc, Auth: "admin-basic"}})
	return cs
}

func TestC41(t *testing.T) {
	if _, err := getEnv(); err != nil {
		t.Fatalf("fixture: %v", err)
	}
	vkit.Run(t, vkit.Spec[Case]{
		ID:    "C41",
		Level: "exploration",
		Rule: "case = one service (a deterministic lib/services sample, or a generated service echoing the documented http.Request fields and setting status/headers/body through the documented ResponseWriter) and one request " +
			"(method, URL variables, declared query parameters with repeats/empty/encoded values, request headers with repeats and odd casing, text/binary/large/empty bodies, anonymous/user/admin/bad credentials), sent as raw HTTP/1.1 over loopback " +
			"in-process, child/file, child/pipe, in-process. Non-trivial: the service handler ran and the request has a body, or >= 2 values of a header or parameter, or a URL variable; distinct by (service, request).",
		Assumptions: []string{
			"the child is $VERIF_BIN/ego built from the same tree, reached by pointing os.Args[0] at it (child.go execs os.Args[0])",
			"parent and child share HOME, EGO_PATH and the profile ($HOME/.ego); default configuration",
			"generated services use only documented Request fields and ResponseWriter methods",
			"masked: Date header, the session number in ego's own error JSON",
			"a case whose two in-process answers differ is skipped (the service is not a function of the request)",
		},
		Gen: func(t *rapid.T) Case {
			if rapid.IntRange(0, 3).Draw(t, "kind") == 0 {
				return genLib(t)
			}
			return genGen(t)
		},
		Oracle:    oracle,
		Fixed:     fixed,
		Quick:     30,
		Thorough:  400,
		MaxRounds: 12,
	})
}
