package c41

import (
	"encoding/json"
	"fmt"
	"os"
	"path/filepath"
	"sort"
	"testing"

	"github.com/tucats/ego/verif/vkit"
)

// minimal hand-written cases, one per recorded difference (harness/c41/known.json)
type knownCase struct {
	want string // part of the signature this case is the minimal example of
	c    Case
}

func knownCases() map[string]knownCase {
	txt := []KV{{K: "Accept", V: "text/plain"}}
	js := []KV{{K: "Accept", V: "application/json"}}
	return map[string]knownCase{
		"url-path":            {want: "echo line url.path", c: Case{Svc: Svc{Vars: 1, Params: []Param{{"q", "string"}}, Echo: []string{"path"}, Out: "text"}, Req: Req{Method: "GET", Vars: []KV{{V: "x"}}, Query: []KV{{K: "q", V: "1"}}, Headers: txt}}},
		"url-path-json":       {want: "json field path", c: Case{Svc: Svc{Lib: "echo-delete"}, Req: Req{Method: "DELETE", Headers: js}}},
		"url-parts-types":     {want: "json field parts", c: Case{Svc: Svc{Echo: []string{"method"}, Out: "json", HOps: []HOp{{Op: "set", Name: "Content-Type", Value: "application/json"}}}, Req: Req{Method: "GET", Headers: txt}}},
		"header-join":         {want: "comma-joined", c: Case{Svc: Svc{Echo: []string{"method"}, Out: "text", HOps: []HOp{{Op: "add", Name: "Set-Cookie", Value: "v=1; Path=/"}, {Op: "add", Name: "Set-Cookie", Value: "w=2; HttpOnly"}}}, Req: Req{Method: "GET", Headers: txt}}},
		"json-default-ct":     {want: "is not set in child mode", c: Case{Svc: Svc{Lib: "redirect"}, Req: Req{Method: "GET", Headers: js}}},
		"error-ct-lines":      {want: "several Content-Type lines", c: Case{Svc: Svc{Lib: "bogus-runtime"}, Req: Req{Method: "GET", Headers: js}}},
		"compile-error-json":  {want: "error-json layout", c: Case{Svc: Svc{Lib: "bogus-compile"}, Req: Req{Method: "GET", Headers: js}}},
		"compile-error-text":  {want: "child ego error body", c: Case{Svc: Svc{Lib: "bogus-compile"}, Req: Req{Method: "GET", Headers: txt}}},
		"status-no-body":      {want: "in-process empty, child not", c: Case{Svc: Svc{Echo: []string{"method"}, Out: "none", Status: 404}, Req: Req{Method: "GET", Headers: txt}}},
		"binary-body-raw":     {want: "bytes (length)", c: Case{Svc: Svc{Echo: []string{"method"}, Out: "raw"}, Req: Req{Method: "PUT", Headers: txt, Body: []byte("\xff\x00\x80binary"), HasBody: true}}},
		"binary-body-text":    {want: "body.text", c: Case{Svc: Svc{Echo: []string{"body"}, Out: "text"}, Req: Req{Method: "PUT", Headers: txt, Body: []byte("caf\xe9"), HasBody: true}}},
		"binary-body-count":   {want: "body.bytes", c: Case{Svc: Svc{Echo: []string{"bodysum"}, Out: "text"}, Req: Req{Method: "PUT", Headers: txt, Body: []byte("caf\xe9"), HasBody: true}}},
		"binary-body-json":    {want: "json field body", c: Case{Svc: Svc{Lib: "echo-post"}, Req: Req{Method: "POST", Headers: txt, Body: []byte("caf\xe9"), HasBody: true}}},
		"binary-body-value":   {want: "only in escaping", c: Case{Svc: Svc{Echo: []string{"body"}, Out: "value"}, Req: Req{Method: "PUT", Headers: js, Body: []byte("caf\xe9"), HasBody: true}}},
		"header-add-panic":    {want: "handler panic", c: Case{Svc: Svc{Echo: []string{"method"}, Out: "text", HOps: []HOp{{Op: "add", Name: "X-Frame-Options", Value: "SAMEORIGIN"}}}, Req: Req{Method: "GET", Headers: txt}}},
		"runtime-error-msg":   {want: "division by zero", c: Case{Svc: Svc{Echo: []string{"method"}, Out: "none", HOps: []HOp{{Op: "set", Name: "Content-Type", Value: "application/json"}}, Tail: "diverr"}, Req: Req{Method: "GET", Headers: txt}}},
		"exit-msg":            {want: `", N"`, c: Case{Svc: Svc{Echo: []string{"method"}, Out: "none", HOps: []HOp{{Op: "set", Name: "Content-Type", Value: "application/json"}}, Tail: "exit"}, Req: Req{Method: "GET", Headers: txt}}},
		"error-after-output":  {want: "after writing its answer", c: Case{Svc: Svc{Echo: []string{"method"}, Out: "text", Tail: "diverr"}, Req: Req{Method: "GET", Headers: txt}}},
		"error-keeps-headers": {want: "headers the service had set", c: Case{Svc: Svc{Echo: []string{"method"}, Out: "none", HOps: []HOp{{Op: "set", Name: "Content-Type", Value: "application/json"}, {Op: "add", Name: "X-C41-One", Value: "1"}}, Tail: "diverr"}, Req: Req{Method: "GET", Headers: txt}}},
		"challenge-401":       {want: "Www-Authenticate", c: Case{Svc: Svc{Echo: []string{"method"}, Out: "text", Status: 401}, Req: Req{Method: "GET", Headers: txt}}},
		"security-header-set": {want: "handler panic", c: Case{Svc: Svc{Echo: []string{"method"}, Out: "text", HOps: []HOp{{Op: "set", Name: "X-Frame-Options", Value: "SAMEORIGIN"}}}, Req: Req{Method: "GET", Headers: txt}}},
	}
}

// TestMkReplay (development aid: C41_MKREPLAY=1) evaluates the hand-written
// minimal cases and writes them as replay files /verif/replays/C41-<name>.json
// with the signature the oracle gives them.
func TestMkReplay(t *testing.T) {
	if os.Getenv("C41_MKREPLAY") == "" {
		t.Skip("development aid")
	}
	if _, err := getEnv(); err != nil {
		t.Fatal(err)
	}
	cs := knownCases()
	names := make([]string, 0, len(cs))
	for n := range cs {
		names = append(names, n)
	}
	sort.Strings(names)
	for _, n := range names {
		if only := os.Getenv("C41_MKREPLAY"); only != "1" && only != n {
			continue
		}
		c := cs[n].c
		out, _ := evaluate(c, cs[n].want)
		if out.Fail == nil {
			fmt.Printf("MKREPLAY %-22s HELD (skip=%q labels=%v)\n", n, out.Skip, out.Labels)
			continue
		}
		raw, _ := json.Marshal(c)
		rf := map[string]any{"property": "C41", "sig": out.Fail.Sig, "observed": out.Fail.Observed, "expected": out.Fail.Expected, "case": json.RawMessage(raw)}
		b, _ := json.MarshalIndent(rf, "", " ")
		p := filepath.Join(vkit.Root(), "replays", "C41-"+n+".json")
		if err := os.WriteFile(p, b, 0o644); err != nil {
			t.Fatal(err)
		}
		fmt.Printf("MKREPLAY %-22s sig=%s\n", n, out.Fail.Sig)
	}
}
