package c41

import (
	"bytes"
	"encoding/json"
	"fmt"
	"net"
	"os"
	"os/exec"
	"path/filepath"
	"strings"
	"testing"
	"time"
)

// TestReal is the triage tool of this check, not part of the verdict: it
// reproduces cases OUTSIDE the in-process fixture, against three real
// `ego server run --not-secure --port P` processes (child services off, file
// transport, pipe transport), each with its own HOME and EGO_PATH under the
// scratch directory. Generated services are written into each server's
// lib/services before it starts, so they are found by the normal start-up
// route discovery.
//
//	C41_REAL=/verif/replays/found/C41-….json[,more.json] go test … -run TestReal -v
//
// Only anonymous requests are meaningful here (the servers have their own,
// fresh user databases): the Auth field of a case is ignored.
func TestReal(t *testing.T) {
	files := os.Getenv("C41_REAL")
	if files == "" {
		t.Skip("triage tool: set C41_REAL to replay files")
	}
	var cases []Case
	for _, f := range strings.Split(files, ",") {
		b, err := os.ReadFile(f)
		if err != nil {
			t.Fatal(err)
		}
		var rf struct {
			Case Case `json:"case"`
		}
		if err := json.Unmarshal(b, &rf); err != nil {
			t.Fatal(err)
		}
		rf.Case.Req.Auth = ""
		rf.Case.Svc.Auth = ""
		cases = append(cases, rf.Case)
	}
	bin := os.Getenv("VERIF_BIN")
	if bin == "" {
		bin = "/verif/.bin"
	}
	repo := os.Getenv("VERIF_REPO")
	if repo == "" {
		repo = "/repo"
	}
	base := os.Getenv("VERIF_RUN_DIR")
	if base == "" {
		base = t.TempDir()
	}
	root := filepath.Join(base, fmt.Sprintf("c41-real-%d", os.Getpid()))
	type server struct {
		name string
		addr string
		cmd  *exec.Cmd
	}
	var servers []*server
	defer func() {
		for _, s := range servers {
			_ = s.cmd.Process.Kill()
			_, _ = s.cmd.Process.Wait()
		}
		_ = os.RemoveAll(root)
	}()
	for _, name := range []string{"inproc", "file", "pipe"} {
		dir := filepath.Join(root, name)
		if err := os.MkdirAll(filepath.Join(dir, "bin"), 0o755); err != nil {
			t.Fatal(err)
		}
		if err := os.Symlink(filepath.Join(bin, "ego"), filepath.Join(dir, "bin", "ego")); err != nil {
			t.Fatal(err)
		}
		// the library the binary would unpack, plus the generated services
		if out, err := exec.Command("/bin/cp", "-r", filepath.Join(repo, "lib"), filepath.Join(dir, "lib")).CombinedOutput(); err != nil {
			t.Fatalf("cp lib: %v %s", err, out)
		}
		for _, c := range cases {
			if c.Svc.Lib != "" {
				continue
			}
			d := filepath.Join(dir, "lib", "services", "c41", c.Svc.id())
			_ = os.MkdirAll(d, 0o755)
			if err := os.WriteFile(filepath.Join(d, "svc.ego"), []byte(c.Svc.source()), 0o644); err != nil {
				t.Fatal(err)
			}
		}
		ln, err := net.Listen("tcp", "127.0.0.1:0")
		if err != nil {
			t.Fatal(err)
		}
		port := ln.Addr().(*net.TCPAddr).Port
		ln.Close()
		args := []string{"server", "run", "--not-secure", "--port", fmt.Sprint(port)}
		env := []string{"HOME=" + dir, "EGO_PATH=" + dir, "PATH=/nonexistent", "LANG=C", "EGO_LANG=en"}
		switch name {
		case "file":
			reqs := filepath.Join(dir, "childreq")
			_ = os.MkdirAll(reqs, 0o700)
			args = append(args, "--child-services")
			// settings can be given as environment variables (app.loadEnvSettings)
			env = append(env, "EGO_SERVER_CHILD_SERVICES_DIR="+reqs)
		case "pipe":
			args = append(args, "--child-services")
		}
		cmd := exec.Command(filepath.Join(dir, "bin", "ego"), args...)
		cmd.Dir = dir
		cmd.Env = env
		logf, _ := os.Create(filepath.Join(dir, "server.log"))
		cmd.Stdout, cmd.Stderr = logf, logf
		if err := cmd.Start(); err != nil {
			t.Fatal(err)
		}
		s := &server{name: name, addr: fmt.Sprintf("127.0.0.1:%d", port), cmd: cmd}
		servers = append(servers, s)
	}
	for _, s := range servers {
		ok := false
		for i := 0; i < 600; i++ {
			c, err := net.Dial("tcp", s.addr)
			if err == nil {
				c.Close()
				ok = true
				break
			}
			time.Sleep(500 * time.Millisecond)
		}
		if !ok {
			b, _ := os.ReadFile(filepath.Join(root, s.name, "server.log"))
			t.Fatalf("server %s did not start: %s", s.name, b)
		}
	}
	e := &env{}
	for i, c := range cases {
		raw := e.wire(c)
		fmt.Printf("==== real case %d: %s %s body=%q\n", i, c.Req.Method, target(c), clip(string(c.Req.Body), 80))
		if c.Svc.Lib == "" {
			fmt.Printf("service:\n%s\n", c.Svc.source())
		}
		var as []answer
		for _, s := range servers {
			e.addr = s.addr
			a := e.send(c.Req.Method, raw)
			as = append(as, a)
			h := bytes.Buffer{}
			for k, v := range a.Header {
				if k != "Content-Security-Policy" && k != "Referrer-Policy" && k != "X-Content-Type-Options" && k != "Date" {
					fmt.Fprintf(&h, " %s=%q", k, v)
				}
			}
			fmt.Printf("-- %s: %d err=%q%s\n   %q\n", s.name, a.Status, a.Err, h.String(), clip(string(a.Body), 900))
		}
		for j, m := range []string{"file", "pipe"} {
			for _, d := range compare(as[0], as[j+1], bodyNote(c.Req.Body)) {
				fmt.Printf("   REAL-DIFF %s: %s\n", m, d.sig)
			}
		}
	}
}
