package c44

import (
	"fmt"
	"os"
	"sort"
	"testing"
	"time"
)

// TestDev runs the fixed cases and prints every distinct signature.
func TestDev(t *testing.T) {
	if os.Getenv("C44_DEV") == "" {
		t.Skip()
	}
	os.Setenv("VERIF_RUN_DIR", t.TempDir())
	var err error
	t0 := time.Now()
	if w, err = setup(os.Getenv("VERIF_RUN_DIR")); err != nil {
		t.Fatal(err)
	}
	fmt.Println("setup", time.Since(t0), "needles", len(w.reg.needles), "names", len(w.names))
	sigs := map[string]string{}
	devTimes = map[string]time.Duration{}
	devLeaks = sigs
	labels := map[string]int{}
	cs := fixedCases()
	t0 = time.Now()
	nt := 0
	for _, c := range cs {
		// all leaks of the case, not only the picked one
		out := oracle(c)
		if out.NonTrivial {
			nt++
		}
		for _, l := range out.Labels {
			labels[l]++
		}
	}
	fmt.Println("fixed cases", len(cs), "nontrivial", nt, "time", time.Since(t0))
	var ks []string
	for k := range sigs {
		ks = append(ks, k)
	}
	sort.Strings(ks)
	for _, k := range ks {
		o := sigs[k]
		if len(o) > 700 {
			o = o[:700]
		}
		fmt.Printf("SIG %s\n    %s\n", k, o)
	}
	ks = ks[:0]
	for k := range devTimes {
		ks = append(ks, k)
	}
	sort.Slice(ks, func(i, j int) bool { return devTimes[ks[i]] > devTimes[ks[j]] })
	for i, k := range ks {
		if i < 15 {
			fmt.Printf("TIME %v %s\n", devTimes[k], k)
		}
	}
	ks = ks[:0]
	for k := range labels {
		ks = append(ks, k)
	}
	sort.Strings(ks)
	for _, k := range ks {
		fmt.Printf("LABEL %4d %s\n", labels[k], k)
	}
}
