package c44

import (
	"encoding/json"
	"fmt"
	"os"
	"path/filepath"
	"regexp"
	"sort"
	"strings"
	"testing"
	"time"

	"github.com/tucats/ego/internal/defs"
)

// TestMakeReplays (C44_MKREPLAY=dir) writes one minimal replay file per
// signature that the minimal cases below produce, and a known.json skeleton.
func TestMakeReplays(t *testing.T) {
	dir := os.Getenv("C44_MKREPLAY")
	if dir == "" {
		t.Skip()
	}
	os.Setenv("VERIF_RUN_DIR", t.TempDir())
	var err error
	if w, err = setup(os.Getenv("VERIF_RUN_DIR")); err != nil {
		t.Fatal(err)
	}
	w.known = map[string]bool{}
	tables := Req{Route: "GET /dsns/{{dsn}}/tables/", Method: "GET", Path: "/dsns/" + dsnPG + "/tables/", Auth: "admin"}
	lj, lt := reqLog("tail=2000", "", false), reqLog("tail=2000", "text/plain", false)
	var cases []Case
	for _, n := range secretNames() {
		cases = append(cases, Case{Reqs: []Req{reqConfigNames(n)}})
	}
	cases = append(cases, Case{Reqs: []Req{reqConfigAll("")}})
	for _, n := range secretNames() {
		cases = append(cases, Case{Reqs: []Req{reqRun(progGet(n))}})
	}
	cases = append(cases, Case{Reqs: []Req{tables}})
	for _, lr := range []Req{lj, lt} {
		cases = append(cases,
			Case{Loggers: []string{"rest"}, Reqs: []Req{reqCreateUser("c44frp", "rp", false, []string{"ego.logon"}), lr}},
			Case{Loggers: []string{"rest"}, Reqs: []Req{reqCreateDSN("c44grp"+lr.Header["Accept"][:min(1, len(lr.Header["Accept"]))], "rp", "postgres", false, false), lr}},
			Case{Loggers: []string{"rest"}, Reqs: []Req{reqConfigPatch(defs.OAuthClientSecretSetting, "rp", false), lr}},
			Case{Loggers: []string{"app"}, Reqs: []Req{reqConfigPatch(defs.OAuthClientSecretSetting, "rp2", false), lr}},
			Case{Loggers: []string{"rest"}, Reqs: []Req{reqConfigNames(defs.LogonRefreshTokenSetting), lr}},
			Case{Loggers: []string{"rest"}, Reqs: []Req{tables, lr}},
			Case{Loggers: []string{"db"}, Reqs: []Req{tables, lr}},
		)
	}
	written := map[string]string{}
	type kf struct {
		Property string `json:"property"`
		Sig      string `json:"sig"`
		What     string `json:"what"`
		Replay   string `json:"replay"`
	}
	var known []kf
	slug := regexp.MustCompile(`[^a-z0-9]+`)
	for _, c := range cases {
		devTimes = map[string]time.Duration{}
		devLeaks = map[string]string{}
		oracle(c)
		var sigs []string
		for s := range devLeaks {
			sigs = append(sigs, s)
		}
		sort.Strings(sigs)
		for _, s := range sigs {
			if _, ok := written[s]; ok {
				continue
			}
			name := "C44-" + strings.Trim(slug.ReplaceAllString(strings.ToLower(strings.NewReplacer("{{dsn}}", "dsn", "setting:", "", "GET /services/admin/log leaks", "log", "(raw)", "", "logged by", "by", "leaks", "").Replace(s)), "-"), "-") + ".json"
			raw, _ := json.Marshal(c)
			b, _ := json.MarshalIndent(map[string]any{"property": "C44", "sig": s, "observed": devLeaks[s], "expected": "no response contains a stored secret in any spelling (statement of C44)", "case": json.RawMessage(raw)}, "", " ")
			if err := os.WriteFile(filepath.Join(dir, name), b, 0o644); err != nil {
				t.Fatal(err)
			}
			written[s] = name
			known = append(known, kf{"C44", s, s, "replays/" + name})
		}
	}
	sort.Slice(known, func(i, j int) bool { return known[i].Sig < known[j].Sig })
	b, _ := json.MarshalIndent(map[string]any{"findings": known}, "", " ")
	_ = os.WriteFile(filepath.Join(dir, "known.json"), b, 0o644)
	fmt.Println("wrote", len(known), "replays")
}
