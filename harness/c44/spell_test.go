package c44

import (
	"encoding/json"
	"fmt"
	"net/url"
	"strings"

	"pgregory.net/rapid"
)

// Name spellings. Wherever a request NAMES an object whose value is or holds
// a secret (a setting, a user, a DSN), the check also asks for it under the
// spellings a server-side normaliser might fold back to the real name: the
// secrecy test and the look-up need not normalise the same way, and a spelling
// that the look-up resolves while the secrecy test does not recognise returns
// the secret in clear.
//
// where: "any" (JSON body and URL path), "body" (only meaningful inside a JSON
// text), "path" (only meaningful inside a URL).
type spellClass struct {
	class, family, where string
	f                    func(string) string
}

func pre(p string) func(string) string { return func(s string) string { return p + s } }
func suf(p string) func(string) string { return func(s string) string { return s + p } }

func mixedCase(s string) string {
	b := []rune(s)
	for i, r := range b {
		if i%2 == 0 {
			b[i] = []rune(strings.ToUpper(string(r)))[0]
		}
	}
	return string(b)
}

func fullwidth(s string) string {
	var b strings.Builder
	for _, r := range s {
		if r > ' ' && r <= '~' {
			b.WriteRune(r - '!' + 0xFF01)
		} else {
			b.WriteRune(r)
		}
	}
	return b.String()
}

// cyrillic replaces the Latin letters that have a Cyrillic look-alike.
func cyrillic(s string) string {
	return strings.NewReplacer("e", "\u0435", "o", "\u043e", "a", "\u0430", "c", "\u0441", "p", "\u0440").Replace(s)
}

// foldable uses the two non-ASCII runes that Unicode case folding (and
// strings.ToLower / ToUpper / EqualFold) maps onto ASCII letters: the Kelvin
// sign for k and the long s for s.
func foldable(s string) string {
	return strings.NewReplacer("k", "\u212a", "s", "\u017f").Replace(s)
}

func percentFirst(s string) string {
	if s == "" {
		return s
	}
	return fmt.Sprintf("%%%02x", s[0]) + s[1:]
}

var spellings = []spellClass{
	{"canonical", "canonical", "any", func(s string) string { return s }},
	{"upper-case", "case", "any", strings.ToUpper},
	{"mixed-case", "case", "any", mixedCase},
	{"lead-space", "white-space", "any", pre(" ")},
	{"trail-space", "white-space", "any", suf(" ")},
	{"both-space", "white-space", "any", func(s string) string { return "  " + s + "  " }},
	{"lead-tab", "white-space", "any", pre("\t")},
	{"trail-tab", "white-space", "any", suf("\t")},
	{"lead-newline", "white-space", "any", pre("\n")},
	{"trail-newline", "white-space", "any", suf("\n")},
	{"trail-cr", "white-space", "any", suf("\r")},
	{"trail-crlf", "white-space", "any", suf("\r\n")},
	{"lead-nbsp", "white-space", "any", pre("\u00a0")},
	{"trail-nbsp", "white-space", "any", suf("\u00a0")},
	{"lead-zwsp", "white-space", "any", pre("\u200b")},
	{"trail-zwsp", "white-space", "any", suf("\u200b")},
	{"lead-bom", "white-space", "any", pre("\ufeff")},
	{"trail-ideographic-space", "white-space", "any", suf("\u3000")},
	{"trail-dot", "suffix", "any", suf(".")},
	{"trail-nul", "suffix", "any", suf("\x00")},
	{"lead-nul", "suffix", "any", pre("\x00")},
	{"percent-literal", "escape", "any", percentFirst}, // the characters %65go… reach the handler
	{"json-escaped", "escape", "body", nil},            // \\u0065go… in the JSON text
	{"percent-encoded", "escape", "path", nil},         // %65go… in the URL
	{"fullwidth", "unicode", "any", fullwidth},
	{"cyrillic-look-alike", "unicode", "any", cyrillic},
	{"kelvin-long-s", "unicode", "any", foldable},
	{"dup-same", "duplicate", "body", nil},           // the name twice
	{"dup-variant-after", "duplicate", "body", nil},  // canonical, then padded
	{"dup-variant-before", "duplicate", "body", nil}, // padded, then canonical
	{"double-slash", "path", "path", nil},
	{"dot-segment", "path", "path", nil},
	{"encoded-dot-segment", "path", "path", nil},
	{"trailing-slash", "path", "path", nil},
	{"matrix-parameter", "path", "path", nil},
}

var spellFamily = func() map[string]string {
	m := map[string]string{}
	for _, s := range spellings {
		m[s.class] = s.family
	}
	return m
}()

// effective returns the class that really applies to the name: a spelling
// that leaves this particular name unchanged (no k or s to fold, say) is the
// canonical one.
func effective(s spellClass, name string) spellClass {
	if s.f != nil && s.class != "canonical" && s.f(name) == name {
		return spellings[0]
	}
	return s
}

func spellingsFor(where string) []spellClass {
	var out []spellClass
	for _, s := range spellings {
		if s.where == "any" || s.where == where {
			out = append(out, s)
		}
	}
	return out
}

// bodyLiterals returns the JSON string literals (quotes included) that spell
// the name inside a JSON text.
func bodyLiterals(s spellClass, name string) []string {
	switch s.class {
	case "json-escaped":
		rest, _ := json.Marshal(name[1:])
		return []string{fmt.Sprintf(`"\u%04x%s`, name[0], string(rest)[1:])}
	case "dup-same":
		return []string{js(name), js(name)}
	case "dup-variant-after":
		return []string{js(name), js(" " + name)}
	case "dup-variant-before":
		return []string{js(name + "\t"), js(name)}
	}
	return []string{js(s.f(name))}
}

// pathSegment returns the (already escaped) text that stands for the name in
// a URL path.
func pathSegment(s spellClass, name string) string {
	switch s.class {
	case "percent-encoded":
		return percentFirst(name)
	case "double-slash":
		return "/" + name
	case "dot-segment":
		return "./" + name
	case "encoded-dot-segment":
		return "%2e/" + name
	case "trailing-slash":
		return name + "/"
	case "matrix-parameter":
		return name + ";x=1"
	}
	return url.PathEscape(s.f(name))
}

// ---- spelled requests ----

func reqConfigSpelled(s spellClass, names ...string) Req {
	var lits []string
	for _, n := range names {
		lits = append(lits, bodyLiterals(s, n)...)
	}
	return Req{Route: "POST /admin/config", Method: "POST", Path: "/admin/config", Auth: "admin", Header: hdr("Content-Type", jsonCT),
		Body: "[" + strings.Join(lits, ",") + "]", Spelling: s.class}
}

func reqUserSpelled(method string, s spellClass, name, body string) Req {
	s = effective(s, name)
	rq := Req{Route: method + " /admin/users/{{name}}", Method: method, Path: "/admin/users/" + pathSegment(s, name), Auth: "admin", Spelling: s.class}
	if body != "" {
		rq.Header = hdr("Content-Type", jsonCT)
		rq.Body = body
	}
	return rq
}

func reqDSNSpelled(s spellClass, name, tail string) Req {
	s = effective(s, name)
	route := "GET /dsns/{{dsn}}/" + tail
	return Req{Route: route, Method: "GET", Path: "/dsns/" + pathSegment(s, name) + "/" + tail, Auth: "admin", Spelling: s.class}
}

// reqProfileSpelled reads the named settings through the profile package in
// administrator-submitted code, each under the given spelling.
func reqProfileSpelled(s spellClass, names ...string) Req {
	var b strings.Builder
	b.WriteString("import \"profile\"\n")
	for _, n := range names {
		for _, lit := range bodyLiterals(s, n) {
			b.WriteString("fmt.Println(profile.Get(" + lit + "))\n")
		}
	}
	rq := reqRun(b.String())
	rq.Spelling = s.class
	return rq
}

// spellingCases: every secret setting name, every user, every DSN under every
// spelling class; one case per name, one request per spelling.
func spellingCases() []Case {
	var cs []Case
	for _, n := range secretNames() {
		var reqs []Req
		for _, s := range spellingsFor("body") {
			reqs = append(reqs, reqConfigSpelled(s, n))
		}
		cs = append(cs, Case{Reqs: reqs})
	}
	for _, u := range []string{adminUser, userPlain, userSpec} {
		var reqs []Req
		for _, s := range spellingsFor("path") {
			reqs = append(reqs, reqUserSpelled("GET", s, u, ""))
		}
		cs = append(cs, Case{Reqs: reqs})
	}
	for _, d := range []string{dsnPG, dsnPG2, dsnLite} {
		var reqs []Req
		for _, s := range spellingsFor("path") {
			reqs = append(reqs, reqDSNSpelled(s, d, ""))
			if d == dsnPG {
				reqs = append(reqs, reqDSNSpelled(s, d, "tables/"))
			}
		}
		cs = append(cs, Case{Reqs: reqs})
	}
	var reqs []Req
	for _, s := range spellingsFor("body") {
		if s.family == "duplicate" {
			continue
		}
		reqs = append(reqs, reqProfileSpelled(s, secretNames()...))
	}
	cs = append(cs, Case{Reqs: reqs})
	return cs
}

// genSpelled draws one spelled request.
func genSpelled(t *rapid.T, fresh string) Req {
	switch rapid.IntRange(0, 9).Draw(t, "spelled") {
	case 0, 1, 2, 3:
		cl := spellingsFor("body")
		s := cl[rapid.IntRange(0, len(cl)-1).Draw(t, "bclass")]
		n := rapid.IntRange(1, 3).Draw(t, "nspelled")
		var names []string
		for i := 0; i < n; i++ {
			if rapid.IntRange(0, 3).Draw(t, "anyname") == 0 {
				names = append(names, rapid.SampledFrom(w.names).Draw(t, "sname"))
			} else {
				names = append(names, rapid.SampledFrom(secretNames()).Draw(t, "ssecret"))
			}
		}
		return reqConfigSpelled(s, names...)
	case 4, 5:
		cl := spellingsFor("path")
		s := cl[rapid.IntRange(0, len(cl)-1).Draw(t, "pclass")]
		u := rapid.SampledFrom([]string{adminUser, userPlain, userSpec, "c44f" + fresh}).Draw(t, "suser")
		if rapid.IntRange(0, 3).Draw(t, "spatch") == 0 {
			// a PATCH without a password, under the spelled name: the response echoes the user
			return reqUserSpelled("PATCH", s, u, js(map[string]any{"name": u, "permissions": []string{"ego.logon", "ego.table.read"}}))
		}
		return reqUserSpelled("GET", s, u, "")
	case 6, 7:
		cl := spellingsFor("path")
		s := cl[rapid.IntRange(0, len(cl)-1).Draw(t, "dclass")]
		d := rapid.SampledFrom([]string{dsnPG, dsnPG2, dsnLite, "c44g" + fresh}).Draw(t, "sdsn")
		return reqDSNSpelled(s, d, rapid.SampledFrom([]string{"", "", "tables/", "@permissions", "@metadata"}).Draw(t, "dtail"))
	default:
		var cl []spellClass
		for _, s := range spellingsFor("body") {
			if s.family != "duplicate" {
				cl = append(cl, s)
			}
		}
		s := cl[rapid.IntRange(0, len(cl)-1).Draw(t, "rclass")]
		return reqProfileSpelled(s, rapid.SampledFrom(secretNames()).Draw(t, "rsecret"))
	}
}

// resolution says what the server made of a spelled name: for the
// configuration endpoint and the code runner (which answer 200 whatever the
// name) whether a value came back, otherwise the status class.
func resolution(rq Req, status int, body []byte) string {
	if status/100 != 2 {
		return "not 2xx (" + statusClass(status) + ")"
	}
	switch rq.Route {
	case "POST /admin/config":
		var r struct {
			Items map[string]struct {
				Value string `json:"value"`
			} `json:"items"`
		}
		if json.Unmarshal(body, &r) != nil {
			return "2xx"
		}
		masked, value := false, false
		for _, it := range r.Items {
			switch it.Value {
			case "":
			case "********":
				masked = true
			default:
				value = true
			}
		}
		switch {
		case value:
			return "2xx, a value returned"
		case masked:
			return "2xx, masked"
		}
		return "2xx, empty (name not resolved)"
	case "POST /admin/run":
		var r struct {
			Output string `json:"output"`
			Error  string `json:"error"`
		}
		if json.Unmarshal(body, &r) != nil {
			return "2xx"
		}
		switch {
		case strings.TrimSpace(r.Output) != "":
			return "2xx, output (name resolved)"
		case r.Error != "":
			return "2xx, error"
		}
		return "2xx, no output"
	}
	return "2xx (name resolved)"
}
