// Package c44 decides property C44 "Stored secrets never appear in responses".
//
// Statement: no response from any endpoint, including administrator-only
// ones, contains a stored secret: user password hashes, DSN passwords, the
// server token key, logon or refresh tokens held in the configuration, OAuth
// client secrets, or signing keys.
//
// Method. Distinct canary secrets are planted in every store and setting that
// holds a secret (world_test.go), through the same paths an administrator
// uses (settings before start-up, POST /admin/users, POST /dsns, the OAuth
// client and key files). For the stores that keep a transformed value the
// stored form is read back from the store and is a canary too (bcrypt hash of
// a user password, ciphertext of a DSN password). Then requests are sent as
// the administrator through the real router; every response (headers and
// body, decompressed if the server compressed it) is searched for every
// canary: as it is, after undoing JSON / percent / HTML escaping (up to four
// JSON levels, because a log line is JSON in JSON), as hex and as base64 in
// any alignment and either alphabet.
//
// Preconditions taken from real callers / the real server:
//   - The server runs with a log file, as `ego server start` always arranges
//     (--log-file). commands.VerifServerRouter leaves that part of RunServer
//     out, so the harness opens the log file itself (ui.OpenLogFile) and
//     selects the JSON log format as RunServer does. The log is re-opened
//     (truncated) at the start of every case, so that a case's verdict depends
//     only on its own requests; that is what the daily roll-over does.
//   - Which loggers are on is a configuration the administrator chooses with
//     POST /admin/loggers; every case states its logger set and applies it
//     through that endpoint first.
//   - A request that supplies a secret (create user, set DSN password, PATCH
//     /admin/config) and is answered 2xx stores it; the response to that very
//     request may not carry it either. A refused request stores nothing. A bearer token that a logon / token endpoint has just
//     issued to the caller is not a stored secret and is not a canary.
//   - The single-setting form of the configuration endpoint is POST
//     /admin/config with a JSON array of names (what `ego config` and the
//     dashboard send); every name is asked for on its own and in the
//     all-settings form GET /admin/config.
//   - POST /admin/run executes caller-supplied Ego code. Only programs that
//     read settings through the documented profile package are sent (the
//     package states that settings holding "keys or other secure information"
//     cannot be read through it); programs that read files are outside this
//     property (C26).
//   - Only POST /services/admin/down and POST /services/cluster/shutdown are
//     stubbed (they end the process).
package c44

import (
	"bytes"
	"compress/gzip"
	"encoding/json"
	"fmt"
	"io"
	"os"
	"regexp"
	"sort"
	"strings"
	"testing"
	"time"

	"github.com/tucats/ego/internal/cli/ui"
	"github.com/tucats/ego/verif/srvfix"
	"github.com/tucats/ego/verif/vkit"
	"pgregory.net/rapid"
)

// Secret is a secret that a request supplies and the server stores.
type Secret struct {
	Class string `json:"class"`
	Value string `json:"value"`
}

// Req is one request of a case, fully materialised except for credentials
// (the bearer token differs per process).
type Req struct {
	// Route is "METHOD endpoint-pattern" of the route table entry the request
	// aims at; it names the endpoint in labels and signatures.
	Route  string            `json:"route"`
	Method string            `json:"method"`
	Path   string            `json:"path"`
	Auth   string            `json:"auth"` // admin | none | basic:<user> | client:<client id>
	Header map[string]string `json:"header,omitempty"`
	Body   string            `json:"body,omitempty"`
	// Supplies lists the secrets the request asks the server to store.
	Supplies []Secret `json:"supplies,omitempty"`
	// ReadUser / ReadDSN: after the request the stored form of this user's /
	// DSN's password is read back from the store and becomes a canary.
	ReadUser string `json:"read_user,omitempty"`
	ReadDSN  string `json:"read_dsn,omitempty"`
	// Spelling is the name-spelling class (spell_test.go) under which the
	// request names its setting / user / DSN; empty when the name is written
	// the canonical way by a builder that has no spelling dimension.
	Spelling string `json:"spelling,omitempty"`
}

// Case is a logger configuration and a list of requests.
type Case struct {
	Loggers []string `json:"loggers"`
	Reqs    []Req    `json:"reqs"`
}

// spellTable counts (endpoint | spelling class | what the server made of it).
var spellTable = map[string]int{}

type leak struct {
	sig, observed string
}

func (wd *world) header(rq Req) map[string]string {
	h := map[string]string{}
	for k, v := range rq.Header {
		h[k] = v
	}
	switch {
	case rq.Auth == "admin":
		h["Authorization"] = "Bearer " + wd.tok
	case strings.HasPrefix(rq.Auth, "basic:"):
		u := strings.TrimPrefix(rq.Auth, "basic:")
		h["Authorization"] = srvfix.Basic(u, wd.userPw[u])
	case strings.HasPrefix(rq.Auth, "client:"):
		id := strings.TrimPrefix(rq.Auth, "client:")
		h["Authorization"] = srvfix.Basic(id, canary("oauth-client-secret", id, id == clientConf))
	}
	return h
}

// logEntry is one entry of a log response with the name of what wrote it:
// the message id for a JSON-format entry, "text:<LOGGER>" for a text-format
// entry.
type logEntry struct{ id, text string }

var inConnURL = regexp.MustCompile(`[a-z0-9]+://[^\s:/@]+:$`)

var textEntryStart = regexp.MustCompile(`^\[\d{4}-\d\d-\d\d \d\d:\d\d:\d\d\]\s+\d+\s+(\w+)\s*:`)

// logEntries splits the body of a GET /services/admin/log response into
// entries, so that a leak through the log endpoint is attributed to the
// statement that logged it.
func logEntries(body []byte) []logEntry {
	if len(body) > 2 && body[0] == 0x1f && body[1] == 0x8b {
		if zr, err := gzip.NewReader(bytes.NewReader(body)); err == nil {
			if plain, err := io.ReadAll(io.LimitReader(zr, 64<<20)); err == nil {
				body = plain
			}
		}
	}
	var payload struct {
		Lines []string `json:"lines"`
	}
	if json.Unmarshal(body, &payload) == nil && payload.Lines != nil {
		out := make([]logEntry, 0, len(payload.Lines))
		for _, l := range payload.Lines {
			var e struct {
				Msg string `json:"msg"`
			}
			id := "?"
			if json.Unmarshal([]byte(l), &e) == nil && e.Msg != "" {
				id = e.Msg
			}
			out = append(out, logEntry{id, l})
		}
		return out
	}
	var out []logEntry
	for _, l := range strings.Split(string(body), "\n") {
		if m := textEntryStart.FindStringSubmatch(l); m != nil {
			out = append(out, logEntry{"text:" + m[1], l})
		} else if len(out) > 0 {
			out[len(out)-1].text += "\n" + l
		} else {
			out = append(out, logEntry{"?", l})
		}
	}
	return out
}

// dev instrumentation (TestDev only)
var (
	devTimes map[string]time.Duration
	devLeaks map[string]string
)

func (wd *world) exec(rq Req) (status int, nonEmpty bool, leaks []leak, resolved string) {
	if devTimes != nil {
		t0 := time.Now()
		defer func() {
			devTimes[rq.Route] += time.Since(t0)
			for _, l := range leaks {
				if _, ok := devLeaks[l.sig]; !ok {
					devLeaks[l.sig] = l.observed
				}
			}
		}()
	}
	resp := wd.f.Do(srvfix.Request{Method: rq.Method, Path: rq.Path, Header: wd.header(rq), Body: rq.Body})
	if resp.Status/100 == 2 {
		// The server accepted the request, so what it supplied is stored now
		// (registered before the scan: the response to the storing request may
		// not carry the secret either). A refused request stores nothing, and a
		// value that was never stored is not a stored secret.
		for _, s := range rq.Supplies {
			wd.reg.add(s.Class, s.Value)
		}
	}
	if rq.ReadUser != "" {
		_ = wd.readUser(rq.ReadUser)
	}
	if rq.ReadDSN != "" {
		_ = wd.readDSN(rq.ReadDSN)
	}
	text := responseText(resp.Header, resp.Body)
	if resp.Panic != nil {
		// A panic is not this property's business (C40); what was written
		// before it is still a response.
		text += fmt.Sprintf("\npanic: %v", resp.Panic)
	}
	if rq.Spelling != "" {
		resolved = resolution(rq, resp.Status, resp.Body)
	}
	hits := wd.reg.scan(text)
	if len(hits) == 0 {
		return resp.Status, len(resp.Body) > 0, nil, resolved
	}
	// A leak under a non-canonical spelling of the name has a cause of its own
	// (the secrecy test and the look-up normalise the name differently); the
	// signature names the family of the spelling.
	spelled := ""
	if fam := spellFamily[rq.Spelling]; fam != "" && fam != "canonical" {
		spelled = " [name spelled with: " + fam + "]"
	}
	seen := map[string]bool{}
	add := func(sig string, h hit) {
		sig += spelled
		if !seen[sig] {
			seen[sig] = true
			leaks = append(leaks, leak{sig: sig, observed: fmt.Sprintf("%s %s -> %d; the response contains a %s (%s, found %s): …%s…", rq.Method, rq.Path, resp.Status, h.class, h.form, h.pass, h.context)})
		}
	}
	if rq.Route == "GET /services/admin/log" && resp.Status == 200 {
		attributed := map[string]bool{}
		for _, e := range logEntries(resp.Body) {
			for _, h := range wd.reg.scan(e.text) {
				attributed[h.class] = true
				if h.class == "dsn-password" && inConnURL.MatchString(h.before) {
					// whichever logger wrote it (REST, DB, TABLES, ...): the
					// connection string of the DSN, password included
					add(fmt.Sprintf("%s leaks %s (%s) inside a connection URL", rq.Route, h.class, h.form), h)
					continue
				}
				add(fmt.Sprintf("%s leaks %s (%s) logged by %s", rq.Route, h.class, h.form, e.id), h)
			}
		}
		for _, h := range hits {
			if !attributed[h.class] {
				add(fmt.Sprintf("%s leaks %s (%s) logged by ?", rq.Route, h.class, h.form), h)
			}
		}
	} else {
		for _, h := range hits {
			if h.class == "dsn-password" && strings.HasPrefix(rq.Route[strings.Index(rq.Route, " ")+1:], "/dsns/{{dsn}}/") && inConnURL.MatchString(h.before) {
				// one root cause whatever the table route: the connection
				// string of the DSN, password included, is part of an error text
				add(fmt.Sprintf("/dsns/{{dsn}}/* leaks %s (%s) inside a connection URL", h.class, h.form), h)
				continue
			}
			add(fmt.Sprintf("%s leaks %s (%s)", rq.Route, h.class, h.form), h)
		}
	}
	return resp.Status, len(resp.Body) > 0, leaks, resolved
}

func statusClass(s int) string {
	if s < 0 {
		return "unsendable"
	}
	return fmt.Sprintf("%dxx", s/100)
}

func oracle(c Case) vkit.Outcome {
	var out vkit.Outcome
	// fresh log for the case (see the preconditions at the top)
	if err := ui.OpenLogFile(w.logFile, false); err != nil {
		out.Inconclusive = "cannot reopen log"
		return out
	}
	on := map[string]bool{}
	for _, l := range c.Loggers {
		on[l] = true
	}
	lg := map[string]bool{}
	for _, l := range toggles {
		lg[l] = on[l]
	}
	lb, _ := json.Marshal(map[string]any{"loggers": lg})
	reqs := append([]Req{{Route: "POST /admin/loggers/", Method: "POST", Path: "/admin/loggers/", Auth: "admin",
		Header: map[string]string{"Content-Type": "application/json"}, Body: string(lb)}}, c.Reqs...)

	var all []leak
	labels := map[string]bool{}
	for i, rq := range reqs {
		st, nonEmpty, leaks, resolved := w.exec(rq)
		if i == 0 {
			if st != 200 {
				out.Inconclusive = fmt.Sprintf("logger set-up answered %d", st)
			}
		} else {
			labels[rq.Route+" "+statusClass(st)] = true
			if rq.Spelling != "" {
				// the full (endpoint, spelling class, resolution) table goes to
				// the evidence as coverage.spelling_table (the driver keeps only
				// the 200 most frequent labels); the label is per family
				spellTable[rq.Route+" | "+rq.Spelling+" | "+resolved]++
				labels["spelling "+spellFamily[rq.Spelling]+" | "+rq.Route+" | "+resolved] = true
			}
			if st/100 == 2 && nonEmpty {
				out.NonTrivial = true
			}
		}
		all = append(all, leaks...)
	}
	if len(c.Loggers) == 0 {
		labels["loggers: default"] = true
	}
	for _, l := range c.Loggers {
		labels["logger on: "+l] = true
	}
	for l := range labels {
		out.Labels = append(out.Labels, l)
	}
	sort.Strings(out.Labels)
	if len(all) > 0 {
		// Report the first leak that is not a recorded finding, so that the
		// search goes on behind recorded ones; otherwise the first.
		pick := all[0]
		for _, l := range all {
			if !w.known[l.sig] {
				pick = l
				break
			}
		}
		others := []string{}
		for _, l := range all {
			if l.sig != pick.sig {
				others = append(others, l.sig)
			}
		}
		obs := pick.observed
		if len(others) > 0 {
			obs += " [also in this case: " + strings.Join(others, "; ") + "]"
		}
		out.Fail = &vkit.Failure{Sig: pick.sig, Observed: obs, Expected: "no response contains a stored secret in any spelling (statement of C44)"}
	}
	return out
}

func TestC44(t *testing.T) {
	if os.Getenv("VERIF_RUN_DIR") == "" {
		os.Setenv("VERIF_RUN_DIR", t.TempDir())
	}
	var err error
	if w, err = setup(os.Getenv("VERIF_RUN_DIR")); err != nil {
		t.Fatalf("set-up: %v", err)
	}
	vkit.Run(t, vkit.Spec[Case]{
		ID:    "C44",
		Level: "exploration",
		Rule: "canaries planted in every secret-holding store and setting (user passwords and their stored hashes, DSN passwords and their stored ciphertext, token key, logon/refresh token, OAuth client secret setting, userdata key, default credential, AS client secrets / secret hash, AS signing key); " +
			"fixed part: every setting name alone through POST /admin/config, the all-settings form, every GET route with every existing name, every echoing POST/PATCH/DELETE, every logger with the secret-carrying operations followed by the log endpoint, profile reads through POST /admin/run, the OAuth AS endpoints; " +
			"name spellings (fixed and generated): every secret setting name through POST /admin/config and profile.Get, every user in /admin/users/{name}, every DSN in /dsns/{dsn}/ under each spelling class (case, white-space padding incl. NBSP/ZWSP/BOM, trailing dot/NUL, JSON-/percent-escaped, fullwidth/Cyrillic/Kelvin-long-s, duplicates in one request, URL path forms); " +
			"generated part: 1-6 requests over the live route table with generated path names, query parameters (declared ones by type, plus undeclared flags), Accept variants, near-valid payloads, a generated logger set, then the log endpoint. " +
			"Non-trivial: at least one request of the case answered 2xx with a non-empty body; distinct by the case (logger set + request list).",
		Assumptions: []string{
			"the server runs with a log file (ego server start always passes --log-file); the log is rolled over between cases",
			"a bearer token just issued to the caller by a logon/token endpoint is not a stored secret",
			"POST /admin/run is exercised only with programs that read settings through the profile package",
			"handlers of POST /services/admin/down and POST /services/cluster/shutdown are stubbed",
		},
		Gen:       genCase,
		Oracle:    oracle,
		Fixed:     fixedCases,
		Quick:     100,
		Thorough:  1000,
		MaxRounds: 6,
		Extra: func() map[string]any {
			classes := map[string]int{}
			for _, n := range w.reg.needles {
				if n.form == "raw" {
					classes[n.class]++
				}
			}
			var table []string
			for k := range spellTable {
				table = append(table, k)
			}
			sort.Strings(table)
			return map[string]any{"spelling_table": table, "canaries_by_class": classes, "needles": len(w.reg.needles), "routes": len(w.routes), "setting_names": len(w.names)}
		},
	})
}

var _ = rapid.Just[int]

func reqOf(rq Req) srvfix.Request {
	return srvfix.Request{Method: rq.Method, Path: rq.Path, Header: w.header(rq), Body: rq.Body}
}
