package c44

import (
	"encoding/json"
	"fmt"
	"net/url"
	"sort"
	"strings"

	"github.com/tucats/ego/internal/defs"
	"github.com/tucats/ego/internal/router"
	"pgregory.net/rapid"
)

const (
	jsonCT = "application/json"
	formCT = "application/x-www-form-urlencoded"
)

func hdr(kv ...string) map[string]string {
	h := map[string]string{}
	for i := 0; i+1 < len(kv); i += 2 {
		if kv[i+1] != "" {
			h[kv[i]] = kv[i+1]
		}
	}
	return h
}

func js(v any) string {
	b, _ := json.Marshal(v)
	return string(b)
}

func routeName(r router.VerifRouteInfo) string { return r.Method + " " + r.Endpoint }

func stubbed(r router.VerifRouteInfo) bool {
	return r.Method == "POST" && (strings.HasPrefix(r.Endpoint, defs.ServicesDownPath) || r.Endpoint == defs.ServicesClusterShutdownPath)
}

// ---- request builders shared by the fixed and the generated part ----

func reqConfigNames(names ...string) Req {
	return Req{Route: "POST /admin/config", Method: "POST", Path: "/admin/config", Auth: "admin", Header: hdr("Content-Type", jsonCT), Body: js(names)}
}

func reqConfigAll(accept string) Req {
	return Req{Route: "GET /admin/config", Method: "GET", Path: "/admin/config", Auth: "admin", Header: hdr("Accept", accept)}
}

func reqConfigPatch(name, id string, special bool) Req {
	c := canary("setting", name+"|"+id, special)
	v := c
	if name == defs.DefaultCredentialSetting {
		v = adminUser + ":" + c
	}
	return Req{Route: "PATCH /admin/config", Method: "PATCH", Path: "/admin/config", Auth: "admin", Header: hdr("Content-Type", jsonCT),
		Body: js(map[string]string{name: v}), Supplies: []Secret{{"setting:" + name, c}}}
}

func reqCreateUser(name, id string, special bool, perms []string) Req {
	pw := canary("user-password", name+"|"+id, special)
	return Req{Route: "POST /admin/users/", Method: "POST", Path: "/admin/users/", Auth: "admin", Header: hdr("Content-Type", jsonCT),
		Body: js(map[string]any{"name": name, "password": pw, "permissions": perms}), Supplies: []Secret{{"user-password", pw}}, ReadUser: name}
}

func reqPatchUser(name, id string, withPassword, special bool, perms []string) Req {
	body := map[string]any{"name": name}
	if perms != nil {
		body["permissions"] = perms
	}
	rq := Req{Route: "PATCH /admin/users/{{name}}", Method: "PATCH", Path: "/admin/users/" + name, Auth: "admin", Header: hdr("Content-Type", jsonCT), ReadUser: name}
	if withPassword {
		pw := canary("user-password", name+"|patch|"+id, special)
		body["password"] = pw
		rq.Supplies = []Secret{{"user-password", pw}}
	}
	rq.Body = js(body)
	return rq
}

func reqUser(method, name string) Req {
	return Req{Route: method + " /admin/users/{{name}}", Method: method, Path: "/admin/users/" + name, Auth: "admin"}
}

func reqCreateDSN(name, id, provider string, special, restricted bool) Req {
	pw := canary("dsn-password", name+"|"+id, special)
	body := map[string]any{"name": name, "provider": provider, "user": "u" + name, "password": pw, "restricted": restricted}
	if provider == "sqlite" {
		body["database"] = w.f.Dir + "/" + name + ".db"
	} else {
		body["database"] = "db" + name
		body["host"] = "localhost"
		body["port"] = 5432
	}
	return Req{Route: "POST /dsns/", Method: "POST", Path: "/dsns/", Auth: "admin", Header: hdr("Content-Type", jsonCT), Body: js(body),
		Supplies: []Secret{{"dsn-password", pw}}, ReadDSN: name}
}

func reqPatchDSN(name, id string, special bool, flags map[string]any) Req {
	pw := canary("dsn-password", name+"|patch|"+id, special)
	body := map[string]any{"password": pw}
	for k, v := range flags {
		body[k] = v
	}
	return Req{Route: "PATCH /dsns/{{dsn}}/", Method: "PATCH", Path: "/dsns/" + name + "/", Auth: "admin", Header: hdr("Content-Type", jsonCT), Body: js(body),
		Supplies: []Secret{{"dsn-password", pw}}, ReadDSN: name}
}

func reqDSN(method, name string) Req {
	return Req{Route: method + " /dsns/{{dsn}}/", Method: method, Path: "/dsns/" + name + "/", Auth: "admin"}
}

func reqRun(code string) Req {
	return Req{Route: "POST /admin/run", Method: "POST", Path: "/admin/run", Auth: "admin", Header: hdr("Content-Type", jsonCT), Body: js(map[string]any{"code": code})}
}

func progGet(name string) string {
	return "import \"profile\"\nfmt.Println(profile.Get(" + js(name) + "))\n"
}

const progConfig = "import \"profile\"\nfmt.Println(profile.Config())\n"
const progKeys = "import \"profile\"\nfor _, k := range profile.Keys() {\n  fmt.Println(k, profile.Get(k))\n}\n"

func reqLog(query, accept string, gz bool) Req {
	p := "/services/admin/log"
	if query != "" {
		p += "?" + query
	}
	h := hdr("Accept", accept)
	if gz {
		h["Accept-Encoding"] = "gzip"
	}
	return Req{Route: "GET /services/admin/log", Method: "GET", Path: p, Auth: "admin", Header: h}
}

func reqLogon(user string) Req {
	// a logon may rewrite the user record (last token time, hash upgrade): the
	// stored hash is read back afterwards
	return Req{Route: "POST /services/admin/logon", Method: "POST", Path: "/services/admin/logon", Auth: "basic:" + user, ReadUser: user}
}

func reqToken(client, grant, extra string, inBody bool) Req {
	body := "grant_type=" + url.QueryEscape(grant)
	if extra != "" {
		body += "&" + extra
	}
	rq := Req{Route: "POST /oauth2/token", Method: "POST", Path: "/oauth2/token", Auth: "client:" + client, Header: hdr("Content-Type", formCT)}
	if inBody {
		rq.Auth = "none"
		body += "&client_id=" + url.QueryEscape(client) + "&client_secret=" + url.QueryEscape(canary("oauth-client-secret", client, client == clientConf))
	}
	rq.Body = body
	return rq
}

// fills returns the concrete paths of an endpoint pattern for the names that
// exist in every process.
func fills(endpoint string) []string {
	out := []string{endpoint}
	sub := func(variable string, values []string) {
		if !strings.Contains(endpoint, variable) {
			return
		}
		var next []string
		for _, p := range out {
			for _, v := range values {
				next = append(next, strings.Replace(p, variable, v, 1))
			}
		}
		out = next
	}
	switch {
	case strings.HasPrefix(endpoint, "/services/sample/"):
		sub("{{name}}", []string{"tom"})
	case strings.HasPrefix(endpoint, "/services/cluster/"):
		sub("{{name}}", []string{"c44cluster"})
	default:
		sub("{{name}}", []string{adminUser, userPlain, userSpec})
	}
	sub("{{dsn}}", []string{dsnPG, dsnPG2, dsnLite})
	sub("{{table}}", []string{tableName})
	sub("{{id}}", []string{"6ba7b810-9dad-11d1-80b4-00c04fd430c8"})
	sub("{{item...}}", w.assets)
	sub("{{field}}", []string{"age"})
	sub("{{value}}", []string{"12"})
	sub("{{code}}", []string{"200"})
	return out
}

// fixedQuery gives the query string the enumerated GETs use for routes that
// do nothing useful without one.
func fixedQuery(endpoint string) string {
	switch {
	case endpoint == "/services/admin/log":
		return "tail=500"
	case endpoint == "/oauth2/authorize":
		return "response_type=code&client_id=" + clientConf + "&redirect_uri=" + url.QueryEscape("http://localhost/callback") + "&scope=openid&state=s1&code_challenge=E9Melhoa2OwvFrEMTJguCHaoeK1t8URWbuGJSstw-cM&code_challenge_method=S256"
	}
	return ""
}

// secretOps are the operations whose processing handles a secret: the ones
// most likely to write it somewhere (echo, log).
func secretOps(id string) []Req {
	u := "c44f" + id
	d := "c44g" + id
	return []Req{
		reqCreateUser(u, id, true, []string{"ego.logon"}),
		reqPatchUser(u, id, true, false, nil),
		reqUser("GET", u),
		reqUser("DELETE", u),
		reqCreateDSN(d, id, "postgres", true, false),
		reqPatchDSN(d, id, false, map[string]any{"restricted": true}),
		reqDSN("GET", d),
		{Route: "GET /dsns/{{dsn}}/tables/", Method: "GET", Path: "/dsns/" + d + "/tables/", Auth: "admin"},
		reqDSN("DELETE", d),
		reqCreateDSN(d+"s", id, "sqlite", false, false),
		reqDSN("DELETE", d+"s"),
		reqConfigPatch(defs.OAuthClientSecretSetting, id, true),
		reqConfigPatch(defs.DefaultCredentialSetting, id, false),
		reqConfigNames(secretNames()...),
		reqConfigAll(""),
		reqLogon(userPlain),
		reqToken(clientConf, "client_credentials", "scope=openid", false),
		reqToken(clientHash, "client_credentials", "scope=openid", true),
		reqToken(clientConf, "client_credentials", "scope=openid", true),
	}
}

func secretNames() []string {
	var out []string
	for _, s := range secretSettings {
		out = append(out, s.name)
	}
	return out
}

func fixedCases() []Case {
	var cs []Case
	one := func(loggers []string, reqs ...Req) { cs = append(cs, Case{Loggers: loggers, Reqs: reqs}) }

	// 1. every setting name on its own through the single-setting form, then
	// the all-settings form (plain and with the route's own media type)
	for _, n := range w.names {
		one(nil, reqConfigNames(n))
	}
	one(nil, reqConfigAll(""))
	one(nil, reqConfigAll(defs.ConfigMediaType))

	// 2. every GET / HEAD route of the live table with every existing name
	for _, r := range w.routes {
		if (r.Method != "GET" && r.Method != "HEAD") || r.Redirect != "" {
			continue
		}
		for _, p := range fills(r.Endpoint) {
			if q := fixedQuery(r.Endpoint); q != "" {
				p += "?" + q
			}
			accepts := []string{""}
			if len(r.AcceptMedia) > 0 && r.AcceptMedia[0] != jsonCT {
				accepts = append(accepts, r.AcceptMedia[0])
			}
			for _, a := range accepts {
				one(nil, Req{Route: routeName(r), Method: r.Method, Path: p, Auth: "admin", Header: hdr("Accept", a)})
			}
		}
	}

	// 3. the echoing / secret-handling operations, each in its own case with
	// default loggers, so that every echo has its own verdict (the follow-ups
	// of a create come with the create)
	ops := secretOps("fx")
	for i, rq := range ops {
		switch {
		case i >= 1 && i <= 3:
			one(nil, ops[0], rq)
		case i >= 5 && i <= 8:
			one(nil, ops[4], rq)
		case i == 10:
			one(nil, ops[9], rq)
		default:
			one(nil, rq)
		}
	}

	// 4. settings read through the profile package by administrator-submitted code
	for _, n := range secretNames() {
		one(nil, reqRun(progGet(n)))
	}
	one(nil, reqRun(progConfig))
	one(nil, reqRun(progKeys))

	// 5. OAuth AS endpoints
	one(nil, reqToken(clientConf, "client_credentials", "scope=openid", false))
	one(nil, reqToken(clientConf, "client_credentials", "scope=openid", true))
	one(nil, reqToken(clientHash, "client_credentials", "scope=openid", false))
	one(nil, Req{Route: "POST /oauth2/token", Method: "POST", Path: "/oauth2/token", Auth: "none", Header: hdr("Content-Type", formCT),
		Body: "grant_type=client_credentials&client_id=" + clientConf + "&client_secret=wrong"})
	one(nil, Req{Route: "POST /oauth2/revoke", Method: "POST", Path: "/oauth2/revoke", Auth: "client:" + clientConf, Header: hdr("Content-Type", formCT), Body: "token=abc"})

	// 6. what the log endpoint returns after the secret-handling operations:
	// per group of operations with no logger and with all of them (so that each
	// group has its own verdict), then the loggers that handlers write
	// payloads and values to, one at a time.
	logReads := []Req{reqLog("tail=2000", "", false), reqLog("tail=2000", "text/plain", false), reqLog("tail=2000", "", true)}
	groups := func(id string, withUsers bool) [][]Req {
		o := secretOps(id)
		g := [][]Req{
			{o[4], o[5], o[6], o[7], o[8], o[9], o[10]}, // DSN life cycle
			{o[11], o[12]},        // PATCH /admin/config
			{o[13], o[14]},        // configuration reads
			{o[16], o[17], o[18]}, // OAuth token endpoint
			{reqRun(progGet(defs.OAuthClientSecretSetting))}, // profile read
			{{Route: "GET /dsns/{{dsn}}/tables/", Method: "GET", Path: "/dsns/" + dsnPG + "/tables/", Auth: "admin"}, // connection failure
				{Route: "GET /dsns/{{dsn}}/tables/{{table}}/rows", Method: "GET", Path: "/dsns/" + dsnPG + "/tables/" + tableName + "/rows", Auth: "admin"}},
		}
		if withUsers {
			g = append(g, []Req{o[0], o[1], o[2], o[15], o[3]}) // user life cycle and a logon
		}
		return g
	}
	for i, set := range [][]string{nil, toggles} {
		for j, g := range groups(fmt.Sprintf("lg%d", i), true) {
			_ = j
			one(set, append(append([]Req{}, g...), logReads...)...)
		}
	}
	for i, l := range []string{"rest", "app", "auth", "user", "db", "sql", "tables", "debug", "info"} {
		var reqs []Req
		for _, g := range groups(fmt.Sprintf("ls%d", i), l == "rest" || l == "auth" || l == "user") {
			reqs = append(reqs, g...)
		}
		one([]string{l}, append(reqs, logReads...)...)
	}
	// 7. name spellings (spell_test.go)
	cs = append(cs, spellingCases()...)
	return cs
}

// ---- generated part ----

var undeclaredFlags = []string{"password=true", "secrets=true", "show=all", "unmask=true", "verbose=true", "hash=true", "decrypt=true", "raw=true"}

func genValue(t *rapid.T, name, typ string) string {
	switch {
	case name == "class":
		n := rapid.IntRange(1, 3).Draw(t, "nclass")
		var cl []string
		for i := 0; i < n; i++ {
			cl = append(cl, rapid.SampledFrom([]string{"rest", "REST", "auth", "server", "app", "info", "debug", "sql", "db", "tables", "route", "bogus"}).Draw(t, "class"))
		}
		return strings.Join(cl, ",")
	case name == "msg":
		return rapid.SampledFrom([]string{"*", "rest.*", "log.rest.*", "*payload*", "config.*", "auth.*", "server.*"}).Draw(t, "msg")
	case name == "since" || name == "until":
		return rapid.SampledFrom([]string{"2020-01-01", "2026-01-01T00:00:00Z", "2099-01-01", "yesterday"}).Draw(t, "time")
	case name == "user":
		return rapid.SampledFrom([]string{adminUser, userPlain, userSpec, "nobody"}).Draw(t, "quser")
	case name == "order-by":
		return rapid.SampledFrom([]string{"url", "class", "count", "time", "name", "bogus"}).Draw(t, "order")
	case name == "method":
		return rapid.SampledFrom([]string{"GET", "POST", "PATCH", "DELETE"}).Draw(t, "vmethod")
	case name == "path":
		return rapid.SampledFrom([]string{"/admin/users/", "/dsns/", "/admin/config", "/admin/loggers/"}).Draw(t, "vpath")
	case name == "entry":
		return rapid.SampledFrom([]string{"@user", "@dsn", "@config", "user", "dsn"}).Draw(t, "ventry")
	case name == "transaction":
		return "6ba7b810-9dad-11d1-80b4-00c04fd430c8"
	case name == "columns" || name == "sort":
		return rapid.SampledFrom([]string{"id", "name", "id,name", "password"}).Draw(t, "cols")
	case name == "filter":
		return rapid.SampledFrom([]string{"EQ(id,1)", "GT(id,0)", `EQ(name,"tom")`, "bogus("}).Draw(t, "filter")
	case name == "lang" || name == "language":
		return rapid.SampledFrom([]string{"en", "fr", "es", "xx"}).Draw(t, "lang")
	case name == "serverid":
		return "*"
	case name == "scope":
		return "openid"
	}
	switch {
	case strings.Contains(typ, "int"):
		return fmt.Sprint(rapid.SampledFrom([]int{0, 1, 2, 5, 50, 1000, -1}).Draw(t, "int"))
	case strings.Contains(typ, "bool") || strings.Contains(typ, "flag"):
		return rapid.SampledFrom([]string{"true", "false", "1"}).Draw(t, "bool")
	case strings.Contains(typ, "duration"):
		return rapid.SampledFrom([]string{"1s", "5m", "bogus"}).Draw(t, "dur")
	}
	return rapid.SampledFrom([]string{"x", adminUser, dsnPG, "*"}).Draw(t, "str")
}

func genQuery(t *rapid.T, r router.VerifRouteInfo) string {
	if r.Endpoint == "/oauth2/authorize" && rapid.IntRange(0, 3).Draw(t, "authq") > 0 {
		return fixedQuery(r.Endpoint)
	}
	names := make([]string, 0, len(r.Parameters))
	for k := range r.Parameters {
		names = append(names, k)
	}
	sort.Strings(names)
	var parts []string
	for _, n := range names {
		if rapid.IntRange(0, 2).Draw(t, "use_"+n) == 0 {
			parts = append(parts, url.QueryEscape(n)+"="+url.QueryEscape(genValue(t, n, r.Parameters[n])))
		}
	}
	if r.Endpoint == "/services/admin/log" && !strings.Contains(strings.Join(parts, "&"), "tail=") {
		parts = append(parts, "tail=500")
	}
	if rapid.IntRange(0, 9).Draw(t, "undeclared") == 0 {
		parts = append(parts, rapid.SampledFrom(undeclaredFlags).Draw(t, "flag"))
	}
	return strings.Join(parts, "&")
}

func genFill(t *rapid.T, endpoint string, fresh string) string {
	pick := func(label string, vals ...string) string { return rapid.SampledFrom(vals).Draw(t, label) }
	p := endpoint
	if strings.Contains(p, "{{name}}") {
		var v string
		switch {
		case strings.HasPrefix(p, "/services/sample/"):
			v = pick("sname", "tom", "mary", "nobody")
		case strings.HasPrefix(p, "/services/cluster/"):
			v = pick("cname", "c44cluster", "x")
		default:
			v = genPathSpelling(t, pick("uname", adminUser, userPlain, userSpec, "c44f"+fresh, "nobody"))
		}
		p = strings.Replace(p, "{{name}}", v, 1)
	}
	if strings.Contains(p, "{{dsn}}") {
		p = strings.Replace(p, "{{dsn}}", genPathSpelling(t, pick("dname", dsnPG, dsnPG2, dsnLite, dsnLite, "c44g"+fresh, "nodsn")), 1)
	}
	if strings.Contains(p, "{{table}}") {
		p = strings.Replace(p, "{{table}}", pick("tname", tableName, tableName, "notable"), 1)
	}
	if strings.Contains(p, "{{id}}") {
		p = strings.Replace(p, "{{id}}", "6ba7b810-9dad-11d1-80b4-00c04fd430c8", 1)
	}
	if strings.Contains(p, "{{item...}}") {
		p = strings.Replace(p, "{{item...}}", rapid.SampledFrom(append([]string{"nothing.txt", "../users.json"}, w.assets...)).Draw(t, "asset"), 1)
	}
	p = strings.Replace(p, "{{field}}", "age", 1)
	p = strings.Replace(p, "{{value}}", "12", 1)
	p = strings.Replace(p, "{{code}}", pick("code", "200", "404", "500"), 1)
	return p
}

// genPathSpelling spells a name in a URL path: the canonical way three times
// out of four, otherwise under a drawn spelling class.
func genPathSpelling(t *rapid.T, name string) string {
	if rapid.IntRange(0, 3).Draw(t, "respell") != 0 {
		return name
	}
	cl := spellingsFor("path")
	return pathSegment(cl[rapid.IntRange(0, len(cl)-1).Draw(t, "respell_class")], name)
}

// genTableRequest builds one request for an arbitrary route of the live
// table: names, declared parameters by type, Accept variants, and a
// near-valid payload for the methods that take one.
func genTableRequest(t *rapid.T, fresh string) Req {
	var cand []router.VerifRouteInfo
	for _, r := range w.routes {
		if stubbed(r) || r.Redirect != "" {
			continue
		}
		// deleting or rewriting the objects every other case relies on is
		// left to the builders that use fresh names
		if r.Method == "DELETE" && (strings.HasPrefix(r.Endpoint, "/admin/users/") || strings.HasPrefix(r.Endpoint, "/dsns/")) {
			continue
		}
		if r.Endpoint == "/admin/users/" && r.Method == "POST" || r.Endpoint == "/admin/users/{{name}}" && r.Method == "PATCH" ||
			r.Endpoint == "/dsns/" && r.Method == "POST" || r.Endpoint == "/dsns/{{dsn}}/" && r.Method == "PATCH" || r.Endpoint == "/admin/config" && r.Method != "GET" ||
			r.Endpoint == "/admin/loggers/" && r.Method != "GET" || r.Endpoint == "/admin/run" || r.Endpoint == "/services/admin/logon" {
			continue // have builders of their own
		}
		cand = append(cand, r)
	}
	r := cand[rapid.IntRange(0, len(cand)-1).Draw(t, "route")]
	rq := Req{Route: routeName(r), Method: r.Method, Auth: "admin"}
	if rapid.IntRange(0, 19).Draw(t, "anon") == 0 {
		rq.Auth = "none"
	}
	rq.Path = genFill(t, r.Endpoint, fresh)
	if q := genQuery(t, r); q != "" {
		rq.Path += "?" + q
	}
	accepts := append([]string{"", "", "*/*", "text/plain", "text/html", "application/xml"}, r.AcceptMedia...)
	rq.Header = hdr("Accept", rapid.SampledFrom(accepts).Draw(t, "accept"))
	if rapid.IntRange(0, 7).Draw(t, "gzip") == 0 {
		rq.Header["Accept-Encoding"] = "gzip"
	}
	if r.Method == "POST" || r.Method == "PUT" || r.Method == "PATCH" {
		rq.Header["Content-Type"] = jsonCT
		switch {
		case strings.HasSuffix(r.Endpoint, "/@sql"):
			rq.Body = js([]string{rapid.SampledFrom([]string{"select * from " + tableName, "select 1", "select * from sqlite_master", "bogus"}).Draw(t, "sql")})
		case strings.HasSuffix(r.Endpoint, "/tables/{{table}}") && r.Method == "PUT":
			rq.Body = `[{"name":"id","type":"int"},{"name":"name","type":"string"}]`
		case strings.HasSuffix(r.Endpoint, "/rows"):
			rq.Body = `{"id":2,"name":"mary"}`
		case strings.HasSuffix(r.Endpoint, "/@transaction"):
			rq.Body = js([]map[string]any{{"operation": "insert", "table": tableName, "data": map[string]any{"id": 3, "name": "sue"}}})
		case strings.HasSuffix(r.Endpoint, "/@generate"):
			rq.Body = `{"text":"all rows of c44t"}`
		case r.Endpoint == "/dsns/@permissions":
			rq.Body = js(map[string]any{"items": []map[string]any{{"dsn": rapid.SampledFrom([]string{dsnPG2, dsnLite}).Draw(t, "pdsn"), "user": userPlain, "actions": []string{rapid.SampledFrom([]string{"+read", "-read", "+admin"}).Draw(t, "act")}}}})
		case strings.HasSuffix(r.Endpoint, "/permissions"):
			rq.Body = js([]string{"read"})
		case r.Endpoint == "/admin/caches":
			rq.Body = js(map[string]any{"serviceSize": 10, "limit": 10})
		case r.Endpoint == "/admin/tokens/":
			rq.Body = js([]string{"6ba7b810-9dad-11d1-80b4-00c04fd430c8"})
		case r.Endpoint == "/admin/format" || r.Endpoint == "/admin/ast":
			rq.Body = js(map[string]any{"code": "fmt.Println( 1+2 )"})
		case strings.HasPrefix(r.Endpoint, "/oauth2/"):
			rq.Header["Content-Type"] = formCT
			rq.Auth = rapid.SampledFrom([]string{"client:" + clientConf, "client:" + clientHash, "none", "admin"}).Draw(t, "oauth_auth")
			rq.Body = rapid.SampledFrom([]string{
				"grant_type=client_credentials&scope=openid", "grant_type=refresh_token&refresh_token=abc", "grant_type=authorization_code&code=abc&redirect_uri=http%3A%2F%2Flocalhost%2Fcallback",
				"token=abc", "username=" + userPlain + "&password=wrong&client_id=" + clientConf + "&redirect_uri=http%3A%2F%2Flocalhost%2Fcallback&response_type=code&csrf_token=x",
				"grant_type=client_credentials&client_id=" + clientConf + "&client_secret=wrong"}).Draw(t, "oauth_body")
		case strings.Contains(r.Endpoint, "/webauthn/"):
			rq.Body = js(map[string]any{"username": rapid.SampledFrom([]string{adminUser, userPlain}).Draw(t, "wuser")})
		default:
			rq.Body = rapid.SampledFrom([]string{"{}", `{"name":"x"}`, "[]", ""}).Draw(t, "body")
		}
	}
	return rq
}

func genLoggers(t *rapid.T) []string {
	switch rapid.IntRange(0, 5).Draw(t, "lmode") {
	case 0:
		return nil
	case 1:
		return append([]string{}, toggles...)
	case 2:
		return []string{"rest"}
	}
	var out []string
	for _, l := range toggles {
		if rapid.IntRange(0, 3).Draw(t, "log_"+l) == 0 {
			out = append(out, l)
		}
	}
	return out
}

func genLogRead(t *rapid.T) Req {
	var parts []string
	parts = append(parts, "tail="+fmt.Sprint(rapid.SampledFrom([]int{50, 500, 5000}).Draw(t, "tail")))
	if rapid.IntRange(0, 3).Draw(t, "lclass") == 0 {
		parts = append(parts, "class="+rapid.SampledFrom([]string{"rest", "app", "auth", "server", "rest,app,auth,db,sql,info,debug"}).Draw(t, "lc"))
	}
	if rapid.IntRange(0, 5).Draw(t, "lmsg") == 0 {
		parts = append(parts, "msg="+url.QueryEscape(rapid.SampledFrom([]string{"*payload*", "log.rest.*", "*"}).Draw(t, "lm")))
	}
	accept := rapid.SampledFrom([]string{"", "", "text/plain", defs.LogLinesJSONMediaType, defs.LogLinesTextMediaType}).Draw(t, "laccept")
	return reqLog(strings.Join(parts, "&"), accept, rapid.IntRange(0, 3).Draw(t, "lgz") == 0)
}

func genCase(t *rapid.T) Case {
	c := Case{Loggers: genLoggers(t)}
	fresh := fmt.Sprintf("%08x", rapid.Uint32().Draw(t, "fresh"))
	n := rapid.IntRange(1, 6).Draw(t, "n")
	for i := 0; i < n; i++ {
		id := fmt.Sprintf("%s.%d", fresh, i)
		switch k := rapid.IntRange(0, 99).Draw(t, "kind"); {
		case k < 40:
			c.Reqs = append(c.Reqs, genTableRequest(t, fresh))
		case k < 50:
			c.Reqs = append(c.Reqs, genSpelled(t, fresh))
		case k < 60: // setting names, several at once, existing and not
			m := rapid.IntRange(1, 4).Draw(t, "nnames")
			var names []string
			for j := 0; j < m; j++ {
				if rapid.IntRange(0, 2).Draw(t, "secretname") == 0 {
					names = append(names, rapid.SampledFrom(secretNames()).Draw(t, "sname"))
				} else {
					names = append(names, rapid.SampledFrom(w.names).Draw(t, "name"))
				}
			}
			c.Reqs = append(c.Reqs, reqConfigNames(names...))
		case k < 64:
			c.Reqs = append(c.Reqs, reqConfigAll(rapid.SampledFrom([]string{"", defs.ConfigMediaType, "*/*", "text/plain"}).Draw(t, "caccept")))
		case k < 70:
			name := rapid.SampledFrom([]string{defs.OAuthClientSecretSetting, defs.DefaultCredentialSetting}).Draw(t, "pname")
			c.Reqs = append(c.Reqs, reqConfigPatch(name, id, rapid.Bool().Draw(t, "pspecial")))
		case k < 74: // user life cycle (bcrypt: kept rare)
			u := "c44f" + fresh
			switch rapid.IntRange(0, 3).Draw(t, "uop") {
			case 0:
				c.Reqs = append(c.Reqs, reqCreateUser(u, id, rapid.Bool().Draw(t, "uspecial"), []string{"ego.logon"}))
			case 1:
				c.Reqs = append(c.Reqs, reqPatchUser(rapid.SampledFrom([]string{u, userSpec}).Draw(t, "puser"), id, true, rapid.Bool().Draw(t, "uspecial"), nil))
			case 2:
				c.Reqs = append(c.Reqs, reqPatchUser(rapid.SampledFrom([]string{u, userSpec, userPlain}).Draw(t, "puser"), id, false, false, []string{"ego.logon", "ego.table.read"}))
			default:
				c.Reqs = append(c.Reqs, reqUser("DELETE", u))
			}
		case k < 84: // DSN life cycle
			d := "c44g" + fresh
			switch rapid.IntRange(0, 3).Draw(t, "dop") {
			case 0:
				c.Reqs = append(c.Reqs, reqCreateDSN(d, id, rapid.SampledFrom([]string{"postgres", "postgres", "sqlite"}).Draw(t, "prov"), rapid.Bool().Draw(t, "dspecial"), rapid.Bool().Draw(t, "drestr")))
			case 1:
				c.Reqs = append(c.Reqs, reqPatchDSN(rapid.SampledFrom([]string{d, dsnPG, dsnPG2, dsnLite}).Draw(t, "pdsn"), id, rapid.Bool().Draw(t, "dspecial"), nil))
			case 2:
				c.Reqs = append(c.Reqs, reqDSN("GET", d))
			default:
				c.Reqs = append(c.Reqs, reqDSN("DELETE", d))
			}
		case k < 90:
			prog := rapid.SampledFrom([]string{progConfig, progKeys, progGet(rapid.SampledFrom(w.names).Draw(t, "rname")), progGet(rapid.SampledFrom(secretNames()).Draw(t, "rsname"))}).Draw(t, "prog")
			c.Reqs = append(c.Reqs, reqRun(prog))
		case k < 92:
			c.Reqs = append(c.Reqs, reqLogon(rapid.SampledFrom([]string{adminUser, userPlain}).Draw(t, "luser")))
		case k < 96:
			c.Reqs = append(c.Reqs, reqToken(rapid.SampledFrom([]string{clientConf, clientHash}).Draw(t, "client"), "client_credentials", "scope=openid", rapid.Bool().Draw(t, "inbody")))
		default:
			c.Reqs = append(c.Reqs, genLogRead(t))
		}
	}
	c.Reqs = append(c.Reqs, genLogRead(t))
	return c
}
