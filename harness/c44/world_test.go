package c44

import (
	"crypto/ecdsa"
	"crypto/elliptic"
	"crypto/sha256"
	"crypto/x509"
	"encoding/hex"
	"encoding/json"
	"encoding/pem"
	"fmt"
	"math/big"
	"net/http"
	"os"
	"path/filepath"
	"sort"
	"strings"

	"github.com/tucats/ego/internal/cli/settings"
	"github.com/tucats/ego/internal/cli/ui"
	"github.com/tucats/ego/internal/defs"
	"github.com/tucats/ego/internal/dsns"
	"github.com/tucats/ego/internal/router"
	"github.com/tucats/ego/internal/server/auth"
	"github.com/tucats/ego/verif/srvfix"
	"golang.org/x/crypto/bcrypt"
)

// Names of the objects that exist in every process before the first case.
const (
	adminUser  = "admin"
	userPlain  = "c44alice" // password canary without special characters
	userSpec   = "c44bob"   // password canary with characters serializers escape
	dsnPG      = "c44pg"    // postgres DSN, password canary with special characters
	dsnPG2     = "c44pg2"   // postgres DSN, plain password canary, restricted
	dsnLite    = "c44lite"  // sqlite DSN with a real database file (and a password field)
	tableName  = "c44t"
	clientConf = "c44-conf"   // OAuth client whose secret is given in clear in the client file
	clientHash = "c44-hashed" // OAuth client whose secret hash is given in the client file
	issuer     = "http://localhost:4040"
)

const specials = `"q\<&%`

// canary builds a distinct, deterministic, random-looking secret. The special
// form carries a quote, a backslash, '<', '&' and '%' in the middle, with a run
// of at least 16 characters on either side.
func canary(class, id string, special bool) string {
	// the two forms of the same (class, id) share no substring: a case and its
	// shrunk variants must not be able to match each other's canaries
	h := sha256.Sum256([]byte(fmt.Sprintf("c44|%s|%s|%v", class, id, special)))
	x := hex.EncodeToString(h[:])
	tag := map[string]string{"user-password": "upw", "dsn-password": "dpw", "setting": "set", "oauth-client-secret": "ocs"}[class]
	if tag == "" {
		tag = class
	}
	// at most 57 bytes: bcrypt (user passwords, OAuth client secrets) refuses
	// more than 72
	if special {
		return "CANARY-" + tag + "-" + x[:18] + specials + x[18:36] + "-END"
	}
	return "CANARY-" + tag + "-" + x[:32]
}

// secretSettings: every setting of internal/defs/config.go that holds a
// secret (enumerated by reading the file: names containing token / secret /
// password / key / credential, minus the ones that hold a duration, a flag or
// a file name), with the canary planted in it.
var secretSettings = []struct {
	name    string
	special bool
}{
	{defs.ServerTokenKeySetting, true},      // ego.server.token.key
	{defs.LogonTokenSetting, false},         // ego.logon.token
	{defs.LogonRefreshTokenSetting, true},   // ego.logon.refresh.token
	{defs.OAuthClientSecretSetting, false},  // ego.server.oauth.client.secret
	{defs.LogonUserdataKeySetting, false},   // ego.server.userdata.key
	{defs.DefaultCredentialSetting, false},  // ego.server.default.credential ("user:password")
	{defs.ServerKeyPrefix + "token", false}, // ego.server.token: no constant of its own, but on the server's list of secret settings
}

func settingCanary(name string) string {
	for _, s := range secretSettings {
		if s.name == name {
			return canary("setting", name, s.special)
		}
	}
	return ""
}

// toggles are the loggers a case may switch on or off (the very verbose
// language-level loggers are left alone; "server" cannot be switched off).
var toggles = []string{"ai", "app", "asset", "auth", "cache", "child", "cli", "db", "debug", "info", "internal", "resources", "rest", "route", "services", "sql", "tables", "user", "valid"}

type world struct {
	f       *srvfix.Fixture
	tok     string
	reg     *registry
	logFile string
	names   []string // every setting name the check asks for
	routes  []router.VerifRouteInfo
	userPw  map[string]string
	known   map[string]bool
	assets  []string
}

var w *world

func signingScalar() []byte {
	n := elliptic.P256().Params().N
	h := sha256.Sum256([]byte("c44 oauth signing key"))
	d := new(big.Int).SetBytes(h[:])
	d.Mod(d, new(big.Int).Sub(n, big.NewInt(1)))
	d.Add(d, big.NewInt(1))
	out := make([]byte, 32)
	d.FillBytes(out)
	return out
}

func writeOAuthFiles(dir string) (keyFile, clientFile string, err error) {
	if err = os.MkdirAll(dir, 0o700); err != nil {
		return
	}
	d := signingScalar()
	curve := elliptic.P256()
	x, y := curve.ScalarBaseMult(d) //nolint:staticcheck // deterministic key for the harness
	key := &ecdsa.PrivateKey{PublicKey: ecdsa.PublicKey{Curve: curve, X: x, Y: y}, D: new(big.Int).SetBytes(d)}
	der, err := x509.MarshalECPrivateKey(key)
	if err != nil {
		return
	}
	keyFile = filepath.Join(dir, "signing.pem")
	if err = os.WriteFile(keyFile, pem.EncodeToMemory(&pem.Block{Type: "EC PRIVATE KEY", Bytes: der}), 0o600); err != nil {
		return
	}
	hash, err := bcrypt.GenerateFromPassword([]byte(canary("oauth-client-secret", clientHash, false)), bcrypt.MinCost)
	if err != nil {
		return
	}
	clients := []map[string]any{
		{"client_id": clientConf, "client_secret": canary("oauth-client-secret", clientConf, true),
			"redirect_uris": []string{"http://localhost/callback"}, "grant_types": []string{"client_credentials", "authorization_code", "refresh_token"},
			"scopes": []string{"openid", "profile", "ego:read", "ego:admin"}, "description": "confidential client, secret in clear"},
		{"client_id": clientHash, "client_secret_hash": string(hash),
			"redirect_uris": []string{"http://localhost/callback"}, "grant_types": []string{"client_credentials", "authorization_code", "refresh_token"},
			"scopes": []string{"openid", "profile", "ego:read"}, "description": "confidential client, secret hashed"},
	}
	b, _ := json.MarshalIndent(clients, "", " ")
	clientFile = filepath.Join(dir, "clients.json")
	err = os.WriteFile(clientFile, b, 0o600)
	return
}

func setup(base string) (*world, error) {
	if os.Getenv("VERIF_RUN_DIR") == "" {
		os.Setenv("VERIF_RUN_DIR", base)
	} else {
		base = os.Getenv("VERIF_RUN_DIR")
	}
	oauthDir := filepath.Join(base, fmt.Sprintf("c44-oauth-%d", os.Getpid()))
	keyFile, clientFile, err := writeOAuthFiles(oauthDir)
	if err != nil {
		return nil, err
	}
	set := map[string]string{
		defs.OAuthASEnabledSetting:    "true",
		defs.OAuthASIssuerSetting:     issuer,
		defs.OAuthASKeyFileSetting:    keyFile,
		defs.OAuthASClientFileSetting: clientFile,
		defs.ServerAIModelSetting:     "c44-model",
	}
	for _, s := range secretSettings {
		v := settingCanary(s.name)
		if s.name == defs.DefaultCredentialSetting {
			v = adminUser + ":" + v
		}
		set[s.name] = v
	}
	adminPw := canary("user-password", adminUser, false)
	f, err := srvfix.Start(srvfix.Options{AdminUser: adminUser, AdminPassword: adminPw, Settings: set})
	if err != nil {
		return nil, err
	}
	wd := &world{f: f, reg: newRegistry(), userPw: map[string]string{adminUser: adminPw}, known: loadKnownSigs()}

	// What RunServer does for `ego server start` (which always passes
	// --log-file) and VerifServerRouter leaves out: JSON log format, server
	// logger on, a log file. Without a log file GET /services/admin/log has
	// nothing to read.
	if !settings.Exists(defs.LogFormatSetting) {
		settings.SetDefault(defs.LogFormatSetting, "json")
		ui.LogFormat = ui.JSONFormat
	}
	ui.Active(ui.ServerLogger, true)
	wd.logFile = filepath.Join(f.Dir, "ego-server.log")
	if err := ui.OpenLogFile(wd.logFile, false); err != nil {
		return nil, fmt.Errorf("open log: %w", err)
	}

	// Handlers that end the process are replaced; everything else is real.
	f.Router.VerifWrapHandlers(func(info router.VerifRouteInfo, h router.HandlerFunc) router.HandlerFunc {
		if info.Method == http.MethodPost && (strings.HasPrefix(info.Endpoint, defs.ServicesDownPath) || info.Endpoint == defs.ServicesClusterShutdownPath) {
			return func(s *router.Session, rw http.ResponseWriter, r *http.Request) int {
				rw.WriteHeader(http.StatusServiceUnavailable)
				_, _ = rw.Write([]byte(`{"status":503,"msg":"stubbed by the harness: would stop the process"}`))
				return http.StatusServiceUnavailable
			}
		}
		return h
	})
	wd.routes = f.Router.VerifRoutes()
	hasAS := false
	for _, r := range wd.routes {
		if r.Endpoint == defs.OAuthTokenPath {
			hasAS = true
		}
	}
	if !hasAS {
		return nil, fmt.Errorf("the OAuth authorization server role did not come up (key or client file rejected)")
	}

	if wd.tok, err = f.AdminToken(); err != nil {
		return nil, err
	}

	// Secrets that are in place already.
	for _, s := range secretSettings {
		wd.reg.add("setting:"+s.name, settingCanary(s.name))
	}
	wd.reg.add("user-password", adminPw)
	wd.reg.add("oauth-client-secret", canary("oauth-client-secret", clientConf, true))
	wd.reg.add("oauth-client-secret", canary("oauth-client-secret", clientHash, false))
	if b, err := os.ReadFile(clientFile); err == nil {
		var cl []map[string]any
		_ = json.Unmarshal(b, &cl)
		for _, c := range cl {
			if h, _ := c["client_secret_hash"].(string); h != "" {
				wd.reg.add("oauth-client-secret-hash", h)
			}
		}
	}
	wd.reg.addBytes("oauth-signing-key", signingScalar())
	wd.reg.add("oauth-signing-key", new(big.Int).SetBytes(signingScalar()).String())

	// Users, DSNs and a table, created the way an administrator does.
	for _, u := range []struct {
		name    string
		special bool
		perms   []string
	}{{userPlain, false, []string{"ego.logon", "ego.table.read"}}, {userSpec, true, []string{"ego.logon", "ego.server.admin"}}} {
		pw := canary("user-password", u.name, u.special)
		wd.reg.add("user-password", pw)
		wd.userPw[u.name] = pw
		if err := f.CreateUser(wd.tok, u.name, pw, u.perms); err != nil {
			return nil, err
		}
	}
	for _, n := range []string{adminUser, userPlain, userSpec} {
		if err := wd.readUser(n); err != nil {
			return nil, err
		}
	}
	mk := func(body map[string]any) error {
		b, _ := json.Marshal(body)
		h := srvfix.Bearer(wd.tok)
		h["Content-Type"] = "application/json"
		r := f.Do(srvfix.Request{Method: "POST", Path: "/dsns/", Header: h, Body: string(b)})
		if r.Status != 200 && r.Status != 201 {
			return fmt.Errorf("create dsn %v: %d %s", body["name"], r.Status, r.Body)
		}
		return nil
	}
	pg1 := canary("dsn-password", dsnPG, true)
	pg2 := canary("dsn-password", dsnPG2, false)
	lite := canary("dsn-password", dsnLite, false)
	wd.reg.add("dsn-password", pg1)
	wd.reg.add("dsn-password", pg2)
	wd.reg.add("dsn-password", lite)
	if err := mk(map[string]any{"name": dsnPG, "provider": "postgres", "database": "c44db", "host": "localhost", "port": 5432, "user": "c44dbuser", "password": pg1}); err != nil {
		return nil, err
	}
	if err := mk(map[string]any{"name": dsnPG2, "provider": "postgres", "database": "c44db2", "host": "localhost", "port": 5433, "user": "c44dbuser2", "password": pg2, "restricted": true, "secured": true}); err != nil {
		return nil, err
	}
	if err := mk(map[string]any{"name": dsnLite, "provider": "sqlite", "database": filepath.Join(f.Dir, "c44.db"), "user": "c44liteuser", "password": lite}); err != nil {
		return nil, err
	}
	for _, n := range []string{dsnPG, dsnPG2, dsnLite} {
		if err := wd.readDSN(n); err != nil {
			return nil, err
		}
	}
	h := srvfix.Bearer(wd.tok)
	h["Content-Type"] = "application/json"
	if r := f.Do(srvfix.Request{Method: "PUT", Path: "/dsns/" + dsnLite + "/tables/" + tableName, Header: h, Body: `[{"name":"id","type":"int"},{"name":"name","type":"string"}]`}); r.Status/100 != 2 {
		return nil, fmt.Errorf("create table: %d %s", r.Status, r.Body)
	}
	if r := f.Do(srvfix.Request{Method: "PUT", Path: "/dsns/" + dsnLite + "/tables/" + tableName + "/rows", Header: h, Body: `{"id":1,"name":"tom"}`}); r.Status/100 != 2 {
		return nil, fmt.Errorf("insert row: %d %s", r.Status, r.Body)
	}

	// Every setting name the schema knows, plus whatever is set.
	ns := map[string]bool{}
	for k := range defs.ValidSettings {
		ns[k] = true
	}
	for k := range defs.RestrictedSettings {
		ns[k] = true
	}
	for k := range defs.ReadonlySetting {
		ns[k] = true
	}
	for _, k := range settings.Keys() {
		ns[k] = true
	}
	for _, s := range secretSettings {
		ns[s.name] = true
	}
	for k := range ns {
		wd.names = append(wd.names, k)
	}
	sort.Strings(wd.names)

	// A few asset paths for the asset route.
	_ = filepath.Walk(filepath.Join(f.Dir, "lib", "assets"), func(p string, info os.FileInfo, err error) error {
		if err == nil && !info.IsDir() && info.Size() < 200_000 {
			if rel, e := filepath.Rel(filepath.Join(f.Dir, "lib", "assets"), p); e == nil {
				wd.assets = append(wd.assets, filepath.ToSlash(rel))
			}
		}
		return nil
	})
	sort.Strings(wd.assets)
	if len(wd.assets) > 12 {
		wd.assets = wd.assets[:12]
	}
	return wd, nil
}

// readUser registers the stored form of a user's password (what the user
// store holds: the hash).
func (wd *world) readUser(name string) error {
	u, err := auth.AuthService.ReadUser(0, name, true)
	if err != nil {
		return err
	}
	if u.Password != "" {
		wd.reg.add("user-hash", u.Password)
	}
	return nil
}

// readDSN registers the stored form of a DSN's password (the ciphertext for
// postgres; whatever the store holds for sqlite).
func (wd *world) readDSN(name string) error {
	d, err := dsns.DSNService.ReadDSN(0, adminUser, name, true)
	if err != nil {
		return err
	}
	if d.Password != "" && !wd.reg.have["dsn-password\x00"+d.Password] {
		wd.reg.add("dsn-ciphertext", d.Password)
	}
	return nil
}

func loadKnownSigs() map[string]bool {
	out := map[string]bool{}
	p := os.Getenv("VERIF_KNOWN")
	if p == "" {
		root := os.Getenv("VERIF_ROOT")
		if root == "" {
			root = "/verif"
		}
		p = filepath.Join(root, "known_findings.json")
	}
	b, err := os.ReadFile(p)
	if err != nil {
		return out
	}
	var kf struct {
		Findings []struct {
			Property string `json:"property"`
			Sig      string `json:"sig"`
		} `json:"findings"`
	}
	if json.Unmarshal(b, &kf) == nil {
		for _, k := range kf.Findings {
			if k.Property == "C44" {
				out[k.Sig] = true
			}
		}
	}
	return out
}
