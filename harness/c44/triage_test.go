package c44

import (
	"net/http/httptest"
	"net/url"
	"os"
	"strings"
	"testing"

	"github.com/tucats/ego/internal/cli/settings"
	"github.com/tucats/ego/internal/defs"
	"github.com/tucats/ego/internal/dsns"
	"github.com/tucats/ego/internal/router"
	"github.com/tucats/ego/internal/runtime/profile"
	"github.com/tucats/ego/internal/server/admin"
)

// TestTriage (C44_TRIAGE=1) reproduces the findings against the real code
// without the server fixture and without the scanner: the handlers and
// functions are called directly and the response is searched with
// strings.Contains for a literal value. (The profile.Get findings are not
// repeated here: the package must not depend on egorun, whose hooks an older
// tree under VERIF_REPO may lack.)
func TestTriage(t *testing.T) {
	if os.Getenv("C44_TRIAGE") == "" {
		t.Skip()
	}
	dir := t.TempDir()
	os.Setenv("HOME", dir)
	os.Setenv("EGO_PATH", dir)
	if err := settings.Load("ego", "default"); err != nil {
		t.Fatal(err)
	}
	_ = profile.InitProfileDefaults(profile.RuntimeDefaults)
	for _, n := range []string{defs.ServerTokenKeySetting, defs.LogonTokenSetting, defs.LogonRefreshTokenSetting, defs.OAuthClientSecretSetting, defs.LogonUserdataKeySetting, defs.DefaultCredentialSetting} {
		settings.SetDefault(n, "S3CR3T-"+n)
	}
	for _, n := range []string{defs.ServerTokenKeySetting, defs.LogonTokenSetting, defs.LogonRefreshTokenSetting, defs.OAuthClientSecretSetting, defs.LogonUserdataKeySetting, defs.DefaultCredentialSetting} {
		rec := httptest.NewRecorder()
		req := httptest.NewRequest("POST", "/admin/config", strings.NewReader(`["`+n+`"]`))
		admin.GetConfigHandler(&router.Session{ID: 1}, rec, req)
		t.Logf("POST /admin/config [%s] leaks=%v", n, strings.Contains(rec.Body.String(), "S3CR3T-"+n))
	}
	rec := httptest.NewRecorder()
	admin.GetAllConfigHandler(&router.Session{ID: 2}, rec, httptest.NewRequest("GET", "/admin/config", nil))
	for _, n := range []string{defs.ServerTokenKeySetting, defs.LogonTokenSetting, defs.LogonRefreshTokenSetting, defs.OAuthClientSecretSetting, defs.LogonUserdataKeySetting, defs.DefaultCredentialSetting} {
		t.Logf("GET /admin/config: %s leaks=%v", n, strings.Contains(rec.Body.String(), "S3CR3T-"+n))
	}
	d := dsns.NewDSN("x", "postgres", "db", "dbuser", `pa"ss<word`, "localhost", 5432, false, false)
	cs, err := dsns.Connection(d)
	_, perr := url.Parse(cs)
	t.Logf("Connection()=%q err=%v; url.Parse error: %v", cs, err, perr)
}
