package c15

// Slot sweep: a nested subquery that reads a table the caller may not read, in
// every child position of every expression node kind of internal/sqlparse/ast,
// inside every clause of every statement kind that can carry an expression.
//
// A sweep statement is host(wrap_k(... wrap_1(leaf(U)))):
//   - leaf(U): a subquery form reading table U (scalar, EXISTS, IN, nested,
//     join, derived table, CTE, compound, through the view);
//   - wrap: one expression node with the inner expression in one child slot
//     (CaseExpr.Else, BetweenExpr.High, FuncCall.Args, ...);
//   - host: one clause of one statement kind (SELECT list/WHERE/GROUP BY/
//     HAVING/ORDER BY/LIMIT/OFFSET/JOIN ON/derived table/CTE/compound arms/
//     aggregate argument and FILTER; INSERT VALUES/SELECT/ON CONFLICT/
//     RETURNING/WITH; UPDATE SET/row SET/WHERE/FROM/RETURNING; DELETE WHERE/
//     RETURNING; CREATE TABLE AS / CREATE VIEW bodies; CHECK/DEFAULT/GENERATED/
//     index expressions and predicates, which SQLite refuses to prepare with a
//     subquery and which are therefore only labelled).
//
// The caller holds every grant except read on U, so a 2xx is a violation and
// the unit-level twin compares Tables() with EXPLAIN as for every other case.
//
// Which slot a case really exercises is not taken from the template names but
// measured: the statement is parsed with ego's parser and the tree is walked by
// reflection over the struct fields (NOT through Children(), which is part of
// what is under test); every edge "Type.Field" on a path from the root to a
// TableRef naming an uncovered table is recorded per statement kind.

import (
	"fmt"
	"reflect"
	"sort"
	"strings"
	"sync"

	"github.com/tucats/ego/internal/sqlparse/ast"
	"pgregory.net/rapid"
)

// ------------------------------------------------------- AST by reflection

var nodeIface = reflect.TypeOf((*ast.Node)(nil)).Elem()

// step is one parent -> child edge of the tree.
type step struct {
	parent ast.Node
	edge   string // "CaseExpr.Else"
	child  ast.Node
}

func collectNodes(v reflect.Value, out *[]ast.Node) {
	switch v.Kind() {
	case reflect.Interface, reflect.Ptr:
		if v.IsNil() || !v.CanInterface() {
			return
		}
		if n, ok := v.Interface().(ast.Node); ok {
			rv := reflect.ValueOf(n)
			if rv.Kind() == reflect.Ptr && rv.IsNil() {
				return
			}
			*out = append(*out, n)
		}
	case reflect.Slice:
		for i := 0; i < v.Len(); i++ {
			collectNodes(v.Index(i), out)
		}
	}
}

// fieldChildren lists the nodes held by each exported field of n, in field
// order.
func fieldChildren(n ast.Node) []step {
	v := reflect.ValueOf(n)
	for v.Kind() == reflect.Ptr || v.Kind() == reflect.Interface {
		if v.IsNil() {
			return nil
		}
		v = v.Elem()
	}
	if v.Kind() != reflect.Struct {
		return nil
	}
	var out []step
	t := v.Type()
	for i := 0; i < t.NumField(); i++ {
		f := t.Field(i)
		if f.PkgPath != "" || f.Anonymous {
			continue
		}
		var kids []ast.Node
		collectNodes(v.Field(i), &kids)
		for _, k := range kids {
			out = append(out, step{parent: n, edge: t.Name() + "." + f.Name, child: k})
		}
	}
	return out
}

// pathsTo returns every path from root to a TableRef for which match is true.
func pathsTo(root ast.Node, match func(*ast.TableRef) bool) [][]step {
	var out [][]step
	var visit func(n ast.Node, path []step, depth int)
	visit = func(n ast.Node, path []step, depth int) {
		if depth > 200 {
			return
		}
		if tr, ok := n.(*ast.TableRef); ok && tr != nil && match(tr) {
			out = append(out, append([]step(nil), path...))
		}
		for _, s := range fieldChildren(n) {
			visit(s.child, append(path, s), depth+1)
		}
	}
	if root != nil {
		visit(root, nil, 0)
	}
	return out
}

func inChildren(parent, child ast.Node) bool {
	for _, c := range parent.Children() {
		if c == child {
			return true
		}
	}
	return false
}

// culprit names the edge that keeps the analyzer from a table reference: the
// first edge of the path whose child is not among its parent's Children(), or,
// when ast.Walk would reach the reference, the statement-level field the
// reference hangs under (Tables() picks those fields one by one).
func culprit(path []step) string {
	for _, s := range path {
		if !inChildren(s.parent, s.child) {
			return s.edge + " not in Children()"
		}
	}
	if len(path) > 0 {
		return path[0].edge + " not walked by Tables()"
	}
	return "?"
}

// nodeRegistry lists one value of every node type of the ast package, for the
// slot universe.
var nodeRegistry = []ast.Node{
	&ast.SelectStmt{}, &ast.CompoundSelect{}, &ast.SelectCore{}, &ast.WithClause{}, &ast.CTE{}, &ast.ResultColumn{},
	&ast.TableRef{}, &ast.SubqueryRef{}, &ast.JoinClause{}, &ast.OrderByTerm{}, &ast.LimitClause{},
	&ast.InsertStmt{}, &ast.InsertValues{}, &ast.InsertSelect{}, &ast.InsertDefaultValues{}, &ast.UpdateStmt{}, &ast.SetClause{},
	&ast.DeleteStmt{}, &ast.OnConflictClause{}, &ast.ReturningClause{},
	&ast.CreateTableStmt{}, &ast.ColumnDef{}, &ast.ColumnPrimaryKey{}, &ast.ColumnNotNull{}, &ast.ColumnUnique{}, &ast.ColumnCheck{},
	&ast.ColumnDefault{}, &ast.ColumnReferences{}, &ast.ColumnCollate{}, &ast.ColumnGenerated{}, &ast.TablePrimaryKey{}, &ast.TableUnique{},
	&ast.TableForeignKey{}, &ast.TableCheck{}, &ast.DropTableStmt{}, &ast.AlterTableStmt{}, &ast.AddColumn{}, &ast.DropColumn{},
	&ast.RenameColumn{}, &ast.RenameTable{}, &ast.CreateIndexStmt{}, &ast.DropIndexStmt{}, &ast.CreateViewStmt{}, &ast.DropViewStmt{},
	&ast.ColumnRef{}, &ast.StarExpr{}, &ast.Literal{}, &ast.Placeholder{}, &ast.UnaryExpr{}, &ast.BinaryExpr{}, &ast.BetweenExpr{},
	&ast.InExpr{}, &ast.LikeExpr{}, &ast.IsNullExpr{}, &ast.IsExpr{}, &ast.CollateExpr{}, &ast.FuncCall{}, &ast.CastExpr{},
	&ast.WhenClause{}, &ast.CaseExpr{}, &ast.ParenExpr{}, &ast.ExistsExpr{}, &ast.Subquery{}, &ast.ExprList{}, &ast.TypeName{},
}

func canHoldNode(t reflect.Type) bool {
	switch t.Kind() {
	case reflect.Interface:
		return t == nodeIface || t.Implements(nodeIface)
	case reflect.Ptr:
		return t.Implements(nodeIface)
	case reflect.Slice:
		return canHoldNode(t.Elem())
	}
	return false
}

// slotUniverse lists every "Type.Field" that can hold a node.
func slotUniverse() []string {
	var out []string
	for _, n := range nodeRegistry {
		t := reflect.TypeOf(n).Elem()
		for i := 0; i < t.NumField(); i++ {
			f := t.Field(i)
			if f.PkgPath != "" || f.Anonymous {
				continue
			}
			if canHoldNode(f.Type) {
				out = append(out, t.Name()+"."+f.Name)
			}
		}
	}
	sort.Strings(out)
	return out
}

// slot bookkeeping for the evidence (Extra)
var (
	slotMu       sync.Mutex
	slotJudged   = map[string]bool{} // "Type.Field|KIND": an uncovered read need (EXPLAIN) lies under this edge
	slotNoGround = map[string]bool{} // edge leads to an unreadable table that SQLite does not read: not judged
)

func recordSlots(m map[string]bool, kind string, edges []string) {
	slotMu.Lock()
	for _, e := range edges {
		m[e+"|"+kind] = true
	}
	slotMu.Unlock()
}

func sortedSet(m map[string]bool) []string {
	slotMu.Lock()
	defer slotMu.Unlock()
	out := make([]string, 0, len(m))
	for k := range m {
		out = append(out, k)
	}
	sort.Strings(out)
	return out
}

func slotExtra() map[string]any {
	return map[string]any{
		"slot_universe":            slotUniverse(),
		"slots_uncovered_need":     sortedSet(slotJudged),
		"slots_seen_not_judgeable": sortedSet(slotNoGround),
	}
}

// edgesTo lists the distinct edges on the paths from root to the references
// of any of the names.
func edgesTo(root ast.Node, names []string) ([]string, [][]step) {
	paths := pathsTo(root, func(tr *ast.TableRef) bool {
		for _, n := range names {
			if strings.EqualFold(tr.Name, n) {
				return true
			}
		}
		return false
	})
	seen := map[string]bool{}
	var out []string
	for _, p := range paths {
		for _, s := range p {
			if !seen[s.edge] {
				seen[s.edge] = true
				out = append(out, s.edge)
			}
		}
	}
	sort.Strings(out)
	return out, paths
}

// ------------------------------------------------------------ the templates

type tbl struct{ name, key, col string }

var sweepTables = []tbl{{"t1", "a", "b"}, {"t2", "a", "d"}, {"t3", "id", "e"}}

type leafT struct {
	name string
	f    func(m, u tbl) string
}

var leaves = []leafT{
	{"scalar", func(m, u tbl) string { return fmt.Sprintf("(SELECT %s FROM %s LIMIT 1)", u.key, u.name) }},
	{"scalar-agg", func(m, u tbl) string { return fmt.Sprintf("(SELECT count(*) FROM %s)", u.name) }},
	{"exists", func(m, u tbl) string { return fmt.Sprintf("EXISTS (SELECT 1 FROM %s)", u.name) }},
	{"not-exists", func(m, u tbl) string {
		return fmt.Sprintf("NOT EXISTS (SELECT 1 FROM %s WHERE %s < 0)", u.name, u.key)
	}},
	{"in-sub", func(m, u tbl) string { return fmt.Sprintf("1 IN (SELECT %s FROM %s)", u.key, u.name) }},
	{"not-in-sub", func(m, u tbl) string { return fmt.Sprintf("1 NOT IN (SELECT %s FROM %s)", u.key, u.name) }},
	{"nested", func(m, u tbl) string { return fmt.Sprintf("(SELECT (SELECT max(%s) FROM %s))", u.key, u.name) }},
	{"join-right", func(m, u tbl) string {
		return fmt.Sprintf("(SELECT m2.%s FROM %s AS m2 JOIN %s ON 1 LIMIT 1)", m.key, m.name, u.name)
	}},
	{"join-left", func(m, u tbl) string {
		return fmt.Sprintf("(SELECT m2.%s FROM %s LEFT JOIN %s AS m2 ON 1 LIMIT 1)", m.key, u.name, m.name)
	}},
	{"derived", func(m, u tbl) string {
		return fmt.Sprintf("(SELECT k FROM (SELECT %s AS k FROM %s) AS s LIMIT 1)", u.key, u.name)
	}},
	{"cte", func(m, u tbl) string {
		return fmt.Sprintf("(WITH cu AS (SELECT %s AS k FROM %s) SELECT k FROM cu LIMIT 1)", u.key, u.name)
	}},
	{"compound", func(m, u tbl) string {
		return fmt.Sprintf("(SELECT 1 UNION ALL SELECT %s FROM %s LIMIT 1)", u.key, u.name)
	}},
	{"where-exists", func(m, u tbl) string { return fmt.Sprintf("(SELECT 1 WHERE EXISTS (SELECT 1 FROM %s))", u.name) }},
	{"order-limit", func(m, u tbl) string {
		return fmt.Sprintf("(SELECT 1 ORDER BY (SELECT %s FROM %s LIMIT 1) LIMIT (SELECT count(*) FROM %s))", u.key, u.name, u.name)
	}},
}

// wrapT puts X into one child slot of one expression node.
type wrapT struct{ slot, f string }

var wraps = []wrapT{
	{"UnaryExpr.X", "- {X}"}, {"UnaryExpr.X", "NOT {X}"}, {"UnaryExpr.X", "~ {X}"}, {"UnaryExpr.X", "+ {X}"},
	{"BinaryExpr.X", "{X} + 1"}, {"BinaryExpr.X", "{X} = 1"}, {"BinaryExpr.X", "{X} || 'z'"}, {"BinaryExpr.X", "{X} AND 1"},
	{"BinaryExpr.X", "{X} < 5"}, {"BinaryExpr.X", "{X} & 1"},
	{"BinaryExpr.Y", "1 + {X}"}, {"BinaryExpr.Y", "1 <> {X}"}, {"BinaryExpr.Y", "'z' || {X}"}, {"BinaryExpr.Y", "0 OR {X}"},
	{"BinaryExpr.Y", "5 >= {X}"}, {"BinaryExpr.Y", "1 << {X}"}, {"BinaryExpr.Y", "7 % {X}"},
	{"BetweenExpr.X", "{X} BETWEEN 0 AND 9"}, {"BetweenExpr.Low", "1 BETWEEN {X} AND 9"}, {"BetweenExpr.High", "1 BETWEEN 0 AND {X}"},
	{"BetweenExpr.High", "1 NOT BETWEEN 0 AND {X}"},
	{"InExpr.X", "{X} IN (1, 2)"}, {"InExpr.List", "1 IN (2, {X})"}, {"InExpr.List", "1 NOT IN ({X})"},
	{"LikeExpr.X", "{X} LIKE 'a%'"}, {"LikeExpr.Pattern", "'a' LIKE {X}"}, {"LikeExpr.Pattern", "'a' NOT GLOB {X}"},
	{"LikeExpr.Escape", "'a' LIKE 'a' ESCAPE {X}"},
	{"IsNullExpr.X", "{X} IS NULL"}, {"IsNullExpr.X", "{X} NOTNULL"}, {"IsNullExpr.X", "{X} IS NOT NULL"}, {"IsNullExpr.X", "{X} ISNULL"},
	{"IsExpr.X", "{X} IS 1"}, {"IsExpr.Y", "1 IS NOT {X}"}, {"IsExpr.Y", "1 IS DISTINCT FROM {X}"}, {"IsExpr.X", "{X} IS NOT DISTINCT FROM 1"},
	{"CollateExpr.X", "{X} COLLATE NOCASE"},
	{"FuncCall.Args", "abs({X})"}, {"FuncCall.Args", "coalesce(NULL, {X})"}, {"FuncCall.Args", "ifnull({X}, 0)"}, {"FuncCall.Args", "substr('abc', 1, {X})"},
	{"CastExpr.X", "CAST({X} AS TEXT)"},
	{"CaseExpr.Operand", "CASE {X} WHEN 1 THEN 2 ELSE 3 END"},
	{"WhenClause.Cond", "CASE WHEN {X} THEN 1 ELSE 0 END"}, {"WhenClause.Cond", "CASE 1 WHEN {X} THEN 1 END"},
	{"WhenClause.Result", "CASE WHEN 1 THEN {X} END"}, {"WhenClause.Result", "CASE WHEN 0 THEN 1 WHEN 1 THEN {X} ELSE 2 END"},
	{"CaseExpr.Else", "CASE WHEN 0 THEN NULL ELSE {X} END"}, {"CaseExpr.Else", "CASE 1 WHEN 2 THEN 3 ELSE {X} END"},
	{"ParenExpr.X", "({X})"},
	{"ExprList.Items", "({X}, 1) = (1, 1)"}, {"ExprList.Items", "(1, 2) < (1, {X})"},
}

// hostT puts an expression into one clause of one statement kind. ddl: the
// statement needs DSN-administrator authority.
type hostT struct {
	name string
	kind string // SELECT INSERT UPDATE DELETE DDL
	f    func(m, j tbl, x string) string
}

var hosts = []hostT{
	{"select-list", "SELECT", func(m, j tbl, x string) string { return fmt.Sprintf("SELECT %s AS k FROM %s", x, m.name) }},
	{"select-where", "SELECT", func(m, j tbl, x string) string { return fmt.Sprintf("SELECT %s FROM %s WHERE %s", m.key, m.name, x) }},
	{"select-group-by", "SELECT", func(m, j tbl, x string) string { return fmt.Sprintf("SELECT count(*) FROM %s GROUP BY %s", m.name, x) }},
	{"select-having", "SELECT", func(m, j tbl, x string) string {
		return fmt.Sprintf("SELECT %s, count(*) FROM %s GROUP BY %s HAVING %s", m.col, m.name, m.col, x)
	}},
	{"select-order-by", "SELECT", func(m, j tbl, x string) string {
		return fmt.Sprintf("SELECT %s FROM %s ORDER BY %s DESC NULLS LAST", m.key, m.name, x)
	}},
	{"select-limit", "SELECT", func(m, j tbl, x string) string { return fmt.Sprintf("SELECT %s FROM %s LIMIT %s", m.key, m.name, x) }},
	{"select-offset", "SELECT", func(m, j tbl, x string) string {
		return fmt.Sprintf("SELECT %s FROM %s LIMIT 2 OFFSET %s", m.key, m.name, x)
	}},
	{"select-join-on", "SELECT", func(m, j tbl, x string) string {
		return fmt.Sprintf("SELECT %s.%s FROM %s JOIN %s ON %s", m.name, m.key, m.name, j.name, x)
	}},
	{"select-left-join-on", "SELECT", func(m, j tbl, x string) string {
		return fmt.Sprintf("SELECT %s.%s FROM %s LEFT OUTER JOIN %s AS jj ON %s WHERE jj.%s IS NOT NULL", m.name, m.key, m.name, j.name, x, j.key)
	}},
	{"select-derived", "SELECT", func(m, j tbl, x string) string { return fmt.Sprintf("SELECT * FROM (SELECT %s AS k) AS q", x) }},
	{"select-in-sub-where", "SELECT", func(m, j tbl, x string) string {
		return fmt.Sprintf("SELECT %s FROM %s WHERE %s IN (SELECT %s FROM %s WHERE %s)", m.key, m.name, m.key, j.key, j.name, x)
	}},
	{"select-cte", "SELECT", func(m, j tbl, x string) string { return fmt.Sprintf("WITH c AS (SELECT %s AS k) SELECT k FROM c", x) }},
	{"select-cte-unused", "SELECT", func(m, j tbl, x string) string {
		return fmt.Sprintf("WITH c AS (SELECT 1 AS k), c2 AS (SELECT %s AS k2) SELECT %s FROM %s, c2", x, m.key, m.name)
	}},
	{"select-union-right", "SELECT", func(m, j tbl, x string) string {
		return fmt.Sprintf("SELECT %s FROM %s UNION ALL SELECT %s", m.key, m.name, x)
	}},
	{"select-union-left", "SELECT", func(m, j tbl, x string) string {
		return fmt.Sprintf("SELECT %s UNION ALL SELECT %s FROM %s", x, m.key, m.name)
	}},
	{"select-union-middle", "SELECT", func(m, j tbl, x string) string {
		return fmt.Sprintf("SELECT %s FROM %s EXCEPT SELECT %s INTERSECT SELECT %s FROM %s", m.key, m.name, x, j.key, j.name)
	}},
	{"select-agg-arg", "SELECT", func(m, j tbl, x string) string { return fmt.Sprintf("SELECT max(%s) FROM %s", x, m.name) }},
	{"select-agg-filter", "SELECT", func(m, j tbl, x string) string {
		return fmt.Sprintf("SELECT count(*) FILTER (WHERE %s) FROM %s", x, m.name)
	}},
	{"select-distinct-list", "SELECT", func(m, j tbl, x string) string {
		return fmt.Sprintf("SELECT DISTINCT %s, %s AS k2 FROM %s", m.key, x, m.name)
	}},
	{"values-stmt", "SELECT", func(m, j tbl, x string) string { return fmt.Sprintf("VALUES (1, %s)", x) }},

	{"insert-values", "INSERT", func(m, j tbl, x string) string {
		return fmt.Sprintf("INSERT INTO %s (%s) VALUES (%s)", m.name, m.col, x)
	}},
	{"insert-values-row2", "INSERT", func(m, j tbl, x string) string {
		return fmt.Sprintf("INSERT INTO %s (%s) VALUES (1), (%s)", m.name, m.col, x)
	}},
	{"insert-select-list", "INSERT", func(m, j tbl, x string) string { return fmt.Sprintf("INSERT INTO %s (%s) SELECT %s", m.name, m.col, x) }},
	{"insert-select-where", "INSERT", func(m, j tbl, x string) string {
		return fmt.Sprintf("INSERT INTO %s (%s) SELECT %s FROM %s WHERE %s", m.name, m.col, j.key, j.name, x)
	}},
	{"insert-upsert-set", "INSERT", func(m, j tbl, x string) string {
		return fmt.Sprintf("INSERT INTO %s (%s, %s) VALUES (1, 1) ON CONFLICT (%s) DO UPDATE SET %s = %s", m.name, m.key, m.col, m.key, m.col, x)
	}},
	{"insert-upsert-where", "INSERT", func(m, j tbl, x string) string {
		return fmt.Sprintf("INSERT INTO %s (%s, %s) VALUES (1, 1) ON CONFLICT (%s) DO UPDATE SET %s = 1 WHERE %s", m.name, m.key, m.col, m.key, m.col, x)
	}},
	{"insert-conflict-target-where", "INSERT", func(m, j tbl, x string) string {
		return fmt.Sprintf("INSERT INTO %s (%s, %s) VALUES (1, 1) ON CONFLICT (%s) WHERE %s DO NOTHING", m.name, m.key, m.col, m.key, x)
	}},
	{"insert-returning", "INSERT", func(m, j tbl, x string) string {
		return fmt.Sprintf("INSERT INTO %s (%s) VALUES (1) RETURNING %s AS r", m.name, m.col, x)
	}},
	{"insert-inner-with", "INSERT", func(m, j tbl, x string) string {
		return fmt.Sprintf("INSERT INTO %s (%s) WITH c AS (SELECT %s AS k) SELECT k FROM c", m.name, m.col, x)
	}},
	{"insert-leading-with", "INSERT", func(m, j tbl, x string) string {
		return fmt.Sprintf("WITH c AS (SELECT %s AS k) INSERT INTO %s (%s) SELECT k FROM c", x, m.name, m.col)
	}},
	{"insert-or-replace-values", "INSERT", func(m, j tbl, x string) string {
		return fmt.Sprintf("INSERT OR REPLACE INTO %s (%s) VALUES (%s)", m.name, m.col, x)
	}},

	{"update-set", "UPDATE", func(m, j tbl, x string) string { return fmt.Sprintf("UPDATE %s SET %s = %s", m.name, m.col, x) }},
	{"update-set-second", "UPDATE", func(m, j tbl, x string) string {
		return fmt.Sprintf("UPDATE %s SET %s = %s, %s = %s WHERE %s = 1", m.name, m.key, m.key, m.col, x, m.key)
	}},
	{"update-set-row", "UPDATE", func(m, j tbl, x string) string {
		return fmt.Sprintf("UPDATE %s SET (%s, %s) = (%s, %s)", m.name, m.key, m.col, m.key, x)
	}},
	{"update-set-row-select", "UPDATE", func(m, j tbl, x string) string {
		return fmt.Sprintf("UPDATE %s SET (%s, %s) = (SELECT 1, %s) WHERE %s = 1", m.name, m.key, m.col, x, m.key)
	}},
	{"update-where", "UPDATE", func(m, j tbl, x string) string { return fmt.Sprintf("UPDATE %s SET %s = 1 WHERE %s", m.name, m.col, x) }},
	{"update-from-derived", "UPDATE", func(m, j tbl, x string) string {
		return fmt.Sprintf("UPDATE %s SET %s = 1 FROM (SELECT %s AS k) AS q", m.name, m.col, x)
	}},
	{"update-from-join-on", "UPDATE", func(m, j tbl, x string) string {
		return fmt.Sprintf("UPDATE %s SET %s = 1 FROM %s JOIN %s AS j2 ON %s", m.name, m.col, j.name, j.name, x)
	}},
	{"update-returning", "UPDATE", func(m, j tbl, x string) string {
		return fmt.Sprintf("UPDATE %s SET %s = 1 WHERE %s = 1 RETURNING %s", m.name, m.col, m.key, x)
	}},
	{"update-leading-with", "UPDATE", func(m, j tbl, x string) string {
		return fmt.Sprintf("WITH c AS (SELECT %s AS k) UPDATE %s SET %s = (SELECT k FROM c)", x, m.name, m.col)
	}},

	{"delete-where", "DELETE", func(m, j tbl, x string) string { return fmt.Sprintf("DELETE FROM %s WHERE %s", m.name, x) }},
	{"delete-returning", "DELETE", func(m, j tbl, x string) string {
		return fmt.Sprintf("DELETE FROM %s WHERE %s = 1 RETURNING %s", m.name, m.key, x)
	}},
	{"delete-leading-with", "DELETE", func(m, j tbl, x string) string {
		return fmt.Sprintf("WITH c AS (SELECT %s AS k) DELETE FROM %s WHERE %s IN (SELECT k FROM c)", x, m.name, m.key)
	}},

	{"ctas-list", "DDL", func(m, j tbl, x string) string { return fmt.Sprintf("CREATE TABLE n1 AS SELECT %s AS k", x) }},
	{"ctas-where", "DDL", func(m, j tbl, x string) string {
		return fmt.Sprintf("CREATE TABLE n1 AS SELECT %s FROM %s WHERE %s", m.key, m.name, x)
	}},
	{"create-view-body", "DDL", func(m, j tbl, x string) string { return fmt.Sprintf("CREATE VIEW nv AS SELECT %s AS k", x) }},
	{"create-index-where", "DDL", func(m, j tbl, x string) string {
		return fmt.Sprintf("CREATE INDEX ni ON %s (%s) WHERE %s", m.name, m.col, x)
	}},
	{"create-index-expr", "DDL", func(m, j tbl, x string) string { return fmt.Sprintf("CREATE INDEX ni ON %s ((%s))", m.name, x) }},
	{"create-table-check", "DDL", func(m, j tbl, x string) string { return fmt.Sprintf("CREATE TABLE n1 (x INTEGER CHECK (%s))", x) }},
	{"create-table-table-check", "DDL", func(m, j tbl, x string) string {
		return fmt.Sprintf("CREATE TABLE n1 (x INTEGER, CONSTRAINT ck CHECK (%s))", x)
	}},
	{"create-table-default", "DDL", func(m, j tbl, x string) string { return fmt.Sprintf("CREATE TABLE n1 (x INTEGER DEFAULT (%s))", x) }},
	{"create-table-generated", "DDL", func(m, j tbl, x string) string {
		return fmt.Sprintf("CREATE TABLE n1 (x INTEGER, y INTEGER GENERATED ALWAYS AS (%s) STORED)", x)
	}},
	{"alter-add-default", "DDL", func(m, j tbl, x string) string {
		return fmt.Sprintf("ALTER TABLE %s ADD COLUMN z INTEGER DEFAULT (%s)", m.name, x)
	}},
}

func hostByName(n string) hostT {
	for _, h := range hosts {
		if h.name == n {
			return h
		}
	}
	panic("no host " + n)
}

// sweepStmt builds host(wraps(leaf)) for the table triple (m, j, u).
func sweepStmt(h hostT, ws []wrapT, l leafT, m, j, u tbl) string {
	x := l.f(m, u)
	for _, w := range ws {
		x = strings.ReplaceAll(w.f, "{X}", x)
	}
	return h.f(m, j, x)
}

func sweepCase(h hostT, ws []wrapT, l leafT, perm int, route string, viaView bool) Case {
	perms := [][3]int{{0, 2, 1}, {0, 1, 2}, {2, 1, 0}, {1, 2, 0}, {1, 0, 2}, {2, 0, 1}}
	p := perms[perm%len(perms)]
	m, j, u := sweepTables[p[0]], sweepTables[p[1]], sweepTables[p[2]]
	drop := []string{u.name + ":read"}
	if viaView {
		// read t1 through the view: neither name may be read
		m, j = sweepTables[1], sweepTables[2]
		u = tbl{"v1", "a", "b"}
		drop = []string{"v1:read", "t1:read"}
	}
	g, adm := except(drop...)
	var slotNames []string
	for _, w := range ws {
		slotNames = append(slotNames, w.slot)
	}
	feat := []string{"sweep-host:" + h.name, "sweep-leaf:" + l.name}
	for _, s := range slotNames {
		feat = append(feat, "sweep-wrap:"+s)
	}
	c := Case{Stmts: []Stmt{{SQL: sweepStmt(h, ws, l, m, j, u), Kind: h.kind, Feat: feat}}, Route: route, Grants: g, DSNAdmin: adm, GrantMode: "sweep"}
	if route == "post" || route == "put" {
		c.Body = "string"
	}
	return c
}

// sweepFixed is the enumerated part: every host with the plain scalar leaf
// (both endpoints); every wrapper in one host of each statement kind; every
// leaf form in a SELECT and an UPDATE host; the view.
func sweepFixed() []Case {
	var out []Case
	routes := []string{"post", "tx"}
	n := 0
	next := func() string { n++; return routes[n%2] }
	for i, h := range hosts {
		out = append(out, sweepCase(h, nil, leaves[0], i, "post", false), sweepCase(h, nil, leaves[0], i+1, "tx", false))
	}
	kindHosts := []string{"select-where", "select-list", "insert-values", "update-set", "delete-where", "ctas-list"}
	for i, w := range wraps {
		for k, hn := range kindHosts {
			out = append(out, sweepCase(hostByName(hn), []wrapT{w}, leaves[0], i+k, next(), false))
		}
	}
	for i, l := range leaves[1:] {
		for k, hn := range []string{"select-where", "update-set", "insert-values", "delete-where"} {
			out = append(out, sweepCase(hostByName(hn), nil, l, i+k, next(), false))
		}
	}
	for _, hn := range []string{"select-where", "select-list", "update-set", "insert-select-list", "delete-where", "ctas-list"} {
		out = append(out, sweepCase(hostByName(hn), []wrapT{wraps[len(wraps)-5]}, leaves[0], 0, next(), true))
	}
	// PostgreSQL-only clause that reads tables: DELETE ... USING (unit twin
	// in the PostgreSQL dialect; there is no SQLite ground truth for it)
	for _, pg := range []struct {
		sql    string
		expect string
	}{
		{`DELETE FROM t1 USING t2 WHERE t1.a = t2.a`, "t2"},
		{`DELETE FROM t1 USING t3, t2 WHERE t1.a = t2.a`, "t2"},
		{`DELETE FROM t1 USING t3 JOIN t2 ON t3.id = t2.a WHERE t1.a = t2.a`, "t2"},
		{`DELETE FROM t1 USING (SELECT a FROM t2) AS q WHERE t1.a = q.a`, "t2"},
		{`DELETE FROM t1 USING t3 WHERE t1.a = CASE WHEN t3.id > 0 THEN 1 ELSE (SELECT a FROM t2 LIMIT 1) END`, "t2"},
	} {
		out = append(out, Case{Stmts: []Stmt{{SQL: pg.sql, Kind: "DELETE"}}, Route: "pgunit", Expect: []string{pg.expect}, Grants: []string{}, GrantMode: "sweep"})
	}
	return out
}

// genSweep draws a random host x 1-3 nested wrappers x leaf x table triple.
func genSweep(t *rapid.T) Case {
	h := hosts[rapid.IntRange(0, len(hosts)-1).Draw(t, "host")]
	nw := rapid.SampledFrom([]int{1, 1, 1, 2, 2, 3, 0}).Draw(t, "nwraps")
	var ws []wrapT
	for i := 0; i < nw; i++ {
		ws = append(ws, wraps[rapid.IntRange(0, len(wraps)-1).Draw(t, "wrap")])
	}
	l := leaves[rapid.IntRange(0, len(leaves)-1).Draw(t, "leaf")]
	route := rapid.SampledFrom([]string{"post", "tx", "post", "tx", "put", "txrows"}).Draw(t, "route")
	c := sweepCase(h, ws, l, rapid.IntRange(0, 5).Draw(t, "perm"), route, rapid.IntRange(0, 9).Draw(t, "view") == 0)
	switch rapid.IntRange(0, 9).Draw(t, "grantvariant") {
	case 0: // positive control: everything granted
		c.Grants, c.DSNAdmin = except()
		c.GrantMode = "sweep-all"
	case 1: // DSN-administrator authority missing as well
		c.DSNAdmin = false
	}
	if c.Route == "post" || c.Route == "put" {
		c.Body = rapid.SampledFrom([]string{"string", "array"}).Draw(t, "body")
	}
	return c
}
