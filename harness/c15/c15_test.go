// Package c15 decides C15 "SQL endpoints authorize every table the statement
// touches".
//
// A case is one to three SQL statements of the supported grammar (sqlgen, the
// SQLite-executable part), a route (POST or PUT /dsns/{dsn}/tables/@sql with a
// string or an array body; POST @transaction with "sql" tasks or one
// "readrows" task carrying SQL text) and a grant set for one non-administrator
// (ego.logon + ego.sql; DSN-level read+write on a restricted SQLite DSN; a
// subset of ego.table.read/write/update/delete on t1, t2, t3 and the view v1;
// DSN-level admin or not). The grants are made by the administrator through
// the real endpoints (PUT /dsns/{dsn}/tables/{t}/permissions?user=,
// POST /dsns/@permissions).
//
// Oracle. Ground truth comes from SQLite, never from ego's analyzer: every
// statement text that the server passed to the database driver during the
// request (hook H5) is EXPLAINed on a scratch database with the same schema;
// OpenRead/OpenWrite root pages map to tables through sqlite_master, and
// Destroy/CreateBtree/ParseSchema/... or a leading CREATE/DROP/ALTER mark a
// schema change. From that:
//
//	needs(statement) =
//	  schema change            -> DSN-administrator authority
//	  otherwise, table written -> ego.table.write (INSERT) / update (UPDATE) / delete (DELETE)
//	  table read               -> ego.table.read, for every table that is read
//	                              and is neither written by the same statement
//	                              nor the object the DDL statement itself names
//
// A request that answers 2xx (or that answers anything else but left the
// database changed) while a need is not covered by the caller's grants is a
// violation. Denials are never judged. A read need on a table under a view is
// also covered by a read grant on that view when the statement names the view
// (the property does not say which of the two is required).
//
// Unit-level twin (no server): for every generated statement that parses,
// sqlparse's Tables() must cover the EXPLAIN ground truth of the statement as
// written: reads ⊆ analyzer reads ∪ writes (a view name covers the tables under
// it), writes ⊆ analyzer writes, and a schema-changing statement must be
// classified as one (a UsageAdmin entry or a DDL StatementKind).
//
// Signatures. When the analyzer does not report a table that is read, the
// signature names the edge of ego's parse tree it fails to follow, found by
// walking the tree by reflection: "read: CaseExpr.Else not in Children()" or
// "read: UpdateStmt.Set not walked by Tables()". Otherwise, when the analyzer
// does not report the need, the signature is "<KIND> <read|write>@<clause>" (the top-level
// clause of the statement text that names the uncovered table: select-list,
// from, join-on, where, group-by, having, order-by, limit, with, set, values,
// insert-select, on-conflict, returning, ddl-select, target) or "<KIND> ddl".
// When the analyzer reports it and the endpoint still answers 2xx, the cause is
// the endpoint: "read not enforced route=…", "<KIND> write route=…",
// "<KIND> ddl route=…".
//
// The fixture refuses to start unless a plain SELECT succeeds with every grant
// (otherwise "refusals are never judged" would make the check vacuous); the
// opposite direction is the first fixed case.
//
// Deliberately not asserted (the statement does not fix them):
//   - which extra permission an upsert (ON CONFLICT DO UPDATE) or INSERT OR
//     REPLACE needs: the INSERT permission is taken as "matching";
//   - read permission on the table a DML statement writes (WHERE / RETURNING on
//     the target): the write permission is taken to cover it, as the row
//     endpoints do;
//   - table-level permissions on the object of a DDL statement: only
//     DSN-administrator authority is required;
//   - table-valued functions / virtual tables / the temp schema: no need is
//     derived from them;
//   - that the caller needs ego.sql at all (not in the statement).
//
// Preconditions taken from callers: the permission store is the
// database-backed one (UserStore sqlite): with a file user store ego has no
// table_perms store and allows everything; grants use the documented
// permission names; the user name is lower-case; statements are single
// statements per array element / task (the string body form joins them with
// ";" as the documentation shows).
package c15

import (
	"database/sql"
	"encoding/json"
	"fmt"
	"os"
	"path/filepath"
	"sort"
	"strings"
	"sync"
	"testing"

	"github.com/tucats/ego/internal/server/tables/database"
	"github.com/tucats/ego/internal/sqlparse"
	"github.com/tucats/ego/internal/sqlparse/ast"
	"github.com/tucats/ego/verif/sqlgen"
	"github.com/tucats/ego/verif/sqlitex"
	"github.com/tucats/ego/verif/srvfix"
	"github.com/tucats/ego/verif/vkit"
	_ "modernc.org/sqlite"
	"pgregory.net/rapid"
)

// ---------------------------------------------------------------- case data

// Stmt is one statement of a case. Kind and Feat are the generator's labels
// (used for histograms only, never for the verdict).
type Stmt struct {
	SQL  string   `json:"sql"`
	Kind string   `json:"kind,omitempty"`
	Feat []string `json:"features,omitempty"`
}

// Case is one request by the non-administrator under one grant set.
type Case struct {
	Stmts []Stmt `json:"stmts"`
	// Route: post | put (…/@sql), tx (@transaction, one "sql" task per
	// statement), txrows (@transaction, one "readrows" task with SQL text).
	Route string `json:"route"`
	// Body (post/put only): "string" (one JSON string, statements joined by
	// ";") or "array".
	Body string `json:"body,omitempty"`
	// Grants: sorted "table:perm" with perm in read write update delete.
	Grants   []string `json:"grants"`
	DSNAdmin bool     `json:"dsn_admin"`
	// GrantMode is the generator's label for how Grants was drawn.
	GrantMode string `json:"grant_mode,omitempty"`
	// Expect (route "pgunit" only): tables the statement, parsed in the
	// PostgreSQL dialect, must be reported to read.
	Expect []string `json:"expect,omitempty"`
}

var (
	grantTables = []string{"t1", "t2", "t3", "v1"}
	grantPerms  = []string{"read", "write", "update", "delete"}
)

const (
	dsnName  = "c15r"
	userName = "c15u"
	password = "Passw0rd!c15"
)

// ------------------------------------------------------------ SQL tokenizer
//
// A small SQLite-flavoured tokenizer, used to name the statement kind, the DDL
// object and the clause ("expression position") a table is mentioned in. It
// never decides what a statement touches: that is EXPLAIN's job.

type tok struct {
	s      string // text (unquoted for quoted identifiers)
	quoted bool   // "x", `x`, [x]
	str    bool   // 'x'
	punct  bool
	depth  int // parenthesis depth at the token
}

func (t tok) word() bool { return !t.quoted && !t.str && !t.punct }

func (t tok) is(w string) bool { return t.word() && strings.EqualFold(t.s, w) }

func lex(text string) []tok {
	var out []tok
	depth := 0
	n := len(text)
	for i := 0; i < n; {
		c := text[i]
		switch {
		case c == 0:
			return out
		case c == ' ' || c == '\t' || c == '\n' || c == '\r' || c == '\f':
			i++
		case c == '-' && i+1 < n && text[i+1] == '-':
			j := strings.IndexByte(text[i:], '\n')
			if j < 0 {
				i = n
			} else {
				i += j + 1
			}
		case c == '/' && i+1 < n && text[i+1] == '*':
			j := strings.Index(text[i+2:], "*/")
			if j < 0 {
				i = n
			} else {
				i += j + 4
			}
		case c == '\'' || c == '"' || c == '`':
			var b strings.Builder
			i++
			for i < n {
				if text[i] == c {
					if i+1 < n && text[i+1] == c {
						b.WriteByte(c)
						i += 2
						continue
					}
					break
				}
				b.WriteByte(text[i])
				i++
			}
			i++
			out = append(out, tok{s: b.String(), quoted: c != '\'', str: c == '\'', depth: depth})
		case c == '[':
			j := strings.IndexByte(text[i:], ']')
			if j < 0 {
				out = append(out, tok{s: text[i+1:], quoted: true, depth: depth})
				i = n
			} else {
				out = append(out, tok{s: text[i+1 : i+j], quoted: true, depth: depth})
				i += j + 1
			}
		case c == '(':
			out = append(out, tok{s: "(", punct: true, depth: depth})
			depth++
			i++
		case c == ')':
			if depth > 0 {
				depth--
			}
			out = append(out, tok{s: ")", punct: true, depth: depth})
			i++
		case c == '_' || c >= 0x80 || (c >= 'a' && c <= 'z') || (c >= 'A' && c <= 'Z') || (c >= '0' && c <= '9'):
			j := i
			for j < n && (text[j] == '_' || text[j] == '$' || text[j] >= 0x80 || (text[j] >= 'a' && text[j] <= 'z') || (text[j] >= 'A' && text[j] <= 'Z') || (text[j] >= '0' && text[j] <= '9')) {
				j++
			}
			out = append(out, tok{s: text[i:j], depth: depth})
			i = j
		default:
			out = append(out, tok{s: string(c), punct: true, depth: depth})
			i++
		}
	}
	return out
}

// shape is what the tokenizer can say about a statement.
type shape struct {
	toks   []tok
	verb   string   // SELECT INSERT UPDATE DELETE CREATE DROP ALTER or ""
	kind   string   // verb, or "CREATE INDEX" etc. for DDL
	clause []string // per token: the top-level clause it belongs to
	object []string // DDL: lower-cased names the statement itself creates/alters/drops
}

func analyzeText(text string) *shape {
	sh := &shape{toks: lex(text)}
	sh.clause = make([]string, len(sh.toks))
	cur := "start"
	inConflict, insSel, ddl := false, false, false
	set := func(c string) {
		switch {
		case ddl:
			if cur != "ddl-select" {
				cur = "ddl"
			}
		case inConflict:
			cur = "on-conflict"
		case insSel:
			cur = "insert-select"
		default:
			cur = c
		}
	}
	for i, t := range sh.toks {
		if t.depth == 0 && t.punct && t.s == "," && cur == "join-on" {
			cur = "from" // "a JOIN b ON x, c": the comma ends the ON expression
		}
		if t.depth == 0 && t.word() {
			switch strings.ToUpper(t.s) {
			case "WITH":
				if sh.verb == "" {
					cur = "with"
				} else if sh.verb == "INSERT" && !inConflict {
					// INSERT INTO t WITH ... SELECT: part of the source
					insSel = true
					cur = "insert-select"
				}
			case "SELECT":
				switch {
				case sh.verb == "":
					sh.verb = "SELECT"
					cur = "select-list"
				case ddl:
					cur = "ddl-select"
				case sh.verb == "INSERT" && !inConflict:
					insSel = true
					cur = "insert-select"
				default:
					set("select-list")
				}
			case "VALUES":
				if sh.verb == "" {
					sh.verb = "SELECT"
				}
				set("values")
			case "INSERT", "REPLACE":
				if sh.verb == "" {
					sh.verb = "INSERT"
					cur = "target"
				}
			case "UPDATE":
				if sh.verb == "" {
					sh.verb = "UPDATE"
					cur = "target"
				}
			case "DELETE":
				if sh.verb == "" {
					sh.verb = "DELETE"
					cur = "target"
				}
			case "CREATE", "DROP", "ALTER":
				if sh.verb == "" {
					sh.verb = strings.ToUpper(t.s)
					ddl = true
					cur = "ddl"
				}
			case "FROM":
				if i >= 2 && sh.toks[i-1].is("DISTINCT") && (sh.toks[i-2].is("IS") || sh.toks[i-2].is("NOT")) {
					break // the operator IS [NOT] DISTINCT FROM
				}
				if !(sh.verb == "DELETE" && cur == "target") {
					set("from")
				}
			case "JOIN", "USING":
				set("from")
			case "ON":
				if ddl {
					break // a constraint's ON CONFLICT / ON DELETE clause
				}
				if i+1 < len(sh.toks) && sh.toks[i+1].is("CONFLICT") {
					inConflict, insSel = true, false
					cur = "on-conflict"
				} else if cur == "from" {
					set("join-on")
				}
			case "WHERE":
				set("where")
			case "GROUP":
				set("group-by")
			case "HAVING":
				set("having")
			case "ORDER":
				set("order-by")
			case "LIMIT", "OFFSET":
				set("limit")
			case "SET":
				set("set")
			case "RETURNING":
				inConflict, insSel = false, false
				cur = "returning"
			}
		}
		sh.clause[i] = cur
	}
	sh.kind = sh.verb
	if ddl {
		sh.kind, sh.object = ddlObject(sh.toks)
	}
	return sh
}

// ddlObject names the kind ("CREATE INDEX") and the object(s) of a DDL
// statement: the table/view/index name and, for CREATE INDEX, the table after
// ON.
func ddlObject(toks []tok) (string, []string) {
	if len(toks) == 0 {
		return "", nil
	}
	kind := strings.ToUpper(toks[0].s)
	i := 1
	for i < len(toks) && (toks[i].is("UNIQUE") || toks[i].is("TEMP") || toks[i].is("TEMPORARY") || toks[i].is("OR") || toks[i].is("REPLACE")) {
		i++
	}
	if i >= len(toks) || !toks[i].word() {
		return kind, nil
	}
	otype := strings.ToUpper(toks[i].s)
	kind += " " + otype
	i++
	for i < len(toks) && (toks[i].is("IF") || toks[i].is("NOT") || toks[i].is("EXISTS")) {
		i++
	}
	name := func(i int) (string, int) {
		if i >= len(toks) || toks[i].punct || toks[i].str {
			return "", i
		}
		n := toks[i].s
		i++
		for i+1 < len(toks) && toks[i].punct && toks[i].s == "." && !toks[i+1].punct {
			n = toks[i+1].s
			i += 2
		}
		return strings.ToLower(n), i
	}
	var objs []string
	n, i := name(i)
	if n != "" {
		objs = append(objs, n)
	}
	if otype == "INDEX" && toks[0].is("CREATE") {
		for ; i < len(toks); i++ {
			if toks[i].depth == 0 && toks[i].is("ON") {
				if t, _ := name(i + 1); t != "" {
					objs = append(objs, t)
				}
				break
			}
		}
	}
	return kind, objs
}

// mentions reports whether the statement names the identifier in a position
// that can be a table reference (not a column qualifier, not a function).
func (sh *shape) mentionIdx(name string) []int {
	var out []int
	for i, t := range sh.toks {
		if t.str || t.punct || !strings.EqualFold(t.s, name) {
			continue
		}
		if i+1 < len(sh.toks) && sh.toks[i+1].punct {
			// a column qualifier (t1.a) or a function call; "INSERT INTO t1 (b)"
			// is neither
			if nx := sh.toks[i+1].s; nx == "." || (nx == "(" && sh.clause[i] != "target" && sh.clause[i] != "ddl") {
				continue
			}
		}
		out = append(out, i)
	}
	return out
}

func (sh *shape) mentions(name string) bool { return len(sh.mentionIdx(name)) > 0 }

// position is the top-level clause holding the (first non-target) mention of
// the table; "?" when the text does not name it.
func (sh *shape) position(name string, wantTarget bool) string {
	idx := sh.mentionIdx(name)
	if name == "sqlite_master" {
		for _, alias := range catalogueAliases {
			idx = append(idx, sh.mentionIdx(alias)...)
		}
		sort.Ints(idx)
	}
	if len(idx) == 0 {
		return "?"
	}
	for _, i := range idx {
		if (sh.clause[i] == "target") == wantTarget {
			return sh.clause[i]
		}
	}
	return sh.clause[idx[0]]
}

// --------------------------------------------------------------- ground truth

// catalogueAliases are the other names SQLite accepts for sqlite_master.
var catalogueAliases = []string{"sqlite_schema", "sqlite_temp_master", "sqlite_temp_schema"}

// need is one permission the property requires for a statement.
type need struct {
	Table string // lower-case table name; "" for dsnadmin
	Perm  string // read write update delete dsnadmin
	Mode  string // read write ddl
	Pos   string // clause of the statement text that names the table
	Kind  string // statement kind (tokenizer)
}

func (n need) sig() string {
	if n.Mode == "ddl" {
		return n.Kind + " ddl"
	}
	return fmt.Sprintf("%s %s@%s", n.Kind, n.Mode, strings.TrimSuffix(n.Pos, "(view)"))
}

// label is sig plus the marker for a table reached through a view.
func (n need) label() string {
	if strings.HasSuffix(n.Pos, "(view)") {
		return n.sig() + "(view)"
	}
	return n.sig()
}

func (n need) String() string {
	if n.Mode == "ddl" {
		return "DSN-administrator authority (schema change)"
	}
	return fmt.Sprintf("ego.table.%s on %s (%s in %s)", n.Perm, n.Table, n.Mode, n.Pos)
}

type truth struct {
	sh     *shape
	acc    *sqlitex.Access
	err    error // EXPLAIN refused the text
	schema bool
	needs  []need
	reads  []string // reads that count (other than written tables / DDL object)
}

func contains(l []string, s string) bool {
	for _, x := range l {
		if x == s {
			return true
		}
	}
	return false
}

// truthOf derives the needs of one statement text from EXPLAIN.
func (e *env) truthOf(text string, nparams int) *truth {
	tr := &truth{sh: analyzeText(text)}
	sh := tr.sh
	ddlVerb := sh.verb == "CREATE" || sh.verb == "DROP" || sh.verb == "ALTER"
	tr.acc, tr.err = e.ex.Explain(text, nparams)
	if tr.err != nil {
		// SQLite cannot prepare it on this schema; only the syntactic class
		// is known.
		tr.schema = ddlVerb
		if ddlVerb {
			tr.needs = append(tr.needs, need{Perm: "dsnadmin", Mode: "ddl", Kind: sh.kind})
		}
		return tr
	}
	tr.schema = ddlVerb || tr.acc.SchemaChange
	if tr.schema {
		tr.needs = append(tr.needs, need{Perm: "dsnadmin", Mode: "ddl", Kind: sh.kind})
	} else {
		perm := map[string]string{"INSERT": "write", "UPDATE": "update", "DELETE": "delete"}[sh.verb]
		for _, w := range tr.acc.Writes {
			if perm == "" {
				// a write by something that is not INSERT/UPDATE/DELETE/DDL:
				// nothing in the grammar does that; keep it visible
				perm = "write"
			}
			tr.needs = append(tr.needs, need{Table: w, Perm: perm, Mode: "write", Pos: sh.position(w, true), Kind: sh.kind})
		}
	}
	for _, r := range tr.acc.Reads {
		if contains(tr.acc.Writes, r) {
			continue
		}
		if tr.schema && (r == "sqlite_master" || contains(sh.object, r)) {
			continue
		}
		if tr.schema && strings.HasPrefix(sh.kind, "DROP INDEX") {
			// the index's own table
			if len(sh.object) > 0 && e.indexTable[sh.object[0]] == r {
				continue
			}
		}
		tr.reads = append(tr.reads, r)
		pos := sh.position(r, false)
		if pos == "?" {
			for _, v := range e.viewsOver(r) {
				if p := sh.position(v, false); p != "?" {
					pos = p + "(view)"
					break
				}
			}
		}
		tr.needs = append(tr.needs, need{Table: r, Perm: "read", Mode: "read", Pos: pos, Kind: sh.kind})
	}
	return tr
}

// viewsOver lists the views of the seed schema that read table t.
func (e *env) viewsOver(t string) []string {
	var out []string
	for _, v := range e.viewNames {
		if contains(e.viewTables[v], t) {
			out = append(out, v)
		}
	}
	return out
}

// covered reports whether the grant set satisfies the need for a statement
// with the given text shape.
func (e *env) covered(n need, sh *shape, grants map[string]bool, dsnAdmin bool) bool {
	switch n.Mode {
	case "ddl":
		return dsnAdmin
	case "write":
		return grants[n.Table+":"+n.Perm]
	default:
		if grants[n.Table+":read"] {
			return true
		}
		for _, v := range e.viewsOver(n.Table) {
			if sh.mentions(v) && grants[v+":read"] {
				return true
			}
		}
		return false
	}
}

// ------------------------------------------------------------- unit-level twin

type twin struct {
	stmt   ast.Statement
	parsed bool
	perr   string
	kind   string
	usage  string // rendering of Tables()
	fail   *need  // first need the analyzer does not cover
}

var ddlKinds = map[sqlparse.StatementKind]bool{
	sqlparse.StmtCreateTable: true, sqlparse.StmtDropTable: true, sqlparse.StmtAlterTable: true,
	sqlparse.StmtCreateIndex: true, sqlparse.StmtDropIndex: true, sqlparse.StmtCreateView: true, sqlparse.StmtDropView: true,
}

func baseLower(name string) string {
	if i := strings.LastIndex(name, "."); i >= 0 {
		name = name[i+1:]
	}
	return strings.ToLower(name)
}

// unitTwin checks that sqlparse's Tables() covers the EXPLAIN ground truth of
// text.
func (e *env) unitTwin(text string, tr *truth, dialect int) twin {
	var tw twin
	p, err := sqlparse.New(text, dialect)
	if err != nil {
		tw.perr = err.Error()
		return tw
	}
	tw.parsed = true
	tw.stmt = p.Statement()
	tw.kind = p.StatementKind().String()
	aR, aW, admin := map[string]bool{}, map[string]bool{}, false
	var parts []string
	for _, u := range p.Tables() {
		parts = append(parts, u.Usage.String()+":"+u.Name)
		switch u.Usage {
		case sqlparse.UsageRead:
			aR[baseLower(u.Name)] = true
		case sqlparse.UsageWrite:
			aW[baseLower(u.Name)] = true
		case sqlparse.UsageAdmin:
			admin = true
		}
	}
	tw.usage = "[" + strings.Join(parts, " ") + "]"
	for i := range tr.needs {
		n := tr.needs[i]
		ok := false
		switch n.Mode {
		case "ddl":
			// classified as a schema change either way: by a UsageAdmin
			// entry or by the statement kind (which of the two an endpoint
			// consults is the endpoint's business, judged by the server
			// layer)
			ok = admin || ddlKinds[p.StatementKind()]
		case "write":
			ok = aW[n.Table]
		default:
			ok = aR[n.Table] || aW[n.Table]
			if n.Table == "sqlite_master" {
				for _, alias := range catalogueAliases {
					ok = ok || aR[alias]
				}
			}
			for _, v := range e.viewsOver(n.Table) {
				if aR[v] || aW[v] {
					ok = true
				}
			}
		}
		if !ok {
			tw.fail = &n
			return tw
		}
	}
	return tw
}

// ------------------------------------------------------------- environment

type traced struct {
	kind, text string
	nparams    int
}

type env struct {
	f          *srvfix.Fixture
	admin      map[string]string
	user       map[string]string
	file       string
	db         *sql.DB // independent connection to the DSN's database
	ex         *sqlitex.Explainer
	seedPrint  string
	viewNames  []string
	viewTables map[string][]string
	indexTable map[string]string
	curGrants  map[string]string // table -> "read,write" currently granted
	curAdmin   int               // -1 unknown, 0 no, 1 yes
	mu         sync.Mutex
	trace      []traced
}

var (
	envOnce sync.Once
	theEnv  *env
	envErr  error
)

func getEnv() (*env, error) {
	envOnce.Do(func() { theEnv, envErr = startEnv() })
	return theEnv, envErr
}

func hdr(tok string) map[string]string {
	h := srvfix.Bearer(tok)
	h["Content-Type"] = "application/json"
	return h
}

func makeDB(file string) (*sql.DB, error) {
	db, err := sql.Open("sqlite", file)
	if err != nil {
		return nil, err
	}
	db.SetMaxOpenConns(1)
	for _, pragma := range []string{"PRAGMA busy_timeout=20000", "PRAGMA synchronous=OFF"} {
		if _, err := db.Exec(pragma); err != nil {
			return nil, err
		}
	}
	for _, s := range sqlgen.Setup() {
		if _, err := db.Exec(s); err != nil {
			return nil, fmt.Errorf("%s: %w", s, err)
		}
	}
	return db, nil
}

func startEnv() (*env, error) {
	f, err := srvfix.Start(srvfix.Options{UserStore: "sqlite", Settings: map[string]string{"ego.server.token.expiration": "96h"}})
	if err != nil {
		return nil, err
	}
	e := &env{f: f, curGrants: map[string]string{}, curAdmin: -1, viewTables: map[string][]string{}, indexTable: map[string]string{}}
	tok, err := f.AdminToken()
	if err != nil {
		return nil, err
	}
	e.admin = hdr(tok)
	if err := f.CreateUser(tok, userName, password, []string{"ego.logon", "ego.sql"}); err != nil {
		return nil, err
	}
	ut, err := f.Logon(userName, password)
	if err != nil {
		return nil, err
	}
	e.user = hdr(ut)

	// the DSN's database and the scratch database EXPLAIN runs on: same
	// statements, separate files
	e.file = filepath.Join(f.Dir, "c15.db")
	if e.db, err = makeDB(e.file); err != nil {
		return nil, err
	}
	scratch := filepath.Join(f.Dir, "c15-scratch.db")
	sdb, err := makeDB(scratch)
	if err != nil {
		return nil, err
	}
	rows, err := sdb.Query(`SELECT type, name, tbl_name FROM sqlite_master ORDER BY name`)
	if err != nil {
		return nil, err
	}
	for rows.Next() {
		var ty, name, tbl string
		if err := rows.Scan(&ty, &name, &tbl); err != nil {
			return nil, err
		}
		switch ty {
		case "view":
			e.viewNames = append(e.viewNames, strings.ToLower(name))
		case "index":
			e.indexTable[strings.ToLower(name)] = strings.ToLower(tbl)
		}
	}
	rows.Close()
	sdb.Close()
	if e.ex, err = sqlitex.OpenExplainer(scratch); err != nil {
		return nil, err
	}
	for _, v := range e.viewNames {
		acc, err := e.ex.Explain(`SELECT * FROM "`+v+`"`, 0)
		if err != nil {
			return nil, fmt.Errorf("explain view %s: %w", v, err)
		}
		e.viewTables[v] = acc.Reads
	}
	if e.seedPrint, err = e.fingerprint(); err != nil {
		return nil, err
	}

	if err := f.CreateSQLiteDSN(tok, dsnName, e.file, true); err != nil {
		return nil, err
	}
	b, _ := json.Marshal(map[string]any{"dsn": dsnName, "user": userName, "actions": []string{"+ego.dsn.read", "+ego.dsn.write"}})
	if r := f.Do(srvfix.Request{Method: "POST", Path: "/dsns/@permissions", Header: e.admin, Body: string(b)}); r.Status/100 != 2 {
		return nil, fmt.Errorf("dsn grant: %d %s", r.Status, r.Body)
	}
	database.VerifSetSQLTrace(func(kind, text string, params []any) {
		e.mu.Lock()
		e.trace = append(e.trace, traced{kind, text, len(params)})
		e.mu.Unlock()
	})

	// liveness: with every grant a plain read succeeds; otherwise every
	// later verdict would be vacuous (nothing is ever allowed). The opposite
	// direction (no grant -> refused) is an instance of the property itself
	// and is judged by the first fixed cases.
	all := Case{Grants: allGrants(), DSNAdmin: true}
	if err := e.applyGrants(all); err != nil {
		return nil, err
	}
	for _, route := range []string{"post", "tx"} {
		if r := e.send(Case{Stmts: []Stmt{{SQL: "SELECT a FROM t1"}}, Route: route, Body: "string"}); r.Status != 200 {
			return nil, fmt.Errorf("liveness: full grants, %s SELECT a FROM t1 -> %d %s", route, r.Status, r.Body)
		}
	}
	return e, nil
}

func allGrants() []string {
	var g []string
	for _, t := range grantTables {
		for _, p := range grantPerms {
			g = append(g, t+":"+p)
		}
	}
	sort.Strings(g)
	return g
}

// applyGrants brings the user's table-level grants and DSN-level admin grant
// to what the case says, through the administrator's endpoints. Only tables
// whose grant set differs from what is in force are touched.
func (e *env) applyGrants(c Case) error {
	want := map[string][]string{}
	for _, g := range c.Grants {
		i := strings.IndexByte(g, ':')
		if i < 0 {
			return fmt.Errorf("bad grant %q", g)
		}
		want[g[:i]] = append(want[g[:i]], g[i+1:])
	}
	for _, t := range grantTables {
		ps := want[t]
		sort.Strings(ps)
		key := strings.Join(ps, ",")
		if cur, ok := e.curGrants[t]; ok && cur == key {
			continue
		}
		var body []string
		for _, p := range grantPerms {
			sign := "-"
			if contains(ps, p) {
				sign = "+"
			}
			body = append(body, sign+"ego.table."+p)
		}
		b, _ := json.Marshal(body)
		path := fmt.Sprintf("/dsns/%s/tables/%s/permissions?user=%s", dsnName, t, userName)
		if r := e.f.Do(srvfix.Request{Method: "PUT", Path: path, Header: e.admin, Body: string(b)}); r.Status/100 != 2 {
			return fmt.Errorf("PUT %s %s -> %d %s", path, b, r.Status, r.Body)
		}
		e.curGrants[t] = key
	}
	wantAdmin := 0
	if c.DSNAdmin {
		wantAdmin = 1
	}
	if e.curAdmin != wantAdmin {
		act := "-ego.dsn.admin"
		if c.DSNAdmin {
			act = "+ego.dsn.admin"
		}
		b, _ := json.Marshal(map[string]any{"dsn": dsnName, "user": userName, "actions": []string{act}})
		if r := e.f.Do(srvfix.Request{Method: "POST", Path: "/dsns/@permissions", Header: e.admin, Body: string(b)}); r.Status/100 != 2 {
			return fmt.Errorf("POST /dsns/@permissions %s -> %d %s", b, r.Status, r.Body)
		}
		e.curAdmin = wantAdmin
	}
	return nil
}

// send issues the case's request as the non-administrator.
func (e *env) send(c Case) *srvfix.Response {
	var texts []string
	for _, s := range c.Stmts {
		texts = append(texts, s.SQL)
	}
	var method, path, body string
	switch c.Route {
	case "tx", "txrows":
		method, path = "POST", "/dsns/"+dsnName+"/tables/@transaction"
		op := "sql"
		if c.Route == "txrows" {
			op = "readrows"
		}
		var tasks []map[string]any
		for _, t := range texts {
			tasks = append(tasks, map[string]any{"operation": op, "sql": t})
		}
		b, _ := json.Marshal(tasks)
		body = string(b)
	default:
		method, path = "POST", "/dsns/"+dsnName+"/tables/@sql"
		if c.Route == "put" {
			method = "PUT"
		}
		var b []byte
		if c.Body == "array" {
			b, _ = json.Marshal(texts)
		} else {
			b, _ = json.Marshal(strings.Join(texts, ";\n"))
		}
		body = string(b)
	}
	e.mu.Lock()
	e.trace = nil
	e.mu.Unlock()
	return e.f.Do(srvfix.Request{Method: method, Path: path, Header: e.user, Body: body})
}

func (e *env) takeTrace() []traced {
	e.mu.Lock()
	defer e.mu.Unlock()
	t := e.trace
	e.trace = nil
	return t
}

// fingerprint renders schema and contents of the DSN's database (through the
// independent connection).
func (e *env) fingerprint() (string, error) {
	var b strings.Builder
	rows, err := e.db.Query(`SELECT type, name, tbl_name, coalesce(sql,'') FROM sqlite_master WHERE name NOT LIKE 'sqlite_%' ORDER BY type, name`)
	if err != nil {
		return "", err
	}
	var tables []string
	for rows.Next() {
		var ty, name, tbl, text string
		if err := rows.Scan(&ty, &name, &tbl, &text); err != nil {
			rows.Close()
			return "", err
		}
		fmt.Fprintf(&b, "%s|%s|%s|%s\n", ty, name, tbl, text)
		if ty == "table" {
			tables = append(tables, name)
		}
	}
	rows.Close()
	if err := rows.Err(); err != nil {
		return "", err
	}
	for _, t := range tables {
		rs, err := e.db.Query(`SELECT * FROM "` + strings.ReplaceAll(t, `"`, `""`) + `"`)
		if err != nil {
			return "", err
		}
		cols, _ := rs.Columns()
		var lines []string
		for rs.Next() {
			vals := make([]any, len(cols))
			ptrs := make([]any, len(cols))
			for i := range vals {
				ptrs[i] = &vals[i]
			}
			if err := rs.Scan(ptrs...); err != nil {
				rs.Close()
				return "", err
			}
			lines = append(lines, fmt.Sprintf("%#v", vals))
		}
		rs.Close()
		sort.Strings(lines)
		fmt.Fprintf(&b, "== %s %v\n%s\n", t, cols, strings.Join(lines, "\n"))
	}
	return b.String(), nil
}

// restore rebuilds the seed schema and data.
func (e *env) restore() error {
	tx, err := e.db.Begin()
	if err != nil {
		return err
	}
	defer tx.Rollback()
	rows, err := tx.Query(`SELECT type, name FROM sqlite_master WHERE name NOT LIKE 'sqlite_%' ORDER BY CASE type WHEN 'view' THEN 0 WHEN 'trigger' THEN 1 WHEN 'table' THEN 2 ELSE 3 END, name`)
	if err != nil {
		return err
	}
	type obj struct{ ty, name string }
	var objs []obj
	for rows.Next() {
		var o obj
		if err := rows.Scan(&o.ty, &o.name); err != nil {
			rows.Close()
			return err
		}
		objs = append(objs, o)
	}
	rows.Close()
	for _, o := range objs {
		q := `"` + strings.ReplaceAll(o.name, `"`, `""`) + `"`
		var stmt string
		switch o.ty {
		case "view":
			stmt = "DROP VIEW IF EXISTS " + q
		case "trigger":
			stmt = "DROP TRIGGER IF EXISTS " + q
		case "table":
			stmt = "DROP TABLE IF EXISTS " + q
		default:
			stmt = "DROP INDEX IF EXISTS " + q
		}
		if _, err := tx.Exec(stmt); err != nil {
			return fmt.Errorf("%s: %w", stmt, err)
		}
	}
	for _, s := range sqlgen.Setup() {
		if _, err := tx.Exec(s); err != nil {
			return fmt.Errorf("%s: %w", s, err)
		}
	}
	return tx.Commit()
}

// ------------------------------------------------------------------ oracle

func clip(s string, n int) string {
	s = strings.Join(strings.Fields(s), " ")
	if len(s) > n {
		return s[:n] + "…"
	}
	return s
}

func statusClass(s int) string {
	switch {
	case s/100 == 2:
		return "2xx"
	case s == 400, s == 403, s == 404, s == 409, s == 500:
		return fmt.Sprint(s)
	default:
		return fmt.Sprintf("other(%d)", s)
	}
}

func oracle(c Case) vkit.Outcome {
	var out vkit.Outcome
	e, err := getEnv()
	if err != nil {
		panic("c15 fixture: " + err.Error())
	}
	grants := map[string]bool{}
	for _, g := range c.Grants {
		grants[g] = true
	}
	label := func(s string) { out.Labels = append(out.Labels, s) }
	if c.Route == "pgunit" {
		return pgUnit(c)
	}
	label("route:" + c.Route)
	label(fmt.Sprintf("stmts:%d", len(c.Stmts)))
	if c.GrantMode != "" {
		label("grants:" + c.GrantMode)
	}

	// ---- what the statements as written need, and the unit-level twin
	var unitFail *vkit.Failure
	unitSigs := map[string]string{} // every need the analyzer fails to report: clause signature -> reported signature
	uncoveredAsWritten := 0
	allSelect := true
	for _, s := range c.Stmts {
		tr := e.truthOf(s.SQL, 0)
		label("kind:" + tr.sh.kind)
		if tr.sh.verb != "SELECT" {
			allSelect = false
		}
		for _, f := range s.Feat {
			if strings.HasPrefix(f, "subq@") {
				label("feat:" + f)
			}
			if strings.HasPrefix(f, "sweep-") {
				label(f)
			}
		}
		if tr.err != nil {
			label("explain:error")
		} else {
			label("explain:ok")
			if len(tr.acc.Virtual) > 0 {
				label("explain:virtual-or-temp")
			}
			if len(tr.acc.UnknownRoots) > 0 {
				label("explain:unknown-root")
			}
			switch {
			case tr.schema:
				out.NonTrivial = true
				label("nt:ddl")
			case tr.sh.verb == "SELECT":
				viaView := false
				for _, v := range e.viewNames {
					if tr.sh.mentions(v) {
						viaView = true
					}
				}
				if len(tr.reads) >= 2 || (viaView && len(tr.reads) >= 1) {
					out.NonTrivial = true
					label("nt:select-multi")
				}
			case len(tr.reads) > 0:
				out.NonTrivial = true
				label("nt:dml-reads-other")
			}
		}
		for _, n := range tr.needs {
			label("need:" + n.label())
			if !e.covered(n, tr.sh, grants, c.DSNAdmin) {
				uncoveredAsWritten++
				label("uncovered:" + n.label())
			}
		}
		tw := e.unitTwin(s.SQL, tr, sqlparse.SQLite)
		dialectNote := ""
		if tw.parsed && tw.fail == nil && tr.err == nil {
			// the same statement read as PostgreSQL source (same tables, if
			// it parses there at all)
			if pg := e.unitTwin(s.SQL, tr, sqlparse.PostgreSQL); pg.parsed && pg.fail != nil {
				tw, dialectNote = pg, " (PostgreSQL dialect)"
			}
		}
		// which child slots of the tree hold a table this caller may not read
		if tw.parsed {
			for _, n := range tr.needs {
				if n.Mode != "read" || e.covered(n, tr.sh, grants, c.DSNAdmin) {
					continue
				}
				edges, _ := edgesTo(tw.stmt, append([]string{n.Table}, e.viewsOver(n.Table)...))
				for _, eg := range edges {
					label("slot:" + tr.sh.kind + " " + eg)
				}
				recordSlots(slotJudged, tr.sh.kind, edges)
			}
			// tables the caller may not read that the tree names but
			// SQLite does not read: the statement cannot be prepared (a
			// subquery in DEFAULT / GENERATED / an index), or preparing it
			// opens nothing (CREATE VIEW body, CHECK, an eliminated join)
			var unread []string
			for _, t := range grantTables {
				if grants[t+":read"] {
					continue
				}
				needed := false
				for _, n := range tr.needs {
					if n.Mode == "read" && (n.Table == t || contains(e.viewTables[t], n.Table)) {
						needed = true
					}
				}
				if !needed {
					unread = append(unread, t)
				}
			}
			if edges, _ := edgesTo(tw.stmt, unread); len(edges) > 0 {
				why := "slot-no-read-by-sqlite:"
				if tr.err != nil {
					why = "slot-not-preparable:"
				}
				for _, eg := range edges {
					label(why + tr.sh.kind + " " + eg)
				}
				recordSlots(slotNoGround, tr.sh.kind, edges)
			}
		}
		switch {
		case !tw.parsed:
			label("unit:parse-error")
		case tr.err != nil && !tr.schema:
			label("unit:no-ground-truth")
		case tw.fail != nil:
			// name the edge of the tree the analyzer does not follow
			rsig := tw.fail.sig()
			if tw.fail.Mode == "read" {
				if _, paths := edgesTo(tw.stmt, append([]string{tw.fail.Table}, e.viewsOver(tw.fail.Table)...)); len(paths) > 0 {
					// the edge is the root cause whatever the statement kind
					// and the dialect
					rsig = "read: " + culprit(paths[0])
				}
			}
			if !strings.HasPrefix(rsig, "read: ") {
				rsig += dialectNote
			}
			label("unit:FAIL " + rsig)
			unitSigs[tw.fail.sig()] = rsig
			if unitFail == nil {
				accs := "EXPLAIN refused the text: " + fmt.Sprint(tr.err)
				if tr.err == nil {
					accs = fmt.Sprintf("EXPLAIN: reads=%v writes=%v schema-change=%v", tr.acc.Reads, tr.acc.Writes, tr.schema)
				}
				unitFail = &vkit.Failure{
					Sig:      rsig,
					Observed: fmt.Sprintf("sqlparse.New(%q)%s.Tables() = %s (kind %s); %s", s.SQL, dialectNote, tw.usage, tw.kind, accs),
					Expected: "Tables() covers the ground truth: missing " + tw.fail.String() + " — neither endpoint can check a table or a schema change the analyzer does not report",
				}
			}
		default:
			label("unit:ok")
		}
	}

	// ---- the request
	if err := e.applyGrants(c); err != nil {
		panic("c15 grants: " + err.Error())
	}
	resp := e.send(c)
	tr := e.takeTrace()
	if resp.Panic != nil {
		out.Fail = &vkit.Failure{Sig: "panic:" + srvfix.PanicSite(resp.Stack), Observed: fmt.Sprintf("handler panic: %v\n%s", resp.Panic, clip(resp.Stack, 2000)), Expected: "no panic"}
		_ = e.restore()
		return out
	}
	label("status:" + statusClass(resp.Status))
	ok2xx := resp.Status/100 == 2

	changed := false
	if !allSelect || ok2xx {
		fp, err := e.fingerprint()
		if err != nil {
			panic("c15 fingerprint: " + err.Error())
		}
		if fp != e.seedPrint {
			changed = true
			if err := e.restore(); err != nil {
				panic("c15 restore: " + err.Error())
			}
			if fp2, _ := e.fingerprint(); fp2 != e.seedPrint {
				panic("c15 restore did not reproduce the seed state")
			}
		}
	}
	if changed {
		label("state:changed")
	}
	if changed && !ok2xx {
		label("state:changed-without-2xx")
	}

	if ok2xx || changed {
		// judge what was really executed
		var executed []string
		var missing []need
		inconclusive := ""
		for _, t := range tr {
			executed = append(executed, t.text)
			tt := e.truthOf(t.text, t.nparams)
			if tt.err != nil {
				inconclusive = "explain-of-executed-text-failed"
				continue
			}
			for _, n := range tt.needs {
				if !e.covered(n, tt.sh, grants, c.DSNAdmin) {
					missing = append(missing, n)
				}
			}
		}
		if len(tr) == 0 {
			label("executed:none")
		}
		if len(missing) > 0 {
			label("verdict:ALLOWED-UNCOVERED")
			n := missing[0]
			sig := n.sig()
			if rs, ok := unitSigs[sig]; ok {
				sig = rs
			} else {
				// the analyzer reports the table (or the schema change), yet
				// the endpoint let it through: the cause is the endpoint's
				// handling of that usage, whatever the expression position
				route := map[string]string{"post": "@sql", "put": "@sql", "tx": "@transaction", "txrows": "@transaction"}[c.Route]
				switch n.Mode {
				case "read":
					sig = "read not enforced route=" + route
				case "write":
					sig = n.Kind + " write route=" + route
				default:
					sig = n.Kind + " ddl route=" + route
				}
			}
			var ms []string
			for _, m := range missing {
				ms = append(ms, m.String())
			}
			out.Fail = &vkit.Failure{
				Sig: sig,
				Observed: fmt.Sprintf("%s -> %d (database changed: %v); executed %q; grants %v dsn-admin=%v; not covered: %s",
					c.Route, resp.Status, changed, executed, c.Grants, c.DSNAdmin, strings.Join(ms, "; ")),
				Expected: "a refusal (403): the caller lacks " + n.String(),
			}
			return out
		}
		if inconclusive != "" {
			out.Inconclusive = inconclusive
		}
		label("verdict:allowed-covered")
	} else {
		if uncoveredAsWritten > 0 {
			label("verdict:denied-uncovered")
		} else {
			label("verdict:refused-though-covered(" + statusClass(resp.Status) + ")")
			if os.Getenv("VERIF_C15_DEBUG") != "" {
				fmt.Printf("REFUSED-THOUGH-COVERED %d %s | %q | %s\n", resp.Status, c.Route, c.Stmts, clip(string(resp.Body), 300))
			}
		}
	}
	if unitFail != nil {
		out.Fail = unitFail
	}
	return out
}

// pgUnit is the twin for PostgreSQL-only clauses that read tables (DELETE ...
// USING): no SQLite ground truth exists, the case itself says which tables the
// clause reads.
func pgUnit(c Case) vkit.Outcome {
	out := vkit.Outcome{NonTrivial: true, Labels: []string{"route:pgunit"}}
	for _, s := range c.Stmts {
		p, err := sqlparse.New(s.SQL, sqlparse.PostgreSQL)
		if err != nil {
			out.Labels = append(out.Labels, "unit:parse-error")
			continue
		}
		kind := p.StatementKind().String()
		got := map[string]bool{}
		var parts []string
		for _, u := range p.Tables() {
			parts = append(parts, u.Usage.String()+":"+u.Name)
			if u.Usage == sqlparse.UsageRead {
				got[baseLower(u.Name)] = true
			}
		}
		for _, want := range c.Expect {
			edges, paths := edgesTo(p.Statement(), []string{want})
			for _, eg := range edges {
				out.Labels = append(out.Labels, "slot:"+kind+" "+eg)
			}
			recordSlots(slotJudged, kind, edges)
			if got[want] {
				out.Labels = append(out.Labels, "unit:ok")
				continue
			}
			sig := kind + " read (PostgreSQL dialect)"
			if len(paths) > 0 {
				sig = "read: " + culprit(paths[0])
			}
			out.Fail = &vkit.Failure{Sig: sig,
				Observed: fmt.Sprintf("sqlparse.New(%q, PostgreSQL).Tables() = [%s]", s.SQL, strings.Join(parts, " ")),
				Expected: "a read usage of " + want + ": the statement reads it"}
			return out
		}
	}
	return out
}

// --------------------------------------------------------------- generator

var lastKinds = []struct {
	k sqlgen.Kind
	w int
}{{sqlgen.Select, 24}, {sqlgen.Insert, 16}, {sqlgen.Update, 20}, {sqlgen.Delete, 10}, {sqlgen.CreateTable, 6},
	{sqlgen.DropTable, 3}, {sqlgen.AlterTable, 4}, {sqlgen.CreateIndex, 4}, {sqlgen.DropIndex, 5}, {sqlgen.CreateView, 5}, {sqlgen.DropView, 3}}

func genStmt(t *rapid.T, kinds []sqlgen.Kind) (Stmt, sqlgen.Stmt) {
	k := rapid.SampledFrom(kinds).Draw(t, "kind")
	g := sqlgen.Gen(t, sqlgen.Options{Dialect: sqlgen.SQLite, Portable: true, Kinds: []sqlgen.Kind{k}})
	return Stmt{SQL: g.SQL, Kind: string(g.Kind), Feat: g.Features}, g
}

func gen(t *rapid.T) Case {
	if rapid.IntRange(0, 9).Draw(t, "family") < 4 {
		return genSweep(t)
	}
	var c Case
	var weighted []sqlgen.Kind
	for _, kw := range lastKinds {
		for i := 0; i < kw.w; i++ {
			weighted = append(weighted, kw.k)
		}
	}
	n := rapid.SampledFrom([]int{1, 1, 1, 1, 1, 1, 1, 2, 2, 3}).Draw(t, "nstmts")
	// relevant: the grants the generator believes the statements need
	var relevant []string
	for i := 0; i < n; i++ {
		kinds := weighted
		if i < n-1 {
			// a SELECT must be last, and a schema change before another
			// statement would make the seed schema the wrong one to EXPLAIN on
			kinds = []sqlgen.Kind{sqlgen.Insert, sqlgen.Update, sqlgen.Update, sqlgen.Delete}
		}
		s, g := genStmt(t, kinds)
		c.Stmts = append(c.Stmts, s)
		for _, r := range g.Reads {
			relevant = append(relevant, r+":read")
			if r == "v1" {
				relevant = append(relevant, "t1:read")
			}
		}
		perm := map[sqlgen.Kind]string{sqlgen.Insert: "write", sqlgen.Update: "update", sqlgen.Delete: "delete"}[g.Kind]
		for _, w := range g.Writes {
			if perm != "" {
				relevant = append(relevant, w+":"+perm)
			}
		}
		if g.DDL {
			relevant = append(relevant, "dsnadmin")
		}
	}
	c.Route = rapid.SampledFrom([]string{"post", "post", "post", "tx", "tx", "tx", "put", "txrows"}).Draw(t, "route")
	if c.Route == "txrows" && n > 1 {
		c.Route = "tx"
	}
	if c.Route == "post" || c.Route == "put" {
		c.Body = rapid.SampledFrom([]string{"string", "array"}).Draw(t, "body")
	}

	universe := append(allGrants(), "dsnadmin")
	have := map[string]bool{}
	c.GrantMode = rapid.SampledFrom([]string{"all-but-one", "all-but-one", "all-but-one", "all-but-one", "all-but-two", "all-but-two", "random", "random", "all"}).Draw(t, "grantmode")
	drop := func() {
		pool := universe
		if len(relevant) > 0 && rapid.IntRange(0, 9).Draw(t, "relevant") < 7 {
			pool = relevant
		}
		delete(have, rapid.SampledFrom(pool).Draw(t, "drop"))
	}
	switch c.GrantMode {
	case "random":
		for _, g := range universe {
			if rapid.IntRange(0, 9).Draw(t, "g") < 6 {
				have[g] = true
			}
		}
	default:
		for _, g := range universe {
			have[g] = true
		}
		if c.GrantMode != "all" {
			drop()
		}
		if c.GrantMode == "all-but-two" {
			drop()
		}
	}
	c.DSNAdmin = have["dsnadmin"]
	delete(have, "dsnadmin")
	for g := range have {
		c.Grants = append(c.Grants, g)
	}
	sort.Strings(c.Grants)
	if c.Grants == nil {
		c.Grants = []string{}
	}
	return c
}

// except returns every grant but the listed ones ("dsnadmin" clears DSNAdmin).
func except(drop ...string) ([]string, bool) {
	var g []string
	for _, x := range allGrants() {
		if !contains(drop, x) {
			g = append(g, x)
		}
	}
	return g, !contains(drop, "dsnadmin")
}

// fixed enumerates hand-written statements, each with every grant except the
// one the statement needs in the position of interest, through @sql and
// @transaction.
func fixed() []Case {
	type fx struct {
		sql  string
		drop []string
	}
	list := []fx{
		// subqueries in every expression position
		{`UPDATE t1 SET c = (SELECT d FROM t2 WHERE t2.a = t1.a)`, []string{"t2:read"}},
		{`UPDATE t1 SET (b, c) = (SELECT a, 'z' FROM t2 LIMIT 1) WHERE a = 1`, []string{"t2:read"}},
		{`UPDATE t1 SET b = 1 WHERE a IN (SELECT a FROM t2)`, []string{"t2:read"}},
		{`UPDATE t1 SET b = 1 FROM t2 WHERE t1.a = t2.a`, []string{"t2:read"}},
		{`UPDATE t1 SET b = 1 WHERE a = 1 RETURNING (SELECT count(*) FROM t2)`, []string{"t2:read"}},
		{`WITH x AS (SELECT a FROM t2) UPDATE t1 SET b = 2 WHERE a IN (SELECT a FROM x)`, []string{"t2:read"}},
		{`INSERT INTO t1 (b) SELECT a FROM t2`, []string{"t2:read"}},
		{`INSERT INTO t2 (a, d) VALUES ((SELECT max(a) + 100 FROM t1), 1.0)`, []string{"t1:read"}},
		{`INSERT INTO t2 (a, d) VALUES (1, 2.0) ON CONFLICT (a) DO UPDATE SET d = (SELECT count(*) FROM t3)`, []string{"t3:read"}},
		{`INSERT INTO t2 (a, d) VALUES (1, 2.0) ON CONFLICT (a) DO UPDATE SET d = 1 WHERE EXISTS (SELECT 1 FROM t3)`, []string{"t3:read"}},
		{`INSERT INTO t3 (e) VALUES ('q') RETURNING (SELECT count(*) FROM t1)`, []string{"t1:read"}},
		{`WITH x AS (SELECT a FROM t2) INSERT INTO t1 (b) SELECT a FROM x`, []string{"t2:read"}},
		{`DELETE FROM t1 WHERE a IN (SELECT a FROM t2)`, []string{"t2:read"}},
		{`DELETE FROM t1 WHERE a = 5 RETURNING (SELECT count(*) FROM t3)`, []string{"t3:read"}},
		{`SELECT (SELECT count(*) FROM t3) FROM t1`, []string{"t3:read"}},
		{`SELECT * FROM t1 JOIN t2 ON t1.a = t2.a`, []string{"t2:read"}},
		{`SELECT * FROM t1 LEFT JOIN t2 ON t1.a = t2.a WHERE t2.d IS NULL`, []string{"t2:read"}},
		{`SELECT * FROM t1, t2`, []string{"t2:read"}},
		{`SELECT * FROM t1 JOIN t2 ON t1.a = (SELECT max(id) FROM t3)`, []string{"t3:read"}},
		{`SELECT * FROM t1 WHERE EXISTS (SELECT 1 FROM t2 WHERE t2.a = t1.a)`, []string{"t2:read"}},
		{`SELECT b, count(*) FROM t1 GROUP BY b HAVING count(*) > (SELECT count(*) FROM t2)`, []string{"t2:read"}},
		{`SELECT a FROM t1 ORDER BY (SELECT count(*) FROM t2 WHERE t2.a < t1.a)`, []string{"t2:read"}},
		{`SELECT a FROM t1 LIMIT (SELECT count(*) FROM t2)`, []string{"t2:read"}},
		{`SELECT a FROM t1 UNION SELECT a FROM t2`, []string{"t2:read"}},
		{`SELECT a FROM t1 WHERE a IN (SELECT a FROM t2 WHERE d > (SELECT count(*) FROM t3))`, []string{"t3:read"}},
		{`WITH x AS (SELECT a FROM t2) SELECT * FROM t1, x`, []string{"t2:read"}},
		{`SELECT * FROM (SELECT a FROM t2) AS q`, []string{"t2:read"}},
		{`SELECT CASE WHEN a > 1 THEN (SELECT count(*) FROM t3) ELSE 0 END FROM t1`, []string{"t3:read"}},
		// views
		{`SELECT * FROM v1`, []string{"v1:read", "t1:read"}},
		{`SELECT * FROM v1`, []string{"t1:read"}},
		{`SELECT * FROM v1`, []string{"v1:read"}},
		{`SELECT * FROM t2 WHERE a IN (SELECT a FROM v1)`, []string{"v1:read", "t1:read"}},
		// the matching write permission
		{`UPDATE t1 SET b = 2`, []string{"t1:update"}},
		{`DELETE FROM t2`, []string{"t2:delete"}},
		{`INSERT INTO t3 (e) VALUES ('q')`, []string{"t3:write"}},
		{`INSERT INTO t3 (e) VALUES ('q')`, []string{"t3:read"}},
		// schema changes
		{`DROP INDEX i1`, []string{"dsnadmin"}},
		{`DROP INDEX IF EXISTS main.i2`, []string{"dsnadmin"}},
		{`CREATE INDEX ni ON t1 (c)`, []string{"dsnadmin"}},
		{`CREATE UNIQUE INDEX ni ON t3 (e) WHERE e IS NOT NULL`, []string{"dsnadmin"}},
		{`CREATE TABLE n1 (x INTEGER)`, []string{"dsnadmin"}},
		{`CREATE TABLE n1 AS SELECT * FROM t2`, []string{"dsnadmin"}},
		{`CREATE TABLE n1 AS SELECT * FROM t2`, []string{"t2:read"}},
		{`CREATE VIEW nv AS SELECT * FROM t2`, []string{"dsnadmin"}},
		{`CREATE TEMP VIEW nv AS SELECT * FROM t2`, []string{"dsnadmin"}},
		{`ALTER TABLE t3 ADD COLUMN z INTEGER`, []string{"dsnadmin"}},
		{`ALTER TABLE t3 RENAME TO t9`, []string{"dsnadmin"}},
		{`ALTER TABLE t2 RENAME COLUMN d TO dd`, []string{"dsnadmin"}},
		{`ALTER TABLE t3 DROP COLUMN e`, []string{"dsnadmin"}},
		{`DROP TABLE t3`, []string{"dsnadmin"}},
		{`DROP TABLE IF EXISTS main.t2`, []string{"dsnadmin"}},
		{`DROP VIEW v1`, []string{"dsnadmin"}},
		// the catalogue
		{`SELECT name FROM sqlite_master`, nil},
		{`SELECT name FROM sqlite_schema`, nil},
		{`SELECT name FROM main.sqlite_master`, nil},
	}
	var out []Case
	// no grant at all
	for _, route := range []string{"post", "put", "tx", "txrows"} {
		c := Case{Stmts: []Stmt{{SQL: `SELECT a FROM t1`}}, Route: route, Grants: []string{}, GrantMode: "fixed"}
		if route == "post" || route == "put" {
			c.Body = "string"
		}
		out = append(out, c)
	}
	for _, f := range list {
		g, adm := except(f.drop...)
		for _, route := range []string{"post", "tx"} {
			c := Case{Stmts: []Stmt{{SQL: f.sql}}, Route: route, Grants: g, DSNAdmin: adm, GrantMode: "fixed"}
			if route == "post" {
				c.Body = "string"
			}
			out = append(out, c)
		}
	}
	// several statements in one request: every one of them is authorized
	g, adm := except("t2:read")
	for _, route := range []string{"post", "put", "tx"} {
		for _, body := range []string{"string", "array"} {
			if route == "tx" && body == "array" {
				continue
			}
			c := Case{Stmts: []Stmt{{SQL: `UPDATE t1 SET b = 3 WHERE a = 1`}, {SQL: `INSERT INTO t3 (e) SELECT CAST(d AS TEXT) FROM t2`}},
				Route: route, Body: body, Grants: g, DSNAdmin: adm, GrantMode: "fixed"}
			if route == "tx" {
				c.Body = ""
			}
			out = append(out, c)
		}
	}
	g, adm = except("t3:read")
	out = append(out, Case{Stmts: []Stmt{{SQL: `SELECT count(*) FROM t3`}}, Route: "txrows", Grants: g, DSNAdmin: adm, GrantMode: "fixed"})
	return append(out, sweepFixed()...)
}

func TestC15(t *testing.T) {
	if _, err := getEnv(); err != nil {
		t.Fatalf("fixture: %v", err)
	}
	vkit.Run(t, vkit.Spec[Case]{
		ID:    "C15",
		Level: "exploration",
		Rule: "1-3 sqlgen statements (SQLite-executable grammar: SELECT/INSERT/UPDATE/DELETE with subqueries in select list, WHERE, SET, VALUES, ON CONFLICT, RETURNING, joins, CTEs, the view v1; CREATE/DROP/ALTER TABLE, CREATE/DROP INDEX, CREATE/DROP VIEW) x route (@sql POST/PUT string|array, @transaction sql tasks, readrows with SQL) x grant set (all-but-one biased to a grant the statement needs, all-but-two, random, all) for one non-administrator on a restricted SQLite DSN; plus ~120 hand-written statement x missing-grant cases; 40% of the generated cases and ~480 enumerated ones come from the slot sweep host(wrap*(leaf(U))): a subquery reading a table U the caller may not read, in every child slot of every expression node kind (52 wrappers), under every clause of every statement kind (54 hosts), in 14 subquery forms; the slots really exercised are measured on ego's parse tree by reflection (labels slot:<KIND> <Type>.<Field>). " +
			"Non-trivial: a DML statement whose EXPLAIN reads a table other than the one it writes, a SELECT that reads >= 2 tables or reads through the view, or a schema-changing statement. Distinct by statements x route x grant set.",
		Assumptions: []string{
			"SQLite's EXPLAIN (modernc.org/sqlite) on a scratch database with the same schema is the ground truth for tables read/written and schema changes; the text EXPLAINed for the server layer is what the handler passed to the driver (hook H5)",
			"reads of the table a DML statement writes, table-level grants on a DDL statement's own object, upsert/REPLACE needing more than the INSERT permission, and virtual tables are not asserted",
			"a read grant on a view the statement names covers the tables under that view",
			"PostgreSQL-only grammar (DELETE USING, CASCADE, ...) is not executed",
		},
		Gen:      gen,
		Oracle:   oracle,
		Fixed:    fixed,
		Extra:    slotExtra,
		Quick:    300,
		Thorough: 2500,
	})
}

// TestExplore prints ground truth and analyzer output for the fixed
// statements (development aid; VERIF_C15_EXPLORE=1).
func TestExplore(t *testing.T) {
	if os.Getenv("VERIF_C15_EXPLORE") == "" {
		t.Skip()
	}
	e, err := getEnv()
	if err != nil {
		t.Fatal(err)
	}
	seen := map[string]bool{}
	for _, c := range fixed() {
		for _, s := range c.Stmts {
			if seen[s.SQL] {
				continue
			}
			seen[s.SQL] = true
			tr := e.truthOf(s.SQL, 0)
			tw := e.unitTwin(s.SQL, tr, sqlparse.SQLite)
			fmt.Printf("%s\n   kind=%q object=%v explainErr=%v", s.SQL, tr.sh.kind, tr.sh.object, tr.err)
			if tr.acc != nil {
				fmt.Printf(" R=%v W=%v V=%v schema=%v unk=%v", tr.acc.Reads, tr.acc.Writes, tr.acc.Virtual, tr.acc.SchemaChange, tr.acc.UnknownRoots)
			}
			fmt.Printf("\n   needs=")
			for _, n := range tr.needs {
				fmt.Printf("[%s] ", n.sig())
			}
			fmt.Printf("\n   analyzer parsed=%v %s %s perr=%s fail=%v\n", tw.parsed, tw.kind, tw.usage, tw.perr, tw.fail)
		}
	}
}

// TestPositions cross-checks the tokenizer's clause labels against the
// generator's own "subq@<position>" features on many statements, without the
// server verdict (development aid; VERIF_C15_POSITIONS=1, -rapid.checks=N).
func TestPositions(t *testing.T) {
	if os.Getenv("VERIF_C15_POSITIONS") == "" {
		t.Skip()
	}
	e, err := getEnv()
	if err != nil {
		t.Fatal(err)
	}
	mism := map[string]int{}
	total := 0
	rapid.Check(t, func(rt *rapid.T) {
		var weighted []sqlgen.Kind
		for _, kw := range lastKinds {
			for i := 0; i < kw.w; i++ {
				weighted = append(weighted, kw.k)
			}
		}
		s, _ := genStmt(rt, weighted)
		tr := e.truthOf(s.SQL, 0)
		if tr.err != nil {
			return
		}
		feats := map[string]bool{}
		for _, f := range s.Feat {
			feats[f] = true
		}
		for _, n := range tr.needs {
			if n.Mode != "read" {
				continue
			}
			total++
			pos := strings.TrimSuffix(n.Pos, "(view)")
			ok := true
			switch pos {
			case "from", "with", "insert-select", "ddl-select", "ddl":
			case "on-conflict":
				ok = feats["subq@on-conflict"] || feats["subq@set"]
			case "?", "target", "start":
				ok = false
			default:
				ok = feats["subq@"+pos]
			}
			if !ok {
				k := fmt.Sprintf("%s pos=%s", tr.sh.kind, n.Pos)
				mism[k]++
				if mism[k] <= 3 {
					fmt.Printf("MISMATCH %s table=%s feats=%v\n   %q\n", k, n.Table, s.Feat, s.SQL)
				}
			}
		}
	})
	fmt.Printf("read needs=%d mismatches=%v\n", total, mism)
}
