package scratch4
import ("testing";"fmt"; "github.com/tucats/ego/verif/egorun")
func TestS(t *testing.T){
  body := "\tL1:\n\tfor i := 0; i < 2; i++ {\n\t\tif i == 1 {\n\t\t\tcontinue L1\n\t\t}\n\t\tfmt.Printf(\"i=%d\\n\", i)\n\t}\n"
  for _, head := range []string{"if x == 1 {", "if (x == 1) {", "if true {", "if x == 1 {\n\tx = 2", "for x == 1 {\n\tx = 2", "for x == 1 {", "switch {\ncase x == 1:", "if x == 1 {\n} else {"} {
    tail := "}"
    src := "package main\nimport \"fmt\"\nfunc main() {\n\tx := 1\n\t" + head + "\n" + body + "\t" + tail + "\n\tfmt.Printf(\"%d\\n\", x)\n}\n"
    r := egorun.Run(src, egorun.Config{Types:"dynamic", EntryPoint:"main"})
    fmt.Printf("%-30q => %q err=%q %q\n", head, r.Stdout, r.CompileErr, r.RunErr)
  }
}
