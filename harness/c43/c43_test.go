// Package c43 decides C43 "Row endpoints enforce table grants".
//
// A case is a history of grant / revoke operations (table-level grants through
// PUT|DELETE /dsns/{dsn}/tables/{table}/permissions, DSN-level grants through
// POST /dsns/@permissions, all by the administrator; plus attempts by ordinary
// users to grant table permissions) interleaved with row operations (read,
// insert, upsert, update, delete), table metadata, table list and table drop
// requests by three non-administrators and the administrator, on one
// restricted and one unrestricted SQLite DSN with two tables each.
//
// Every row operation exists in several REPRESENTATIONS (repsOf): plain JSON
// with its payload shapes (single row, {"rows":[...]}, bare array) and
// parameter variants (filter, columns, sort, limit, _row_id_ in the payload),
// ?abstract=true, the abstract media type in Accept/Content-Type, and every
// @transaction task kind that performs it (insert/update/delete/select/
// readrows and SQL text in sql/readrows tasks). A request names one
// representation or "all" (a sweep). Two things are required of them:
//   - each operation needs ITS OWN table grant (read / write / update /
//     delete), whatever the representation;
//   - metamorphic: one operation by one user on one grant state gets one
//     allow/deny class in every representation (a 2xx in one and a 401/403 in
//     another is a violation even where the exact permission is contested).
//
// The oracle keeps a model of the grant store and of the table contents. The
// documented rule (docs/SERVER.md "Permissions Model", "Putting it together"):
// ego.root -> allowed; unrestricted DSN -> allowed; otherwise the caller needs
// the DSN-level grant for the action (read for reads, write for changes) AND
// the table-level grant for the operation. After every request the four tables
// are read through independent database/sql connections and compared with the
// model (a denied request changes nothing).
//
// Where the documentation contradicts itself or the code on a detail the
// property does not fix, the model only asserts what every reading agrees on:
//   - docs/API.md says an insert needs table.update, docs/SERVER.md says
//     table.write: an insert (and an upsert, which may rewrite a row) is
//     "certainly allowed" with both, "certainly denied" with neither. This is
//     contested for INSERT only: update needs update, delete needs delete,
//     read needs read;
//   - SQL text in a script (sql / readrows tasks) needs the identity permission
//     ego.sql, which all three users hold; a statement with a WHERE clause may
//     also be asked for the read grant, so SQL text is "certainly allowed"
//     only with read as well and is left out of the metamorphic relation;
//   - SERVER.md: a DSN-level admin grant "also satisfies read and write"; the
//     code keeps three independent bits: a request that has only the DSN admin
//     grant for a read/write is not judged;
//   - table.admin is documented as "may administer that table's permissions";
//     the code also lets it read/write rows: a request that has only the
//     table admin grant is not judged;
//   - drop table: API.md says table.update, the code asks for DSN admin, the
//     statement says "matching grant for that user, DSN and table": certainly
//     allowed with DSN admin + table admin + table update, certainly denied
//     without DSN admin and without (a DSN grant and table admin|update);
//   - SERVER.md calls the identity-wide ego.table.* permissions a coarse gate
//     "to reach the endpoint at all"; the routes do not check them. Users u1
//     and u2 hold them, u3 holds ego.logon only; for u3 only the "denied
//     without grant" direction is asserted.
//
// Preconditions taken from callers: user names lower-case; grants use the
// documented permission names with +/- prefixes and the documented single-item
// body of POST /dsns/@permissions; DSN-level grants are only made on the
// restricted DSN (a grant on an unrestricted DSN is documented to restrict it);
// the permission store is the database-backed one (UserStore sqlite): with a
// file user store ego has no table_perms store and allows everything.
package c43

import (
	"context"
	"database/sql"
	"encoding/json"
	"fmt"
	"os"
	"path/filepath"
	"sort"
	"strings"
	"sync"
	"testing"

	"github.com/tucats/ego/verif/srvfix"
	"github.com/tucats/ego/verif/vkit"
	_ "modernc.org/sqlite"
	"pgregory.net/rapid"
)

// ---------------------------------------------------------------- case data

// Op is one step of a history.
type Op struct {
	Kind  string   `json:"kind"`            // tgrant tclear dgrant ugrant req
	User  int      `json:"user"`            // 0,1,2 = u1,u2,u3; 3 = administrator (req only). For grants: the grantee
	Actor int      `json:"actor,omitempty"` // ugrant: the ordinary user who tries to grant
	DSN   int      `json:"dsn"`             // 0 restricted, 1 unrestricted
	Table int      `json:"table"`           // 0 | 1
	Perms []string `json:"perms,omitempty"` // "+read" "-write" ... (table: read write update delete admin; dsn: read write admin)
	Req   string   `json:"req,omitempty"`   // read insert upsert update delete (row operations, see repsOf) describe list drop; old spellings readabs txread txinsert txdelete are still read
	ID    int      `json:"id,omitempty"`    // row id for insert / update / delete
	// Rep selects the representation of a row operation (see repsOf); "" is the
	// first one, "all" runs the operation in every representation (a sweep).
	Rep string `json:"rep,omitempty"`
}

type Case struct {
	Ops []Op `json:"ops"`
}

var (
	userNames = []string{"c43ua", "c43ub", "c43uc", "admin"}
	dsnNames  = []string{"c43r", "c43u"}
)

// ------------------------------------------------------------------- model

type rowT struct {
	id   int64
	name string
}

type model struct {
	dsnG [3]map[string]bool       // user -> DSN-level grants on the restricted DSN
	tblG [3][2][2]map[string]bool // user, dsn, table -> table-level grants
	rows [2][2][]rowT             // dsn, table -> rows
}

func newModel() *model {
	m := &model{}
	for u := 0; u < 3; u++ {
		m.dsnG[u] = map[string]bool{}
		for d := 0; d < 2; d++ {
			for t := 0; t < 2; t++ {
				m.tblG[u][d][t] = map[string]bool{}
			}
		}
	}
	for d := 0; d < 2; d++ {
		for t := 0; t < 2; t++ {
			m.rows[d][t] = seedRows(d, t)
		}
	}
	return m
}

func seedRows(d, t int) []rowT {
	return []rowT{{1, fmt.Sprintf("s%d%d1", d, t)}, {2, fmt.Sprintf("s%d%d2", d, t)}, {3, fmt.Sprintf("s%d%d3", d, t)}}
}

func snapRows(rows []rowT) string {
	r := append([]rowT(nil), rows...)
	sort.Slice(r, func(a, b int) bool {
		if r[a].id != r[b].id {
			return r[a].id < r[b].id
		}
		return r[a].name < r[b].name
	})
	var b strings.Builder
	for _, x := range r {
		fmt.Fprintf(&b, "(%d,%s)", x.id, x.name)
	}
	return b.String()
}

func (m *model) snapshot() string {
	var b strings.Builder
	for d := 0; d < 2; d++ {
		for t := 0; t < 2; t++ {
			fmt.Fprintf(&b, "%s.t%d:%s\n", dsnNames[d], t, snapRows(m.rows[d][t]))
		}
	}
	return b.String()
}

type tri int

const (
	unsure tri = iota
	allow
	deny
)

// ownPerm is the table-level permission an operation needs by SERVER.md's
// four-step rule ("ego.table.write: may insert rows", "update: may update
// rows", "delete: may delete rows", "read: may read that table's rows").
func ownPerm(req string) string {
	switch req {
	case "insert", "upsert":
		return "write"
	case "update":
		return "update"
	case "delete":
		return "delete"
	}
	return "read"
}

// expect gives what every reading of the documentation agrees on for a
// request by ordinary user u on the restricted DSN, and which tier denies.
// tx: the request is an @transaction task (the script is opened for read and
// write, so "certainly allowed" asks for both DSN-level grants); sqlText: the
// task is SQL text (a statement with a WHERE clause may also be asked for read).
func (m *model) expect(u int, req string, t int, tx, sqlText bool) (tri, string) {
	ds := m.dsnG[u]
	ts := m.tblG[u][0][t]
	dDeny := func(x string) bool { return !ds[x] && !ds["admin"] }
	var a, dn bool
	why := ""
	switch req {
	case "read", "describe", "insert", "upsert", "update", "delete":
		action := "write"
		if req == "read" || req == "describe" {
			action = "read"
		}
		own := ownPerm(req)
		a = ds[action] && ts[own]
		if tx {
			a = a && ds["read"] && ds["write"]
		}
		if sqlText && req != "read" {
			a = a && ts["read"]
		}
		tblDeny := !ts[own] && !ts["admin"]
		if req == "insert" || req == "upsert" {
			// API.md asks for table.update on PUT rows, SERVER.md for table.write;
			// an upsert may also rewrite an existing row
			a = a && ts["update"]
			tblDeny = tblDeny && !ts["update"]
		}
		switch {
		case dDeny(action):
			dn, why = true, "dsn"
		case tblDeny:
			dn, why = true, "table"
		}
	case "list":
		a = ds["read"]
		if dDeny("read") {
			dn, why = true, "dsn"
		}
	case "drop":
		a = ds["admin"] && ts["admin"] && ts["update"]
		anyDSN := ds["read"] || ds["write"] || ds["admin"]
		if !ds["admin"] && !(anyDSN && (ts["admin"] || ts["update"])) {
			dn, why = true, "dsn+table"
		}
	}
	switch {
	case dn:
		return deny, why
	case a && u != 2:
		return allow, ""
	}
	return unsure, ""
}

// shape names the caller's grants relative to the operation, for the coverage
// cells: dsn-missing, own-only, own+others, admin-without-own, none, or
// "<held>-without-<own>" (e.g. write-without-update).
func (m *model) shape(u int, req string, t int) string {
	ds := m.dsnG[u]
	ts := m.tblG[u][0][t]
	action := "write"
	if req == "read" || req == "describe" || req == "list" {
		action = "read"
	}
	if !ds[action] {
		if ds["admin"] {
			return "dsn-admin-only"
		}
		return "dsn-missing"
	}
	own := ownPerm(req)
	var others []string
	for _, p := range []string{"read", "write", "update", "delete"} {
		if p != own && ts[p] {
			others = append(others, p)
		}
	}
	switch {
	case ts[own] && len(others) == 0:
		return "own-only"
	case ts[own]:
		return "own+" + strings.Join(others, "+")
	case ts["admin"]:
		return "admin-without-" + own
	case len(others) == 0:
		return "none"
	}
	return strings.Join(others, "+") + "-without-" + own
}

// repsOf lists the representations in which a row operation is generated:
// everything the row endpoints accept for it (plain JSON with its payload and
// parameter variants, ?abstract=true, the abstract media type in Accept /
// Content-Type where the route admits it) and every @transaction task kind
// that performs it. PATCH and DELETE routes reject the abstract media type and
// DELETE rejects ?abstract (400 from the router, before any handler), so
// those spellings do not exist as representations.
func repsOf(req string) []string {
	switch req {
	case "read":
		return []string{"plain", "plain-params", "abs-param", "abs-accept", "tx-readrows", "tx-select", "tx-sql", "tx-readrows-sql"}
	case "insert":
		return []string{"plain-one", "plain-set", "plain-array", "abs-param-set", "abs-param-one", "abs-accept-set", "tx-insert", "tx-sql"}
	case "upsert":
		return []string{"plain-one", "plain-set"}
	case "update":
		return []string{"plain-filter", "plain-set", "plain-columns", "plain-rowid", "abs-param-set", "tx-update", "tx-sql"}
	case "delete":
		return []string{"plain-filter", "plain-and", "tx-delete", "tx-sql"}
	}
	return []string{"plain"}
}

const absMedia = "application/vnd.ego.rows.abstract+json"

// ------------------------------------------------------------- environment

type env struct {
	known   map[string]bool
	f       *srvfix.Fixture
	hdr     [4]map[string]string
	conn    [2]*sql.DB
	gen     int
	tn      [2]string // table names of the current case (same on both DSNs)
	dsnLive bool      // DSN-level grants may be left from the previous case
	reqs    int
	ntReqs  int
	cells   map[string]bool // operation / representation / grant shape -> class, for the evidence
}

var (
	envOnce sync.Once
	theEnv  *env
	envErr  error
	ctx     = context.Background()
)

const password = "Passw0rd!c43"

func getEnv() (*env, error) {
	envOnce.Do(func() { theEnv, envErr = startEnv() })
	return theEnv, envErr
}

func startEnv() (*env, error) {
	f, err := srvfix.Start(srvfix.Options{UserStore: "sqlite", Settings: map[string]string{"ego.server.token.expiration": "96h"}})
	if err != nil {
		return nil, err
	}
	e := &env{f: f, known: loadKnown(), cells: map[string]bool{}}
	tok, err := f.AdminToken()
	if err != nil {
		return nil, err
	}
	mk := func(t string) map[string]string {
		h := srvfix.Bearer(t)
		h["Content-Type"] = "application/json"
		return h
	}
	e.hdr[3] = mk(tok)
	idPerms := []string{"ego.logon", "ego.sql", "ego.table.read", "ego.table.write", "ego.table.update", "ego.table.delete"}
	for u := 0; u < 3; u++ {
		perms := idPerms
		if u == 2 {
			perms = []string{"ego.logon", "ego.sql"}
		}
		if err := f.CreateUser(tok, userNames[u], password, perms); err != nil {
			return nil, err
		}
		t, err := f.Logon(userNames[u], password)
		if err != nil {
			return nil, err
		}
		e.hdr[u] = mk(t)
	}
	for d := 0; d < 2; d++ {
		file := filepath.Join(f.Dir, dsnNames[d]+".db")
		b, _ := json.Marshal(map[string]any{"name": dsnNames[d], "provider": "sqlite", "database": file, "rowid": true, "restricted": d == 0})
		if r := e.do(3, "POST", "/dsns/", string(b)); r.Status/100 != 2 {
			return nil, fmt.Errorf("create dsn: %d %s", r.Status, r.Body)
		}
		// a first table so that the file exists before the independent connection opens it
		if r := e.do(3, "PUT", "/dsns/"+dsnNames[d]+"/tables/c43init", `[{"name":"k","type":"int"}]`); r.Status/100 != 2 {
			return nil, fmt.Errorf("create init table: %d %s", r.Status, r.Body)
		}
		db, err := sql.Open("sqlite", file)
		if err != nil {
			return nil, err
		}
		db.SetMaxOpenConns(1)
		e.conn[d] = db
	}
	return e, nil
}

// loadKnown reads the signatures of recorded findings (the file vkit uses), so
// that a history goes on behind a recorded defect instead of ending there.
func loadKnown() map[string]bool {
	out := map[string]bool{}
	p := os.Getenv("VERIF_KNOWN")
	if p == "" {
		p = filepath.Join(vkit.Root(), "known_findings.json")
	}
	b, err := os.ReadFile(p)
	if err != nil {
		return out
	}
	var kf struct {
		Findings []struct {
			Property string `json:"property"`
			Sig      string `json:"sig"`
		} `json:"findings"`
	}
	if json.Unmarshal(b, &kf) == nil {
		for _, k := range kf.Findings {
			if k.Property == "C43" {
				out[k.Sig] = true
			}
		}
	}
	return out
}

func (e *env) do(who int, method, path, body string, extra ...string) *srvfix.Response {
	h := e.hdr[who]
	if len(extra) > 0 {
		h = map[string]string{}
		for k, v := range e.hdr[who] {
			h[k] = v
		}
		for i := 0; i+1 < len(extra); i += 2 {
			h[extra[i]] = extra[i+1]
		}
	}
	return e.f.Do(srvfix.Request{Method: method, Path: path, Header: h, Body: body})
}

const colDefs = `[{"name":"id","type":"int"},{"name":"name","type":"string"}]`

func (e *env) createTable(d, t int) error {
	tn := e.tn[t]
	if r := e.do(3, "PUT", "/dsns/"+dsnNames[d]+"/tables/"+tn, colDefs); r.Status/100 != 2 {
		return fmt.Errorf("create table %s: %d %s", tn, r.Status, r.Body)
	}
	var rows []map[string]any
	for _, r := range seedRows(d, t) {
		rows = append(rows, map[string]any{"id": r.id, "name": r.name})
	}
	b, _ := json.Marshal(map[string]any{"rows": rows, "count": len(rows)})
	if r := e.do(3, "PUT", "/dsns/"+dsnNames[d]+"/tables/"+tn+"/rows", string(b)); r.Status/100 != 2 {
		return fmt.Errorf("seed table %s: %d %s", tn, r.Status, r.Body)
	}
	return nil
}

// reset gives the case fresh tables (so no table-level grant of an earlier
// case applies) and clears the DSN-level grants of the three users.
func (e *env) reset() error {
	for d := 0; d < 2; d++ {
		for _, tn := range e.tn {
			if tn != "" {
				_, _ = e.conn[d].ExecContext(ctx, "DROP TABLE IF EXISTS "+tn)
			}
		}
	}
	e.gen++
	e.tn = [2]string{fmt.Sprintf("ta%d", e.gen), fmt.Sprintf("tb%d", e.gen)}
	for d := 0; d < 2; d++ {
		for t := 0; t < 2; t++ {
			if err := e.createTable(d, t); err != nil {
				return err
			}
		}
	}
	if e.dsnLive {
		for u := 0; u < 3; u++ {
			b, _ := json.Marshal(map[string]any{"dsn": dsnNames[0], "user": userNames[u], "actions": []string{"-ego.dsn.read", "-ego.dsn.write", "-ego.dsn.admin"}})
			if r := e.do(3, "POST", "/dsns/@permissions", string(b)); r.Status/100 != 2 {
				return fmt.Errorf("reset dsn grants: %d %s", r.Status, r.Body)
			}
		}
		e.dsnLive = false
	}
	// the unrestricted DSN must still be unrestricted
	r := e.do(3, "GET", "/dsns/"+dsnNames[1]+"/", "")
	var info struct {
		Restricted bool `json:"restricted"`
	}
	if r.Status != 200 || r.JSON(&info) != nil || info.Restricted {
		return fmt.Errorf("unrestricted DSN changed: %d %s", r.Status, r.Body)
	}
	return nil
}

func (e *env) snapshot() (string, error) {
	var b strings.Builder
	for d := 0; d < 2; d++ {
		for t := 0; t < 2; t++ {
			var c int
			if err := e.conn[d].QueryRowContext(ctx, "SELECT count(*) FROM sqlite_master WHERE type='table' AND name=?", e.tn[t]).Scan(&c); err != nil {
				return "", err
			}
			if c == 0 {
				fmt.Fprintf(&b, "%s.t%d:absent\n", dsnNames[d], t)
				continue
			}
			rows, err := e.conn[d].QueryContext(ctx, "SELECT id, name FROM "+e.tn[t]+" ORDER BY id, name")
			if err != nil {
				return "", err
			}
			fmt.Fprintf(&b, "%s.t%d:", dsnNames[d], t)
			for rows.Next() {
				var id, name any
				if err := rows.Scan(&id, &name); err != nil {
					rows.Close()
					return "", err
				}
				if bb, ok := name.([]byte); ok {
					name = string(bb)
				}
				fmt.Fprintf(&b, "(%v,%v)", id, name)
			}
			rows.Close()
			b.WriteString("\n")
		}
	}
	return b.String(), nil
}

// request is one concrete HTTP request of a row operation and its effect on
// the model's table contents when it is answered 2xx.
type request struct {
	method, path, body string
	headers            []string
	apply              func()
}

func panicIf(err error) {
	if err != nil {
		panic("fixture: " + err.Error())
	}
}

// resync reloads the model's table contents from the database (after a
// reported difference, so that one defect is reported once).
func (e *env) resync(m *model) error {
	for d := 0; d < 2; d++ {
		for t := 0; t < 2; t++ {
			rows, err := e.conn[d].QueryContext(ctx, "SELECT id, name FROM "+e.tn[t])
			if err != nil {
				m.rows[d][t] = nil
				continue
			}
			var out []rowT
			for rows.Next() {
				var id int64
				var name sql.NullString
				if err := rows.Scan(&id, &name); err != nil {
					rows.Close()
					return err
				}
				out = append(out, rowT{id, name.String})
			}
			rows.Close()
			m.rows[d][t] = out
		}
	}
	return nil
}

// ensureRow makes sure a row with this id exists (the administrator inserts
// one if not), so that an allowed update / delete is answered 2xx, not 404.
func (e *env) ensureRow(m *model, d, t int, id int64, step int) {
	for _, r := range m.rows[d][t] {
		if r.id == id {
			return
		}
	}
	name := fmt.Sprintf("fill%d", step)
	r := e.do(3, "PUT", "/dsns/"+dsnNames[d]+"/tables/"+e.tn[t]+"/rows", fmt.Sprintf(`{"id":%d,"name":"%s"}`, id, name))
	if r.Status/100 != 2 {
		panic(fmt.Sprintf("fixture: administrator insert: %d %s", r.Status, r.Body))
	}
	m.rows[d][t] = append(m.rows[d][t], rowT{id, name})
}

// buildRequest turns (operation, representation) into a request. ok=false:
// the representation cannot be expressed in this state.
func (e *env) buildRequest(m *model, op Op, rep string, step, ri int) (request, bool) {
	d, t := op.DSN, op.Table
	dn, tn := dsnNames[d], e.tn[t]
	base := "/dsns/" + dn + "/tables/" + tn
	txPath := "/dsns/" + dn + "/tables/@transaction"
	id := int64(op.ID)
	name := fmt.Sprintf("w%d_%d", step, ri)
	rows := &m.rows[d][t]
	rq := request{apply: func() {}}
	insert := func(ids ...int64) func() {
		return func() {
			for k, x := range ids {
				*rows = append(*rows, rowT{x, fmt.Sprintf("%s_%d", name, k)})
			}
		}
	}
	update := func() {
		for k := range *rows {
			if (*rows)[k].id == id {
				(*rows)[k].name = name
			}
		}
	}
	switch op.Req {
	case "describe":
		rq.method, rq.path = "GET", base
	case "list":
		rq.method, rq.path = "GET", "/dsns/"+dn+"/tables/"
	case "drop":
		rq.method, rq.path = "DELETE", base
	case "read":
		rq.method, rq.path = "GET", base+"/rows"
		switch rep {
		case "plain":
		case "plain-params":
			rq.path += fmt.Sprintf("?columns=id,name&filter=GE(id,%d)&sort=~id&limit=3", id)
		case "abs-param":
			rq.path += "?abstract=true"
		case "abs-accept":
			rq.headers = []string{"Accept", absMedia}
		case "tx-readrows":
			rq.method, rq.path = "POST", txPath
			rq.body = fmt.Sprintf(`[{"operation":"readrows","table":"%s"}]`, tn)
		case "tx-select":
			rq.method, rq.path = "POST", txPath
			rq.body = fmt.Sprintf(`[{"operation":"select","table":"%s","filters":["EQ(id,%d)"],"columns":["name"]}]`, tn, id)
		case "tx-sql":
			rq.method, rq.path = "POST", txPath
			rq.body = fmt.Sprintf(`[{"operation":"sql","sql":"select id, name from %s where id >= %d"}]`, tn, id)
		case "tx-readrows-sql":
			rq.method, rq.path = "POST", txPath
			rq.body = fmt.Sprintf(`[{"operation":"readrows","sql":"select name from %s"}]`, tn)
		default:
			return rq, false
		}
	case "insert":
		rq.method, rq.path = "PUT", base+"/rows"
		one := fmt.Sprintf(`{"id":%d,"name":"%s_0"}`, id, name)
		two := fmt.Sprintf(`{"id":%d,"name":"%s_0"},{"id":%d,"name":"%s_1"}`, id, name, id+10, name)
		// the abstract forms carry the _row_id_ column, as a row set read with
		// ?abstract=true does (the server assigns the value)
		absSet := fmt.Sprintf(`{"columns":[{"name":"id","type":"int"},{"name":"name","type":"string"},{"name":"_row_id_","type":"string"}],"rows":[[%d,"%s_0",""],[%d,"%s_1",""]],"count":2}`, id, name, id+10, name)
		rq.apply = insert(id, id+10)
		switch rep {
		case "plain-one":
			rq.body, rq.apply = one, insert(id)
		case "plain-set":
			rq.body = `{"rows":[` + two + `],"count":2}`
		case "plain-array":
			rq.body = `[` + two + `]`
		case "abs-param-set":
			rq.path += "?abstract=true"
			rq.body = absSet
		case "abs-param-one":
			rq.path += "?abstract=true"
			rq.body, rq.apply = fmt.Sprintf(`{"id":%d,"name":"%s_0","_row_id_":""}`, id, name), insert(id)
		case "abs-accept-set":
			rq.headers = []string{"Accept", absMedia, "Content-Type", absMedia}
			rq.body = absSet
		case "tx-insert":
			rq.method, rq.path = "POST", txPath
			rq.body, rq.apply = fmt.Sprintf(`[{"operation":"insert","table":"%s","data":%s}]`, tn, one), insert(id)
		case "tx-sql":
			rq.method, rq.path = "POST", txPath
			rq.body, rq.apply = fmt.Sprintf(`[{"operation":"sql","sql":"insert into %s (id, name) values (%d, '%s_0')"}]`, tn, id, name), insert(id)
		default:
			return rq, false
		}
	case "upsert":
		// a key that is not in the table: the row is inserted; one that is: the
		// matching rows are rewritten
		rq.method, rq.path = "PUT", base+"/rows?upsert=id"
		upsertOne := func(x int64, k int) func() {
			return func() {
				hit := false
				for j := range *rows {
					if (*rows)[j].id == x {
						(*rows)[j].name, hit = fmt.Sprintf("%s_%d", name, k), true
					}
				}
				if !hit {
					*rows = append(*rows, rowT{x, fmt.Sprintf("%s_%d", name, k)})
				}
			}
		}
		switch rep {
		case "plain-one":
			rq.body, rq.apply = fmt.Sprintf(`{"id":%d,"name":"%s_0"}`, id+20, name), upsertOne(id+20, 0)
		case "plain-set":
			rq.body = fmt.Sprintf(`{"rows":[{"id":%d,"name":"%s_0"},{"id":%d,"name":"%s_1"}],"count":2}`, id+40, name, id+50, name)
			a, b := upsertOne(id+40, 0), upsertOne(id+50, 1)
			rq.apply = func() { a(); b() }
		default:
			return rq, false
		}
	case "update":
		e.ensureRow(m, d, t, id, step)
		rq.method, rq.path = "PATCH", fmt.Sprintf("%s/rows?filter=EQ(id,%d)", base, id)
		rq.apply = update
		switch rep {
		case "plain-filter":
			rq.body = fmt.Sprintf(`{"name":"%s"}`, name)
		case "plain-set":
			rq.body = fmt.Sprintf(`{"rows":[{"name":"%s"}],"count":1}`, name)
		case "plain-columns":
			rq.path += "&columns=name"
			rq.body = fmt.Sprintf(`{"name":"%s","id":%d}`, name, id+1000)
		case "plain-rowid":
			// "If a _row_id_ field is present in the row payload, only that
			// specific row is updated" (docs/API.md): a client gets the value
			// from an earlier read; the harness reads it from the database
			var rid, old sql.NullString
			if err := e.conn[d].QueryRowContext(ctx, "SELECT _row_id_, name FROM "+tn+" WHERE id = ? ORDER BY name LIMIT 1", id).Scan(&rid, &old); err != nil || !rid.Valid || rid.String == "" {
				return rq, false
			}
			rq.path = base + "/rows"
			rq.body = fmt.Sprintf(`{"_row_id_":"%s","name":"%s"}`, rid.String, name)
			rq.apply = func() {
				for k := range *rows {
					if (*rows)[k].id == id && (*rows)[k].name == old.String {
						(*rows)[k].name = name
						return
					}
				}
			}
		case "abs-param-set":
			rq.path += "&abstract=true"
			rq.body = fmt.Sprintf(`{"columns":[{"name":"name","type":"string"}],"rows":[["%s"]],"count":1}`, name)
		case "tx-update":
			rq.method, rq.path = "POST", txPath
			rq.body = fmt.Sprintf(`[{"operation":"update","table":"%s","filters":["EQ(id,%d)"],"data":{"name":"%s"}}]`, tn, id, name)
		case "tx-sql":
			rq.method, rq.path = "POST", txPath
			rq.body = fmt.Sprintf(`[{"operation":"sql","sql":"update %s set name = '%s' where id = %d"}]`, tn, name, id)
		default:
			return rq, false
		}
	case "delete":
		e.ensureRow(m, d, t, id, step)
		rq.method, rq.path = "DELETE", fmt.Sprintf("%s/rows?filter=EQ(id,%d)", base, id)
		rq.apply = func() {
			var keep []rowT
			for _, x := range *rows {
				if x.id != id {
					keep = append(keep, x)
				}
			}
			*rows = keep
		}
		switch rep {
		case "plain-filter":
		case "plain-and":
			rq.path = fmt.Sprintf("%s/rows?filter=AND(GE(id,%d),LE(id,%d))", base, id, id)
		case "tx-delete":
			rq.method, rq.path = "POST", txPath
			rq.body = fmt.Sprintf(`[{"operation":"delete","table":"%s","filters":["EQ(id,%d)"]}]`, tn, id)
		case "tx-sql":
			rq.method, rq.path = "POST", txPath
			rq.body = fmt.Sprintf(`[{"operation":"sql","sql":"delete from %s where id = %d"}]`, tn, id)
		default:
			return rq, false
		}
	default:
		return rq, false
	}
	return rq, true
}

// -------------------------------------------------------------------- oracle

func permName(scope, p string) string { return "ego." + scope + "." + p }

func clip(b []byte, n int) string {
	s := strings.Join(strings.Fields(string(b)), " ")
	if len(s) > n {
		return s[:n] + "…"
	}
	return s
}

func setString(m map[string]bool) string {
	var k []string
	for p, v := range m {
		if v {
			k = append(k, p)
		}
	}
	sort.Strings(k)
	return strings.Join(k, ",")
}

func oracle(c Case) vkit.Outcome {
	var out vkit.Outcome
	e, err := getEnv()
	if err != nil {
		panic("fixture: " + err.Error())
	}
	if err := e.reset(); err != nil {
		panic("fixture reset: " + err.Error())
	}
	m := newModel()
	var trace []string
	var knownFail *vkit.Failure
	// fail records a violation; a recorded (known) one does not end the history
	fail := func(sig, observed, expected string) (vkit.Outcome, bool) {
		f := &vkit.Failure{Sig: sig, Observed: observed + "\nhistory so far:\n  " + strings.Join(trace, "\n  "), Expected: expected}
		if e.known[sig] {
			if knownFail == nil {
				knownFail = f
			}
			return out, false
		}
		out.Fail = f
		return out, true
	}
	// grants seen so far, for the non-triviality rule
	type gkey struct{ u, d, t int }
	var granted []gkey

	applyPerms := func(set map[string]bool, perms []string) {
		for _, p := range perms {
			set[p[1:]] = p[0] == '+'
		}
	}
	wire := func(scope string, perms []string) []string {
		var w []string
		for _, p := range perms {
			w = append(w, p[:1]+permName(scope, p[1:]))
		}
		return w
	}

	for i, op := range c.Ops {
		dn := dsnNames[op.DSN]
		tn := e.tn[op.Table]
		switch op.Kind {
		case "tgrant", "ugrant":
			actor := 3
			if op.Kind == "ugrant" {
				actor = op.Actor
			}
			b, _ := json.Marshal(wire("table", op.Perms))
			path := fmt.Sprintf("/dsns/%s/tables/%s/permissions?user=%s", dn, tn, userNames[op.User])
			r := e.do(actor, "PUT", path, string(b))
			trace = append(trace, fmt.Sprintf("%d %s PUT %s %s -> %d", i, userNames[actor], path, b, r.Status))
			ok := r.Status/100 == 2
			if actor == 3 {
				if !ok {
					if o, stop := fail("table-grant-endpoint-failed", fmt.Sprintf("administrator: PUT %s %s -> %d %s", path, b, r.Status, clip(r.Body, 300)), "2xx"); stop {
						return o
					}
				}
			} else if op.DSN == 0 {
				// an ordinary user may administer a table's grants only with
				// DSN admin or that table's admin grant (every reading agrees
				// that nothing at all does not suffice)
				has := m.dsnG[actor]["admin"] || m.tblG[actor][0][op.Table]["admin"]
				out.Labels = append(out.Labels, fmt.Sprintf("ugrant restricted has-admin=%v -> %d", has, r.Status/100))
				if ok && !has {
					if o, stop := fail("user-granted-table-permission-without-admin-grant",
						fmt.Sprintf("%s (dsn grants {%s}, table grants {%s}): PUT %s %s -> %d %s", userNames[actor], setString(m.dsnG[actor]), setString(m.tblG[actor][0][op.Table]), path, b, r.Status, clip(r.Body, 200)),
						"403: the caller administers neither the DSN nor this table"); stop {
						return o
					}
				}
			}
			set := m.tblG[op.User][op.DSN][op.Table]
			if ok {
				applyPerms(set, op.Perms)
				for _, p := range op.Perms {
					if p[0] == '+' {
						granted = append(granted, gkey{op.User, op.DSN, op.Table})
					}
				}
			}
			// what the store records now (the PUT's own answer, or for an
			// ordinary user's attempt the administrator's GET of the same path)
			var pr struct {
				Permissions []string `json:"permissions"`
			}
			src := r
			if actor != 3 {
				src = e.do(3, "GET", path, "")
			}
			if src.Status/100 == 2 && src.JSON(&pr) == nil {
				got := map[string]bool{}
				for _, p := range pr.Permissions {
					got[strings.TrimPrefix(p, "ego.table.")] = true
				}
				if setString(got) != setString(set) {
					actorHas := op.DSN == 1 || m.dsnG[actor%3]["admin"] || m.tblG[actor%3][0][op.Table]["admin"]
					switch {
					case actor != 3 && !ok && actorHas:
						// GrantPermissions applies the change and then answers through
						// ReadPermissions, which authorizes again: a table administrator
						// who removes their own admin grant gets 403 although the change
						// was stored. The caller was entitled to make it; follow the store.
						out.Labels = append(out.Labels, "ugrant by a table administrator answered 4xx but was applied; model follows the store")
						m.tblG[op.User][op.DSN][op.Table] = got
					case actor != 3 && !ok:
						if o, stop := fail("rejected-grant-attempt-changed-the-store", fmt.Sprintf("%s: PUT %s %s -> %d, afterwards the store reports {%s}", userNames[actor], path, b, r.Status, setString(got)), "unchanged: {"+setString(set)+"}"); stop {
							return o
						}
					default:
						if o, stop := fail("permission-store-differs-from-grants-made", fmt.Sprintf("after PUT %s %s -> %d the store reports {%s}", path, b, r.Status, setString(got)), "{"+setString(set)+"}"); stop {
							return o
						}
					}
				}
			}
			out.Labels = append(out.Labels, "op "+op.Kind)

		case "tclear":
			path := fmt.Sprintf("/dsns/%s/tables/%s/permissions?user=%s", dn, tn, userNames[op.User])
			r := e.do(3, "DELETE", path, "")
			trace = append(trace, fmt.Sprintf("%d admin DELETE %s -> %d", i, path, r.Status))
			if r.Status/100 != 2 {
				if o, stop := fail("table-grant-endpoint-failed", fmt.Sprintf("administrator: DELETE %s -> %d %s", path, r.Status, clip(r.Body, 300)), "2xx"); stop {
					return o
				}
			}
			m.tblG[op.User][op.DSN][op.Table] = map[string]bool{}
			out.Labels = append(out.Labels, "op tclear")

		case "dgrant":
			b, _ := json.Marshal(map[string]any{"dsn": dsnNames[0], "user": userNames[op.User], "actions": wire("dsn", op.Perms)})
			r := e.do(3, "POST", "/dsns/@permissions", string(b))
			trace = append(trace, fmt.Sprintf("%d admin POST /dsns/@permissions %s -> %d", i, b, r.Status))
			e.dsnLive = true
			if r.Status/100 != 2 {
				if o, stop := fail("dsn-grant-endpoint-failed", fmt.Sprintf("administrator: POST /dsns/@permissions %s -> %d %s", b, r.Status, clip(r.Body, 300)), "2xx"); stop {
					return o
				}
			}
			applyPerms(m.dsnG[op.User], op.Perms)
			for _, p := range op.Perms {
				if p[0] == '+' {
					granted = append(granted, gkey{op.User, 0, -1})
				}
			}
			out.Labels = append(out.Labels, "op dgrant")

		case "req":
			// old spellings (recorded replay files)
			switch op.Req {
			case "readabs":
				op.Req, op.Rep = "read", "abs-param"
			case "txread":
				op.Req, op.Rep = "read", "tx-readrows"
			case "txinsert":
				op.Req, op.Rep = "insert", "tx-insert"
			case "txdelete":
				op.Req, op.Rep = "delete", "tx-delete"
			}
			who := op.User
			reps := repsOf(op.Req)
			switch {
			case op.Rep == "all":
			case op.Rep == "":
				reps = reps[:1]
			default:
				reps = []string{op.Rep}
			}
			// non-triviality: the request follows a grant to another user on the
			// same table, or to the same user on another table / DSN
			nt := false
			if who < 3 {
				for _, g := range granted {
					if g.t >= 0 && g.u != who && g.d == op.DSN && g.t == op.Table {
						nt = true
					}
					if g.u == who && g.t >= 0 && (g.d != op.DSN || g.t != op.Table) {
						nt = true
					}
				}
			}
			ctxs := "restricted"
			switch {
			case who == 3:
				ctxs = "administrator"
			case op.DSN == 1:
				ctxs = "unrestricted"
			}
			judged := who < 3 && op.DSN == 0
			shape := ctxs
			if judged {
				shape = m.shape(who, op.Req, op.Table)
			}
			who3 := userNames[who]
			if who < 3 {
				who3 = fmt.Sprintf("%s (dsn grants {%s}; grants on this table {%s})", userNames[who], setString(m.dsnG[who]), setString(m.tblG[who][op.DSN][op.Table]))
			}
			firstAllowed, firstDenied := "", ""
			for ri, rep := range reps {
				e.reqs++
				rq, ok := e.buildRequest(m, op, rep, i, ri)
				if !ok {
					out.Labels = append(out.Labels, "representation not applicable "+op.Req+"/"+rep)
					continue
				}
				exp, why := allow, ""
				if judged {
					exp, why = m.expect(who, op.Req, op.Table, strings.HasPrefix(rep, "tx-"), strings.HasSuffix(rep, "sql"))
				}
				r := e.do(who, rq.method, rq.path, rq.body, rq.headers...)
				class := "other"
				switch {
				case r.Status/100 == 2:
					class = "2xx"
				case r.Status == 403 || r.Status == 401:
					class = "denied"
				}
				trace = append(trace, fmt.Sprintf("%d %s [%s/%s] %s %s %s %v -> %d", i, userNames[who], op.Req, rep, rq.method, rq.path, rq.body, rq.headers, r.Status))
				expS := map[tri]string{allow: "allow", deny: "deny", unsure: "unsure"}[exp]
				out.Labels = append(out.Labels, fmt.Sprintf("req %s %s expect=%s -> %s", ctxs, op.Req, expS, class))
				cell := fmt.Sprintf("%s/%s %s -> %s", op.Req, rep, shape, class)
				e.cells[cell] = true
				if judged {
					out.Labels = append(out.Labels, "cell "+cell)
				}
				if nt {
					out.NonTrivial = true
					e.ntReqs++
					out.Labels = append(out.Labels, fmt.Sprintf("nontrivial req expect=%s", expS))
				}
				obs := fmt.Sprintf("%s on the %s DSN, operation %s in representation %s: %s %s %s %v -> %d %s", who3, ctxs, op.Req, rep, rq.method, rq.path, rq.body, rq.headers, r.Status, clip(r.Body, 200))
				if r.Panic != nil {
					if o, stop := fail("handler-panic "+srvfix.PanicSite(r.Stack), obs+fmt.Sprintf(" panic: %v", r.Panic), "a response"); stop {
						return o
					}
				}
				switch {
				case exp == deny && class == "2xx":
					if o, stop := fail(fmt.Sprintf("allowed-without-grant req=%s rep=%s missing=%s", op.Req, rep, why), obs, "403: the permission store has no matching "+why+" grant for this user (each operation needs its own grant: "+ownPerm(op.Req)+")"); stop {
						return o
					}
				case exp == allow && class == "denied":
					sig := fmt.Sprintf("denied-despite-grant req=%s rep=%s", op.Req, rep)
					if ctxs != "restricted" {
						sig = fmt.Sprintf("%s-denied req=%s rep=%s", ctxs, op.Req, rep)
					}
					if o, stop := fail(sig, obs, "2xx: "+ctxs+" caller / matching DSN and table grants are recorded"); stop {
						return o
					}
				}
				// the metamorphic relation: one operation, one user, one grant state
				// -> one allow/deny class, whatever the representation. SQL text is
				// left out of the relation (its WHERE clause may ask for read too).
				if !strings.HasSuffix(rep, "sql") {
					if class == "2xx" && firstAllowed == "" {
						firstAllowed = rep
					}
					if class == "denied" && firstDenied == "" {
						firstDenied = rep
					}
				}
				// effects
				if class == "2xx" {
					rq.apply()
					switch op.Req {
					case "drop":
						// the table is gone: the administrator recreates it and
						// clears every user's grants on it explicitly, so that the
						// model does not depend on what a drop does to grants
						snap, err := e.snapshot()
						if err != nil {
							panic(err)
						}
						if !strings.Contains(snap, fmt.Sprintf("%s.t%d:absent", dn, op.Table)) {
							if o, stop := fail("drop-reported-but-table-exists", obs, "table absent"); stop {
								return o
							}
						}
						if err := e.createTable(op.DSN, op.Table); err != nil {
							panic("fixture: " + err.Error())
						}
						for u := 0; u < 3; u++ {
							p := fmt.Sprintf("/dsns/%s/tables/%s/permissions?user=%s", dn, tn, userNames[u])
							if r := e.do(3, "DELETE", p, ""); r.Status/100 != 2 {
								if o, stop := fail("table-grant-endpoint-failed", fmt.Sprintf("administrator: DELETE %s -> %d %s", p, r.Status, clip(r.Body, 300)), "2xx"); stop {
									return o
								}
							}
							m.tblG[u][op.DSN][op.Table] = map[string]bool{}
						}
						m.rows[op.DSN][op.Table] = seedRows(op.DSN, op.Table)
					case "list":
						if judged {
							var lr struct {
								Tables []struct {
									Name string `json:"name"`
								} `json:"tables"`
							}
							if r.JSON(&lr) == nil {
								shown := map[string]bool{}
								for _, t := range lr.Tables {
									shown[strings.Trim(t.Name, `"`)] = true
								}
								for t := 0; t < 2; t++ {
									ts := m.tblG[who][0][t]
									if shown[e.tn[t]] && !ts["read"] && !ts["admin"] {
										if o, stop := fail("list-shows-table-without-grant", obs+fmt.Sprintf("; table %s listed, grants on it {%s}", e.tn[t], setString(ts)), "tables without a read grant are not listed"); stop {
											return o
										}
									}
									if !shown[e.tn[t]] && ts["read"] && who != 2 {
										if o, stop := fail("list-hides-granted-table", obs+fmt.Sprintf("; table %s not listed, grants on it {%s}", e.tn[t], setString(ts)), "a table the caller may read is listed"); stop {
											return o
										}
									}
								}
							}
						}
					}
				}
				got, err := e.snapshot()
				if err != nil {
					panic("snapshot: " + err.Error())
				}
				if want := m.snapshot(); got != want {
					if o, stop := fail(fmt.Sprintf("contents-differ req=%s rep=%s class=%s expect=%s", op.Req, rep, class, expS), obs+"; database:\n"+got, "database:\n"+want); stop {
						return o
					}
					// keep going from what the database holds
					panicIf(e.resync(m))
				}
			}
			if len(reps) > 1 {
				out.Labels = append(out.Labels, fmt.Sprintf("sweep %s %s", ctxs, op.Req))
			}
			if firstAllowed != "" && firstDenied != "" {
				if o, stop := fail(fmt.Sprintf("representations-disagree req=%s allowed=%s denied=%s", op.Req, firstAllowed, firstDenied),
					fmt.Sprintf("%s on the %s DSN: operation %s answered 2xx in representation %s and 401/403 in representation %s with the same grants", who3, ctxs, op.Req, firstAllowed, firstDenied),
					"the same allow/deny class in every representation of one operation"); stop {
					return o
				}
			}
		}
	}
	out.Labels = append(out.Labels, fmt.Sprintf("history len=%d..%d", len(c.Ops)/8*8, len(c.Ops)/8*8+7))
	if knownFail != nil {
		out.Fail = knownFail
	}
	return out
}

// ----------------------------------------------------------------- generator

var (
	tblPerms = []string{"read", "write", "update", "delete", "admin"}
	dsnPerms = []string{"read", "write", "admin"}
	reqKinds = []string{"read", "read", "insert", "insert", "upsert", "update", "update", "update", "delete", "delete", "describe", "list", "drop"}
)

func genPerms(t *rapid.T, pool []string, plusBias int) []string {
	n := rapid.SampledFrom([]int{1, 1, 2, 3, 4, 5}).Draw(t, "nperm")
	seen := map[string]bool{}
	var out []string
	for i := 0; i < n; i++ {
		p := rapid.SampledFrom(pool).Draw(t, "perm")
		if seen[p] {
			continue
		}
		seen[p] = true
		sign := "+"
		if rapid.IntRange(0, plusBias).Draw(t, "sign") == 0 {
			sign = "-"
		}
		out = append(out, sign+p)
	}
	return out
}

func genOp(t *rapid.T) Op {
	k := rapid.SampledFrom([]string{"tgrant", "tgrant", "tgrant", "tgrant", "dgrant", "dgrant", "tclear", "ugrant", "req", "req", "req", "req", "req", "req", "req", "req", "req", "req"}).Draw(t, "kind")
	op := Op{Kind: k}
	op.User = rapid.IntRange(0, 2).Draw(t, "user")
	op.DSN = rapid.SampledFrom([]int{0, 0, 0, 1}).Draw(t, "dsn")
	op.Table = rapid.IntRange(0, 1).Draw(t, "table")
	switch k {
	case "tgrant":
		op.Perms = genPerms(t, tblPerms, 4)
	case "ugrant":
		op.Actor = rapid.IntRange(0, 2).Draw(t, "actor")
		op.Perms = genPerms(t, tblPerms, 8)
	case "dgrant":
		op.DSN = 0
		op.Perms = genPerms(t, dsnPerms, 5)
	case "req":
		op.User = rapid.SampledFrom([]int{0, 0, 0, 1, 1, 1, 2, 2, 3}).Draw(t, "who")
		op.Req = rapid.SampledFrom(reqKinds).Draw(t, "req")
		op.ID = rapid.IntRange(1, 5).Draw(t, "id")
		if reps := repsOf(op.Req); len(reps) > 1 {
			// one representation, or (one time in four) all of them
			if rapid.IntRange(0, 3).Draw(t, "sweep") == 0 {
				op.Rep = "all"
			} else {
				op.Rep = rapid.SampledFrom(reps).Draw(t, "rep")
			}
		}
	}
	return op
}

func gen(t *rapid.T) Case {
	n := rapid.IntRange(6, 24).Draw(t, "n")
	var c Case
	// prelude: most histories start with DSN-level grants for some users, so
	// that the table tier is what decides most requests
	for u := 0; u < 3; u++ {
		switch rapid.IntRange(0, 4).Draw(t, "prelude") {
		case 0, 1:
			c.Ops = append(c.Ops, Op{Kind: "dgrant", User: u, Perms: []string{"+read", "+write"}})
		case 2:
			c.Ops = append(c.Ops, Op{Kind: "dgrant", User: u, Perms: []string{"+read"}})
		case 3:
			c.Ops = append(c.Ops, Op{Kind: "dgrant", User: u, Perms: []string{"+write"}})
		}
	}
	for i := 0; i < n; i++ {
		c.Ops = append(c.Ops, genOp(t))
	}
	return c
}

// sweepCase: for each table-grant shape in turn, user u gets exactly that
// shape on table 0 and then runs every row operation in every representation.
func sweepCase(u int, dsn []string, shapes [][]string) Case {
	var c Case
	c.Ops = append(c.Ops, Op{Kind: "dgrant", User: u, Perms: dsn})
	for k, sh := range shapes {
		c.Ops = append(c.Ops, Op{Kind: "tclear", User: u, DSN: 0, Table: 0})
		if len(sh) > 0 {
			c.Ops = append(c.Ops, Op{Kind: "tgrant", User: u, DSN: 0, Table: 0, Perms: sh})
		}
		// another user holds everything on the same table, this user holds
		// everything on the other table: neither may help
		if k == 0 {
			c.Ops = append(c.Ops, Op{Kind: "tgrant", User: (u + 1) % 2, DSN: 0, Table: 0, Perms: []string{"+read", "+write", "+update", "+delete"}})
			c.Ops = append(c.Ops, Op{Kind: "tgrant", User: u, DSN: 0, Table: 1, Perms: []string{"+read", "+write", "+update", "+delete"}})
		}
		for _, rq := range []string{"read", "insert", "upsert", "update", "delete"} {
			c.Ops = append(c.Ops, Op{Kind: "req", User: u, DSN: 0, Table: 0, Req: rq, ID: 1 + k%3, Rep: "all"})
		}
	}
	return c
}

// fixed: the situations the property statement and the past defects name.
func fixed() []Case {
	full := []string{"+read", "+write", "+update", "+delete"}
	return []Case{
		// grant to B on a table; A and B then use that table and the other one
		{Ops: []Op{
			{Kind: "dgrant", User: 0, Perms: []string{"+read", "+write"}}, {Kind: "dgrant", User: 1, Perms: []string{"+read", "+write"}},
			{Kind: "tgrant", User: 1, DSN: 0, Table: 0, Perms: full},
			{Kind: "req", User: 0, DSN: 0, Table: 0, Req: "read"}, {Kind: "req", User: 1, DSN: 0, Table: 0, Req: "read"},
			{Kind: "req", User: 1, DSN: 0, Table: 1, Req: "read"}, {Kind: "req", User: 0, DSN: 0, Table: 0, Req: "insert", ID: 4},
			{Kind: "req", User: 1, DSN: 0, Table: 0, Req: "insert", ID: 4}, {Kind: "req", User: 0, DSN: 0, Table: 0, Req: "delete", ID: 1},
			{Kind: "req", User: 1, DSN: 0, Table: 1, Req: "update", ID: 1}, {Kind: "req", User: 1, DSN: 0, Table: 0, Req: "update", ID: 1},
			{Kind: "req", User: 0, DSN: 0, Table: 0, Req: "list"}, {Kind: "req", User: 1, DSN: 0, Table: 0, Req: "list"},
		}},
		// two grantees on one table (the old filter bug denied everybody), then a revoke
		{Ops: []Op{
			{Kind: "dgrant", User: 0, Perms: []string{"+read"}}, {Kind: "dgrant", User: 1, Perms: []string{"+read"}}, {Kind: "dgrant", User: 2, Perms: []string{"+read"}},
			{Kind: "tgrant", User: 0, DSN: 0, Table: 1, Perms: []string{"+read"}}, {Kind: "tgrant", User: 1, DSN: 0, Table: 1, Perms: []string{"+read"}},
			{Kind: "req", User: 0, DSN: 0, Table: 1, Req: "read"}, {Kind: "req", User: 1, DSN: 0, Table: 1, Req: "read", Rep: "abs-param"}, {Kind: "req", User: 2, DSN: 0, Table: 1, Req: "read"},
			{Kind: "tgrant", User: 0, DSN: 0, Table: 1, Perms: []string{"-read"}},
			{Kind: "req", User: 0, DSN: 0, Table: 1, Req: "read"}, {Kind: "req", User: 1, DSN: 0, Table: 1, Req: "describe"},
			{Kind: "tclear", User: 1, DSN: 0, Table: 1}, {Kind: "req", User: 1, DSN: 0, Table: 1, Req: "read"},
		}},
		// same table name on the other DSN; unrestricted DSN and administrator are not limited
		{Ops: []Op{
			{Kind: "tgrant", User: 0, DSN: 1, Table: 0, Perms: full},
			{Kind: "dgrant", User: 0, Perms: []string{"+read", "+write"}},
			{Kind: "req", User: 0, DSN: 0, Table: 0, Req: "read"}, {Kind: "req", User: 0, DSN: 0, Table: 0, Req: "delete", ID: 2},
			{Kind: "req", User: 0, DSN: 1, Table: 0, Req: "delete", ID: 2}, {Kind: "req", User: 2, DSN: 1, Table: 1, Req: "insert", ID: 5},
			{Kind: "req", User: 3, DSN: 0, Table: 1, Req: "update", ID: 3}, {Kind: "req", User: 3, DSN: 0, Table: 0, Req: "drop"},
			{Kind: "req", User: 1, DSN: 0, Table: 1, Req: "drop"}, {Kind: "req", User: 1, DSN: 1, Table: 1, Req: "drop"},
			{Kind: "ugrant", Actor: 1, User: 1, DSN: 0, Table: 0, Perms: []string{"+read"}},
		}},
		// DSN-level read grant only, full table grants: changes must be denied on every path
		{Ops: []Op{
			{Kind: "dgrant", User: 0, Perms: []string{"+read"}},
			{Kind: "tgrant", User: 0, DSN: 0, Table: 0, Perms: append([]string{"+admin"}, full...)},
			{Kind: "tgrant", User: 1, DSN: 0, Table: 0, Perms: full},
			{Kind: "req", User: 0, DSN: 0, Table: 0, Req: "read"}, {Kind: "req", User: 0, DSN: 0, Table: 0, Req: "read", Rep: "tx-readrows"},
			{Kind: "req", User: 0, DSN: 0, Table: 0, Req: "insert", ID: 4}, {Kind: "req", User: 0, DSN: 0, Table: 0, Req: "update", ID: 1},
			{Kind: "req", User: 0, DSN: 0, Table: 0, Req: "delete", ID: 2}, {Kind: "req", User: 0, DSN: 0, Table: 0, Req: "insert", Rep: "tx-insert", ID: 5},
			{Kind: "req", User: 0, DSN: 0, Table: 0, Req: "delete", Rep: "tx-delete", ID: 3}, {Kind: "req", User: 1, DSN: 0, Table: 0, Req: "insert", Rep: "tx-insert", ID: 5},
		}},
		// DSN-level write grant only: reads must be denied on every path
		{Ops: []Op{
			{Kind: "dgrant", User: 1, Perms: []string{"+write"}},
			{Kind: "tgrant", User: 1, DSN: 0, Table: 1, Perms: full},
			{Kind: "req", User: 1, DSN: 0, Table: 1, Req: "read", Rep: "all"},
			{Kind: "req", User: 1, DSN: 0, Table: 1, Req: "describe"}, {Kind: "req", User: 1, DSN: 0, Table: 1, Req: "list"},
			{Kind: "req", User: 1, DSN: 0, Table: 1, Req: "insert", ID: 4, Rep: "all"},
		}},
		// the sweep: every single-permission shape, the pairs that lack exactly the
		// operation's own permission, admin only, nothing; every operation in every
		// representation under each shape (so quick always covers write-without-update,
		// update-without-write, delete-without-update, ... in each representation)
		sweepCase(0, []string{"+read", "+write"}, [][]string{
			{"+read"}, {"+write"}, {"+update"}, {"+delete"}, {"+admin"}, {},
		}),
		sweepCase(1, []string{"+read", "+write"}, [][]string{
			{"+write", "+update"}, {"+read", "+write", "+delete"}, {"+read", "+update", "+delete"}, {"+read", "+write", "+update"}, {"+write", "+update", "+delete"}, {"+read", "+write", "+update", "+delete"},
		}),
		// DSN tier: read only / write only with every table grant
		sweepCase(0, []string{"+read"}, [][]string{{"+read", "+write", "+update", "+delete"}}),
		sweepCase(1, []string{"+write"}, [][]string{{"+read", "+write", "+update", "+delete"}}),
		// the third user (ego.logon + ego.sql only) and the unrestricted DSN / administrator
		sweepCase(2, []string{"+read", "+write"}, [][]string{{"+write"}, {"+update"}, {}}),
		{Ops: []Op{
			{Kind: "req", User: 0, DSN: 1, Table: 0, Req: "read", Rep: "all"}, {Kind: "req", User: 2, DSN: 1, Table: 0, Req: "insert", ID: 2, Rep: "all"},
			{Kind: "req", User: 1, DSN: 1, Table: 0, Req: "update", ID: 2, Rep: "all"}, {Kind: "req", User: 1, DSN: 1, Table: 0, Req: "delete", ID: 3, Rep: "all"},
			{Kind: "req", User: 3, DSN: 0, Table: 1, Req: "read", Rep: "all"}, {Kind: "req", User: 3, DSN: 0, Table: 1, Req: "insert", ID: 2, Rep: "all"},
			{Kind: "req", User: 3, DSN: 0, Table: 1, Req: "upsert", ID: 2, Rep: "all"}, {Kind: "req", User: 3, DSN: 0, Table: 1, Req: "update", ID: 2, Rep: "all"},
			{Kind: "req", User: 3, DSN: 0, Table: 1, Req: "delete", ID: 3, Rep: "all"},
		}},
	}
}

func TestC43(t *testing.T) {
	vkit.Run(t, vkit.Spec[Case]{
		ID:    "C43",
		Level: "exploration",
		Rule: "history of 6-27 steps: table grants/revokes and clears (user x DSN x table x {read,write,update,delete,admin}) and DSN-level grants/revokes ({read,write,admin}, restricted DSN) by the administrator through the REST permission endpoints, " +
			"grant attempts by ordinary users, and requests by 3 ordinary users and the administrator on a restricted and an unrestricted SQLite DSN with 2 tables each: row operations read/insert/upsert/update/delete, each in one of its representations " +
			"(plain JSON payload and parameter variants, ?abstract=true, abstract media type, @transaction task kinds incl. SQL text) or in all of them (sweep, one time in four), plus describe, list, drop. " +
			"Fixed cases sweep every operation x representation under every single-permission grant shape, the shapes lacking exactly one permission, admin-only, none, and DSN read-only / write-only. " +
			"Non-trivial: the history has a request by user A after a table grant to another user on the same table, or to A on another table/DSN; distinct by history. " +
			"coverage.requests / requests_nontrivial count single requests; coverage.cells_operation_representation_shape_class lists every (operation/representation, grant shape, answer class) that occurred.",
		Assumptions: []string{
			"database-backed user/permission store (with the file store ego has no table_perms store and allows everything)",
			"details on which docs/API.md, docs/SERVER.md and the code disagree are not asserted (see the comment at the top of c43_test.go)",
			"PostgreSQL, the @sql endpoint, multi-task scripts and ?user= impersonation are not exercised here; PATCH/DELETE reject the abstract media type and DELETE rejects ?abstract at the router, so those spellings are not representations",
		},
		Gen:      gen,
		Oracle:   oracle,
		Fixed:    fixed,
		Quick:    50,
		Thorough: 2500,
		Extra: func() map[string]any {
			if theEnv == nil {
				return nil
			}
			var cells []string
			for k := range theEnv.cells {
				cells = append(cells, k)
			}
			sort.Strings(cells)
			return map[string]any{"requests": theEnv.reqs, "requests_nontrivial": theEnv.ntReqs, "cells_operation_representation_shape_class": cells}
		},
	})
}
