// Package c43 decides C43 "Row endpoints enforce table grants".
//
// A case is a history of grant / revoke operations (table-level grants through
// PUT|DELETE /dsns/{dsn}/tables/{table}/permissions, DSN-level grants through
// POST /dsns/@permissions, all by the administrator; plus attempts by ordinary
// users to grant table permissions) interleaved with row reads, inserts,
// updates, deletes, table metadata, table list and table drop requests by
// three non-administrators and the administrator, on one restricted and one
// unrestricted SQLite DSN with two tables each.
//
// The oracle keeps a model of the grant store and of the table contents. The
// documented rule (docs/SERVER.md "Permissions Model", "Putting it together"):
// ego.root -> allowed; unrestricted DSN -> allowed; otherwise the caller needs
// the DSN-level grant for the action (read for reads, write for changes) AND
// the table-level grant for the operation. After every request the four tables
// are read through independent database/sql connections and compared with the
// model (a denied request changes nothing).
//
// Where the documentation contradicts itself or the code on a detail the
// property does not fix, the model only asserts what every reading agrees on:
//   - docs/API.md says an insert needs table.update, docs/SERVER.md says
//     table.write: an insert is "certainly allowed" with both, "certainly
//     denied" with neither;
//   - SERVER.md: a DSN-level admin grant "also satisfies read and write"; the
//     code keeps three independent bits: a request that has only the DSN admin
//     grant for a read/write is not judged;
//   - table.admin is documented as "may administer that table's permissions";
//     the code also lets it read/write rows: a request that has only the
//     table admin grant is not judged;
//   - drop table: API.md says table.update, the code asks for DSN admin, the
//     statement says "matching grant for that user, DSN and table": certainly
//     allowed with DSN admin + table admin + table update, certainly denied
//     without DSN admin and without (a DSN grant and table admin|update);
//   - SERVER.md calls the identity-wide ego.table.* permissions a coarse gate
//     "to reach the endpoint at all"; the routes do not check them. Users u1
//     and u2 hold them, u3 holds ego.logon only; for u3 only the "denied
//     without grant" direction is asserted.
//
// Preconditions taken from callers: user names lower-case; grants use the
// documented permission names with +/- prefixes and the documented single-item
// body of POST /dsns/@permissions; DSN-level grants are only made on the
// restricted DSN (a grant on an unrestricted DSN is documented to restrict it);
// the permission store is the database-backed one (UserStore sqlite): with a
// file user store ego has no table_perms store and allows everything.
package c43

import (
	"context"
	"database/sql"
	"encoding/json"
	"fmt"
	"os"
	"path/filepath"
	"sort"
	"strings"
	"sync"
	"testing"

	"github.com/tucats/ego/verif/srvfix"
	"github.com/tucats/ego/verif/vkit"
	_ "modernc.org/sqlite"
	"pgregory.net/rapid"
)

// ---------------------------------------------------------------- case data

// Op is one step of a history.
type Op struct {
	Kind  string   `json:"kind"`            // tgrant tclear dgrant ugrant req
	User  int      `json:"user"`            // 0,1,2 = u1,u2,u3; 3 = administrator (req only). For grants: the grantee
	Actor int      `json:"actor,omitempty"` // ugrant: the ordinary user who tries to grant
	DSN   int      `json:"dsn"`             // 0 restricted, 1 unrestricted
	Table int      `json:"table"`           // 0 | 1
	Perms []string `json:"perms,omitempty"` // "+read" "-write" ... (table: read write update delete admin; dsn: read write admin)
	Req   string   `json:"req,omitempty"`   // read readabs describe list insert update delete drop txread txinsert txdelete (one-task @transaction)
	ID    int      `json:"id,omitempty"`    // row id for insert / update / delete
}

type Case struct {
	Ops []Op `json:"ops"`
}

var (
	userNames = []string{"c43ua", "c43ub", "c43uc", "admin"}
	dsnNames  = []string{"c43r", "c43u"}
)

// ------------------------------------------------------------------- model

type rowT struct {
	id   int64
	name string
}

type model struct {
	dsnG [3]map[string]bool       // user -> DSN-level grants on the restricted DSN
	tblG [3][2][2]map[string]bool // user, dsn, table -> table-level grants
	rows [2][2][]rowT             // dsn, table -> rows
}

func newModel() *model {
	m := &model{}
	for u := 0; u < 3; u++ {
		m.dsnG[u] = map[string]bool{}
		for d := 0; d < 2; d++ {
			for t := 0; t < 2; t++ {
				m.tblG[u][d][t] = map[string]bool{}
			}
		}
	}
	for d := 0; d < 2; d++ {
		for t := 0; t < 2; t++ {
			m.rows[d][t] = seedRows(d, t)
		}
	}
	return m
}

func seedRows(d, t int) []rowT {
	return []rowT{{1, fmt.Sprintf("s%d%d1", d, t)}, {2, fmt.Sprintf("s%d%d2", d, t)}, {3, fmt.Sprintf("s%d%d3", d, t)}}
}

func snapRows(rows []rowT) string {
	r := append([]rowT(nil), rows...)
	sort.Slice(r, func(a, b int) bool {
		if r[a].id != r[b].id {
			return r[a].id < r[b].id
		}
		return r[a].name < r[b].name
	})
	var b strings.Builder
	for _, x := range r {
		fmt.Fprintf(&b, "(%d,%s)", x.id, x.name)
	}
	return b.String()
}

func (m *model) snapshot() string {
	var b strings.Builder
	for d := 0; d < 2; d++ {
		for t := 0; t < 2; t++ {
			fmt.Fprintf(&b, "%s.t%d:%s\n", dsnNames[d], t, snapRows(m.rows[d][t]))
		}
	}
	return b.String()
}

type tri int

const (
	unsure tri = iota
	allow
	deny
)

// expect gives what every reading of the documentation agrees on for a
// request by ordinary user u on the restricted DSN, and which tier denies.
func (m *model) expect(u int, req string, t int) (tri, string) {
	ds := m.dsnG[u]
	ts := m.tblG[u][0][t]
	dAllow := func(x string) bool { return ds[x] }
	dDeny := func(x string) bool { return !ds[x] && !ds["admin"] }
	var a, dn bool
	why := ""
	switch req {
	case "txread":
		// @transaction opens the DSN for read+write in the code; the docs ask
		// for the action that matches the operation
		a = dAllow("read") && dAllow("write") && ts["read"]
		switch {
		case dDeny("read"):
			dn, why = true, "dsn"
		case !ts["read"] && !ts["admin"]:
			dn, why = true, "table"
		}
	case "txinsert":
		a = dAllow("read") && dAllow("write") && ts["write"] && ts["update"]
		switch {
		case dDeny("write"):
			dn, why = true, "dsn"
		case !ts["write"] && !ts["update"] && !ts["admin"]:
			dn, why = true, "table"
		}
	case "txdelete":
		a = dAllow("read") && dAllow("write") && ts["delete"]
		switch {
		case dDeny("write"):
			dn, why = true, "dsn"
		case !ts["delete"] && !ts["admin"]:
			dn, why = true, "table"
		}
	case "read", "readabs", "describe":
		a = dAllow("read") && ts["read"]
		switch {
		case dDeny("read"):
			dn, why = true, "dsn"
		case !ts["read"] && !ts["admin"]:
			dn, why = true, "table"
		}
	case "list":
		a = dAllow("read")
		if dDeny("read") {
			dn, why = true, "dsn"
		}
	case "insert":
		a = dAllow("write") && ts["write"] && ts["update"]
		switch {
		case dDeny("write"):
			dn, why = true, "dsn"
		case !ts["write"] && !ts["update"] && !ts["admin"]:
			dn, why = true, "table"
		}
	case "update":
		a = dAllow("write") && ts["update"]
		switch {
		case dDeny("write"):
			dn, why = true, "dsn"
		case !ts["update"] && !ts["admin"]:
			dn, why = true, "table"
		}
	case "delete":
		a = dAllow("write") && ts["delete"]
		switch {
		case dDeny("write"):
			dn, why = true, "dsn"
		case !ts["delete"] && !ts["admin"]:
			dn, why = true, "table"
		}
	case "drop":
		a = ds["admin"] && ts["admin"] && ts["update"]
		anyDSN := ds["read"] || ds["write"] || ds["admin"]
		if !ds["admin"] && !(anyDSN && (ts["admin"] || ts["update"])) {
			dn, why = true, "dsn+table"
		}
	}
	switch {
	case dn:
		return deny, why
	case a && u != 2:
		return allow, ""
	}
	return unsure, ""
}

// ------------------------------------------------------------- environment

type env struct {
	known   map[string]bool
	f       *srvfix.Fixture
	hdr     [4]map[string]string
	conn    [2]*sql.DB
	gen     int
	tn      [2]string // table names of the current case (same on both DSNs)
	dsnLive bool      // DSN-level grants may be left from the previous case
	reqs    int
	ntReqs  int
}

var (
	envOnce sync.Once
	theEnv  *env
	envErr  error
	ctx     = context.Background()
)

const password = "Passw0rd!c43"

func getEnv() (*env, error) {
	envOnce.Do(func() { theEnv, envErr = startEnv() })
	return theEnv, envErr
}

func startEnv() (*env, error) {
	f, err := srvfix.Start(srvfix.Options{UserStore: "sqlite", Settings: map[string]string{"ego.server.token.expiration": "96h"}})
	if err != nil {
		return nil, err
	}
	e := &env{f: f, known: loadKnown()}
	tok, err := f.AdminToken()
	if err != nil {
		return nil, err
	}
	mk := func(t string) map[string]string {
		h := srvfix.Bearer(t)
		h["Content-Type"] = "application/json"
		return h
	}
	e.hdr[3] = mk(tok)
	idPerms := []string{"ego.logon", "ego.table.read", "ego.table.write", "ego.table.update", "ego.table.delete"}
	for u := 0; u < 3; u++ {
		perms := idPerms
		if u == 2 {
			perms = []string{"ego.logon"}
		}
		if err := f.CreateUser(tok, userNames[u], password, perms); err != nil {
			return nil, err
		}
		t, err := f.Logon(userNames[u], password)
		if err != nil {
			return nil, err
		}
		e.hdr[u] = mk(t)
	}
	for d := 0; d < 2; d++ {
		file := filepath.Join(f.Dir, dsnNames[d]+".db")
		b, _ := json.Marshal(map[string]any{"name": dsnNames[d], "provider": "sqlite", "database": file, "rowid": true, "restricted": d == 0})
		if r := e.do(3, "POST", "/dsns/", string(b)); r.Status/100 != 2 {
			return nil, fmt.Errorf("create dsn: %d %s", r.Status, r.Body)
		}
		// a first table so that the file exists before the independent connection opens it
		if r := e.do(3, "PUT", "/dsns/"+dsnNames[d]+"/tables/c43init", `[{"name":"k","type":"int"}]`); r.Status/100 != 2 {
			return nil, fmt.Errorf("create init table: %d %s", r.Status, r.Body)
		}
		db, err := sql.Open("sqlite", file)
		if err != nil {
			return nil, err
		}
		db.SetMaxOpenConns(1)
		e.conn[d] = db
	}
	return e, nil
}

// loadKnown reads the signatures of recorded findings (the file vkit uses), so
// that a history goes on behind a recorded defect instead of ending there.
func loadKnown() map[string]bool {
	out := map[string]bool{}
	p := os.Getenv("VERIF_KNOWN")
	if p == "" {
		p = filepath.Join(vkit.Root(), "known_findings.json")
	}
	b, err := os.ReadFile(p)
	if err != nil {
		return out
	}
	var kf struct {
		Findings []struct {
			Property string `json:"property"`
			Sig      string `json:"sig"`
		} `json:"findings"`
	}
	if json.Unmarshal(b, &kf) == nil {
		for _, k := range kf.Findings {
			if k.Property == "C43" {
				out[k.Sig] = true
			}
		}
	}
	return out
}

func (e *env) do(who int, method, path, body string) *srvfix.Response {
	return e.f.Do(srvfix.Request{Method: method, Path: path, Header: e.hdr[who], Body: body})
}

const colDefs = `[{"name":"id","type":"int"},{"name":"name","type":"string"}]`

func (e *env) createTable(d, t int) error {
	tn := e.tn[t]
	if r := e.do(3, "PUT", "/dsns/"+dsnNames[d]+"/tables/"+tn, colDefs); r.Status/100 != 2 {
		return fmt.Errorf("create table %s: %d %s", tn, r.Status, r.Body)
	}
	var rows []map[string]any
	for _, r := range seedRows(d, t) {
		rows = append(rows, map[string]any{"id": r.id, "name": r.name})
	}
	b, _ := json.Marshal(map[string]any{"rows": rows, "count": len(rows)})
	if r := e.do(3, "PUT", "/dsns/"+dsnNames[d]+"/tables/"+tn+"/rows", string(b)); r.Status/100 != 2 {
		return fmt.Errorf("seed table %s: %d %s", tn, r.Status, r.Body)
	}
	return nil
}

// reset gives the case fresh tables (so no table-level grant of an earlier
// case applies) and clears the DSN-level grants of the three users.
func (e *env) reset() error {
	for d := 0; d < 2; d++ {
		for _, tn := range e.tn {
			if tn != "" {
				_, _ = e.conn[d].ExecContext(ctx, "DROP TABLE IF EXISTS "+tn)
			}
		}
	}
	e.gen++
	e.tn = [2]string{fmt.Sprintf("ta%d", e.gen), fmt.Sprintf("tb%d", e.gen)}
	for d := 0; d < 2; d++ {
		for t := 0; t < 2; t++ {
			if err := e.createTable(d, t); err != nil {
				return err
			}
		}
	}
	if e.dsnLive {
		for u := 0; u < 3; u++ {
			b, _ := json.Marshal(map[string]any{"dsn": dsnNames[0], "user": userNames[u], "actions": []string{"-ego.dsn.read", "-ego.dsn.write", "-ego.dsn.admin"}})
			if r := e.do(3, "POST", "/dsns/@permissions", string(b)); r.Status/100 != 2 {
				return fmt.Errorf("reset dsn grants: %d %s", r.Status, r.Body)
			}
		}
		e.dsnLive = false
	}
	// the unrestricted DSN must still be unrestricted
	r := e.do(3, "GET", "/dsns/"+dsnNames[1]+"/", "")
	var info struct {
		Restricted bool `json:"restricted"`
	}
	if r.Status != 200 || r.JSON(&info) != nil || info.Restricted {
		return fmt.Errorf("unrestricted DSN changed: %d %s", r.Status, r.Body)
	}
	return nil
}

func (e *env) snapshot() (string, error) {
	var b strings.Builder
	for d := 0; d < 2; d++ {
		for t := 0; t < 2; t++ {
			var c int
			if err := e.conn[d].QueryRowContext(ctx, "SELECT count(*) FROM sqlite_master WHERE type='table' AND name=?", e.tn[t]).Scan(&c); err != nil {
				return "", err
			}
			if c == 0 {
				fmt.Fprintf(&b, "%s.t%d:absent\n", dsnNames[d], t)
				continue
			}
			rows, err := e.conn[d].QueryContext(ctx, "SELECT id, name FROM "+e.tn[t]+" ORDER BY id, name")
			if err != nil {
				return "", err
			}
			fmt.Fprintf(&b, "%s.t%d:", dsnNames[d], t)
			for rows.Next() {
				var id, name any
				if err := rows.Scan(&id, &name); err != nil {
					rows.Close()
					return "", err
				}
				if bb, ok := name.([]byte); ok {
					name = string(bb)
				}
				fmt.Fprintf(&b, "(%v,%v)", id, name)
			}
			rows.Close()
			b.WriteString("\n")
		}
	}
	return b.String(), nil
}

// -------------------------------------------------------------------- oracle

func permName(scope, p string) string { return "ego." + scope + "." + p }

func clip(b []byte, n int) string {
	s := strings.Join(strings.Fields(string(b)), " ")
	if len(s) > n {
		return s[:n] + "…"
	}
	return s
}

func setString(m map[string]bool) string {
	var k []string
	for p, v := range m {
		if v {
			k = append(k, p)
		}
	}
	sort.Strings(k)
	return strings.Join(k, ",")
}

func oracle(c Case) vkit.Outcome {
	var out vkit.Outcome
	e, err := getEnv()
	if err != nil {
		panic("fixture: " + err.Error())
	}
	if err := e.reset(); err != nil {
		panic("fixture reset: " + err.Error())
	}
	m := newModel()
	var trace []string
	var knownFail *vkit.Failure
	// fail records a violation; a recorded (known) one does not end the history
	fail := func(sig, observed, expected string) (vkit.Outcome, bool) {
		f := &vkit.Failure{Sig: sig, Observed: observed + "\nhistory so far:\n  " + strings.Join(trace, "\n  "), Expected: expected}
		if e.known[sig] {
			if knownFail == nil {
				knownFail = f
			}
			return out, false
		}
		out.Fail = f
		return out, true
	}
	// grants seen so far, for the non-triviality rule
	type gkey struct{ u, d, t int }
	var granted []gkey

	applyPerms := func(set map[string]bool, perms []string) {
		for _, p := range perms {
			set[p[1:]] = p[0] == '+'
		}
	}
	wire := func(scope string, perms []string) []string {
		var w []string
		for _, p := range perms {
			w = append(w, p[:1]+permName(scope, p[1:]))
		}
		return w
	}

	for i, op := range c.Ops {
		dn := dsnNames[op.DSN]
		tn := e.tn[op.Table]
		switch op.Kind {
		case "tgrant", "ugrant":
			actor := 3
			if op.Kind == "ugrant" {
				actor = op.Actor
			}
			b, _ := json.Marshal(wire("table", op.Perms))
			path := fmt.Sprintf("/dsns/%s/tables/%s/permissions?user=%s", dn, tn, userNames[op.User])
			r := e.do(actor, "PUT", path, string(b))
			trace = append(trace, fmt.Sprintf("%d %s PUT %s %s -> %d", i, userNames[actor], path, b, r.Status))
			ok := r.Status/100 == 2
			if actor == 3 {
				if !ok {
					if o, stop := fail("table-grant-endpoint-failed", fmt.Sprintf("administrator: PUT %s %s -> %d %s", path, b, r.Status, clip(r.Body, 300)), "2xx"); stop {
						return o
					}
				}
			} else if op.DSN == 0 {
				// an ordinary user may administer a table's grants only with
				// DSN admin or that table's admin grant (every reading agrees
				// that nothing at all does not suffice)
				has := m.dsnG[actor]["admin"] || m.tblG[actor][0][op.Table]["admin"]
				out.Labels = append(out.Labels, fmt.Sprintf("ugrant restricted has-admin=%v -> %d", has, r.Status/100))
				if ok && !has {
					if o, stop := fail("user-granted-table-permission-without-admin-grant",
						fmt.Sprintf("%s (dsn grants {%s}, table grants {%s}): PUT %s %s -> %d %s", userNames[actor], setString(m.dsnG[actor]), setString(m.tblG[actor][0][op.Table]), path, b, r.Status, clip(r.Body, 200)),
						"403: the caller administers neither the DSN nor this table"); stop {
						return o
					}
				}
			}
			set := m.tblG[op.User][op.DSN][op.Table]
			if ok {
				applyPerms(set, op.Perms)
				for _, p := range op.Perms {
					if p[0] == '+' {
						granted = append(granted, gkey{op.User, op.DSN, op.Table})
					}
				}
			}
			// what the store records now (the PUT's own answer, or for an
			// ordinary user's attempt the administrator's GET of the same path)
			var pr struct {
				Permissions []string `json:"permissions"`
			}
			src := r
			if actor != 3 {
				src = e.do(3, "GET", path, "")
			}
			if src.Status/100 == 2 && src.JSON(&pr) == nil {
				got := map[string]bool{}
				for _, p := range pr.Permissions {
					got[strings.TrimPrefix(p, "ego.table.")] = true
				}
				if setString(got) != setString(set) {
					actorHas := op.DSN == 1 || m.dsnG[actor%3]["admin"] || m.tblG[actor%3][0][op.Table]["admin"]
					switch {
					case actor != 3 && !ok && actorHas:
						// GrantPermissions applies the change and then answers through
						// ReadPermissions, which authorizes again: a table administrator
						// who removes their own admin grant gets 403 although the change
						// was stored. The caller was entitled to make it; follow the store.
						out.Labels = append(out.Labels, "ugrant by a table administrator answered 4xx but was applied; model follows the store")
						m.tblG[op.User][op.DSN][op.Table] = got
					case actor != 3 && !ok:
						if o, stop := fail("rejected-grant-attempt-changed-the-store", fmt.Sprintf("%s: PUT %s %s -> %d, afterwards the store reports {%s}", userNames[actor], path, b, r.Status, setString(got)), "unchanged: {"+setString(set)+"}"); stop {
							return o
						}
					default:
						if o, stop := fail("permission-store-differs-from-grants-made", fmt.Sprintf("after PUT %s %s -> %d the store reports {%s}", path, b, r.Status, setString(got)), "{"+setString(set)+"}"); stop {
							return o
						}
					}
				}
			}
			out.Labels = append(out.Labels, "op "+op.Kind)

		case "tclear":
			path := fmt.Sprintf("/dsns/%s/tables/%s/permissions?user=%s", dn, tn, userNames[op.User])
			r := e.do(3, "DELETE", path, "")
			trace = append(trace, fmt.Sprintf("%d admin DELETE %s -> %d", i, path, r.Status))
			if r.Status/100 != 2 {
				if o, stop := fail("table-grant-endpoint-failed", fmt.Sprintf("administrator: DELETE %s -> %d %s", path, r.Status, clip(r.Body, 300)), "2xx"); stop {
					return o
				}
			}
			m.tblG[op.User][op.DSN][op.Table] = map[string]bool{}
			out.Labels = append(out.Labels, "op tclear")

		case "dgrant":
			b, _ := json.Marshal(map[string]any{"dsn": dsnNames[0], "user": userNames[op.User], "actions": wire("dsn", op.Perms)})
			r := e.do(3, "POST", "/dsns/@permissions", string(b))
			trace = append(trace, fmt.Sprintf("%d admin POST /dsns/@permissions %s -> %d", i, b, r.Status))
			e.dsnLive = true
			if r.Status/100 != 2 {
				if o, stop := fail("dsn-grant-endpoint-failed", fmt.Sprintf("administrator: POST /dsns/@permissions %s -> %d %s", b, r.Status, clip(r.Body, 300)), "2xx"); stop {
					return o
				}
			}
			applyPerms(m.dsnG[op.User], op.Perms)
			for _, p := range op.Perms {
				if p[0] == '+' {
					granted = append(granted, gkey{op.User, 0, -1})
				}
			}
			out.Labels = append(out.Labels, "op dgrant")

		case "req":
			e.reqs++
			who := op.User
			var method, path, body string
			base := "/dsns/" + dn + "/tables/" + tn
			name := fmt.Sprintf("w%d", i)
			switch op.Req {
			case "read":
				method, path = "GET", base+"/rows"
			case "readabs":
				method, path = "GET", base+"/rows?abstract=true"
			case "describe":
				method, path = "GET", base
			case "list":
				method, path = "GET", "/dsns/"+dn+"/tables/"
			case "insert":
				method, path = "PUT", base+"/rows"
				body = fmt.Sprintf(`{"id":%d,"name":"%s"}`, op.ID, name)
			case "update":
				method, path = "PATCH", fmt.Sprintf("%s/rows?filter=EQ(id,%d)", base, op.ID)
				body = fmt.Sprintf(`{"name":"%s"}`, name)
			case "delete":
				method, path = "DELETE", fmt.Sprintf("%s/rows?filter=EQ(id,%d)", base, op.ID)
			case "drop":
				method, path = "DELETE", base
			case "txread":
				method, path = "POST", "/dsns/"+dn+"/tables/@transaction"
				body = fmt.Sprintf(`[{"operation":"readrows","table":"%s"}]`, tn)
			case "txinsert":
				method, path = "POST", "/dsns/"+dn+"/tables/@transaction"
				body = fmt.Sprintf(`[{"operation":"insert","table":"%s","data":{"id":%d,"name":"%s"}}]`, tn, op.ID, name)
			case "txdelete":
				method, path = "POST", "/dsns/"+dn+"/tables/@transaction"
				body = fmt.Sprintf(`[{"operation":"delete","table":"%s","filters":["EQ(id,%d)"]}]`, tn, op.ID)
			}
			exp, why := allow, ""
			if who < 3 && op.DSN == 0 {
				exp, why = m.expect(who, op.Req, op.Table)
			}
			// non-triviality: the request follows a grant to another user on the
			// same table, or to the same user on another table / DSN
			nt := false
			if who < 3 {
				for _, g := range granted {
					if g.t >= 0 && g.u != who && g.d == op.DSN && g.t == op.Table {
						nt = true
					}
					if g.u == who && g.t >= 0 && (g.d != op.DSN || g.t != op.Table) {
						nt = true
					}
				}
			}
			r := e.do(who, method, path, body)
			class := "other"
			switch {
			case r.Status/100 == 2:
				class = "2xx"
			case r.Status == 403 || r.Status == 401:
				class = "denied"
			}
			trace = append(trace, fmt.Sprintf("%d %s %s %s %s -> %d", i, userNames[who], method, path, body, r.Status))
			ctxs := "restricted"
			switch {
			case who == 3:
				ctxs = "administrator"
			case op.DSN == 1:
				ctxs = "unrestricted"
			}
			expS := map[tri]string{allow: "allow", deny: "deny", unsure: "unsure"}[exp]
			out.Labels = append(out.Labels, fmt.Sprintf("req %s %s expect=%s -> %s", ctxs, op.Req, expS, class))
			if nt {
				out.NonTrivial = true
				e.ntReqs++
				out.Labels = append(out.Labels, fmt.Sprintf("nontrivial req expect=%s", expS))
			}
			who3 := fmt.Sprintf("%s (dsn grants {%s}; grants on this table {%s})", userNames[who], "", "")
			if who < 3 {
				who3 = fmt.Sprintf("%s (dsn grants {%s}; grants on this table {%s})", userNames[who], setString(m.dsnG[who]), setString(m.tblG[who][op.DSN][op.Table]))
			}
			obs := fmt.Sprintf("%s on the %s DSN: %s %s %s -> %d %s", who3, ctxs, method, path, body, r.Status, clip(r.Body, 200))
			if r.Panic != nil {
				if o, stop := fail("handler-panic "+srvfix.PanicSite(r.Stack), obs+fmt.Sprintf(" panic: %v", r.Panic), "a response"); stop {
					return o
				}
			}
			switch {
			case exp == deny && class == "2xx":
				if o, stop := fail(fmt.Sprintf("allowed-without-grant req=%s missing=%s", op.Req, why), obs, "403: the permission store has no matching "+why+" grant for this user"); stop {
					return o
				}
			case exp == allow && class == "denied":
				sig := fmt.Sprintf("denied-despite-grant req=%s", op.Req)
				if ctxs != "restricted" {
					sig = fmt.Sprintf("%s-denied req=%s", ctxs, op.Req)
				}
				if o, stop := fail(sig, obs, "2xx: "+ctxs+" caller / matching DSN and table grants are recorded"); stop {
					return o
				}
			}
			// effects
			if class == "2xx" {
				rows := &m.rows[op.DSN][op.Table]
				switch op.Req {
				case "insert", "txinsert":
					*rows = append(*rows, rowT{int64(op.ID), name})
				case "update":
					for k := range *rows {
						if (*rows)[k].id == int64(op.ID) {
							(*rows)[k].name = name
						}
					}
				case "delete", "txdelete":
					var keep []rowT
					for _, x := range *rows {
						if x.id != int64(op.ID) {
							keep = append(keep, x)
						}
					}
					*rows = keep
				case "drop":
					// the table is gone: the administrator recreates it and
					// clears every user's grants on it explicitly, so that the
					// model does not depend on what a drop does to grants
					snap, err := e.snapshot()
					if err != nil {
						panic(err)
					}
					if !strings.Contains(snap, fmt.Sprintf("%s.t%d:absent", dn, op.Table)) {
						if o, stop := fail("drop-reported-but-table-exists", obs, "table absent"); stop {
							return o
						}
					}
					if err := e.createTable(op.DSN, op.Table); err != nil {
						panic("fixture: " + err.Error())
					}
					for u := 0; u < 3; u++ {
						p := fmt.Sprintf("/dsns/%s/tables/%s/permissions?user=%s", dn, tn, userNames[u])
						if r := e.do(3, "DELETE", p, ""); r.Status/100 != 2 {
							if o, stop := fail("table-grant-endpoint-failed", fmt.Sprintf("administrator: DELETE %s -> %d %s", p, r.Status, clip(r.Body, 300)), "2xx"); stop {
								return o
							}
						}
						m.tblG[u][op.DSN][op.Table] = map[string]bool{}
					}
					*rows = seedRows(op.DSN, op.Table)
				case "list":
					if who < 3 && op.DSN == 0 {
						var lr struct {
							Tables []struct {
								Name string `json:"name"`
							} `json:"tables"`
						}
						if r.JSON(&lr) == nil {
							shown := map[string]bool{}
							for _, t := range lr.Tables {
								shown[strings.Trim(t.Name, `"`)] = true
							}
							for t := 0; t < 2; t++ {
								ts := m.tblG[who][0][t]
								if shown[e.tn[t]] && !ts["read"] && !ts["admin"] {
									if o, stop := fail("list-shows-table-without-grant", obs+fmt.Sprintf("; table %s listed, grants on it {%s}", e.tn[t], setString(ts)), "tables without a read grant are not listed"); stop {
										return o
									}
								}
								if !shown[e.tn[t]] && ts["read"] && who != 2 {
									if o, stop := fail("list-hides-granted-table", obs+fmt.Sprintf("; table %s not listed, grants on it {%s}", e.tn[t], setString(ts)), "a table the caller may read is listed"); stop {
										return o
									}
								}
							}
						}
					}
				}
			}
			got, err := e.snapshot()
			if err != nil {
				panic("snapshot: " + err.Error())
			}
			if want := m.snapshot(); got != want {
				if o, stop := fail(fmt.Sprintf("contents-differ req=%s class=%s expect=%s", op.Req, class, expS), obs+"; database:\n"+got, "database:\n"+want); stop {
					return o
				}
			}
		}
	}
	out.Labels = append(out.Labels, fmt.Sprintf("history len=%d..%d", len(c.Ops)/8*8, len(c.Ops)/8*8+7))
	if knownFail != nil {
		out.Fail = knownFail
	}
	return out
}

// ----------------------------------------------------------------- generator

var (
	tblPerms = []string{"read", "write", "update", "delete", "admin"}
	dsnPerms = []string{"read", "write", "admin"}
	reqKinds = []string{"read", "read", "readabs", "describe", "list", "insert", "insert", "update", "update", "delete", "delete", "drop", "txread", "txinsert", "txdelete"}
)

func genPerms(t *rapid.T, pool []string, plusBias int) []string {
	n := rapid.SampledFrom([]int{1, 1, 2, 3, 4, 5}).Draw(t, "nperm")
	seen := map[string]bool{}
	var out []string
	for i := 0; i < n; i++ {
		p := rapid.SampledFrom(pool).Draw(t, "perm")
		if seen[p] {
			continue
		}
		seen[p] = true
		sign := "+"
		if rapid.IntRange(0, plusBias).Draw(t, "sign") == 0 {
			sign = "-"
		}
		out = append(out, sign+p)
	}
	return out
}

func genOp(t *rapid.T) Op {
	k := rapid.SampledFrom([]string{"tgrant", "tgrant", "tgrant", "tgrant", "dgrant", "dgrant", "tclear", "ugrant", "req", "req", "req", "req", "req", "req", "req", "req", "req", "req"}).Draw(t, "kind")
	op := Op{Kind: k}
	op.User = rapid.IntRange(0, 2).Draw(t, "user")
	op.DSN = rapid.SampledFrom([]int{0, 0, 0, 1}).Draw(t, "dsn")
	op.Table = rapid.IntRange(0, 1).Draw(t, "table")
	switch k {
	case "tgrant":
		op.Perms = genPerms(t, tblPerms, 4)
	case "ugrant":
		op.Actor = rapid.IntRange(0, 2).Draw(t, "actor")
		op.Perms = genPerms(t, tblPerms, 8)
	case "dgrant":
		op.DSN = 0
		op.Perms = genPerms(t, dsnPerms, 5)
	case "req":
		op.User = rapid.SampledFrom([]int{0, 0, 0, 1, 1, 1, 2, 2, 3}).Draw(t, "who")
		op.Req = rapid.SampledFrom(reqKinds).Draw(t, "req")
		op.ID = rapid.IntRange(1, 5).Draw(t, "id")
	}
	return op
}

func gen(t *rapid.T) Case {
	n := rapid.IntRange(6, 32).Draw(t, "n")
	var c Case
	// prelude: most histories start with DSN-level grants for some users, so
	// that the table tier is what decides most requests
	for u := 0; u < 3; u++ {
		switch rapid.IntRange(0, 4).Draw(t, "prelude") {
		case 0, 1:
			c.Ops = append(c.Ops, Op{Kind: "dgrant", User: u, Perms: []string{"+read", "+write"}})
		case 2:
			c.Ops = append(c.Ops, Op{Kind: "dgrant", User: u, Perms: []string{"+read"}})
		case 3:
			c.Ops = append(c.Ops, Op{Kind: "dgrant", User: u, Perms: []string{"+write"}})
		}
	}
	for i := 0; i < n; i++ {
		c.Ops = append(c.Ops, genOp(t))
	}
	return c
}

// fixed: the situations the property statement and the past defects name.
func fixed() []Case {
	full := []string{"+read", "+write", "+update", "+delete"}
	return []Case{
		// grant to B on a table; A and B then use that table and the other one
		{Ops: []Op{
			{Kind: "dgrant", User: 0, Perms: []string{"+read", "+write"}}, {Kind: "dgrant", User: 1, Perms: []string{"+read", "+write"}},
			{Kind: "tgrant", User: 1, DSN: 0, Table: 0, Perms: full},
			{Kind: "req", User: 0, DSN: 0, Table: 0, Req: "read"}, {Kind: "req", User: 1, DSN: 0, Table: 0, Req: "read"},
			{Kind: "req", User: 1, DSN: 0, Table: 1, Req: "read"}, {Kind: "req", User: 0, DSN: 0, Table: 0, Req: "insert", ID: 4},
			{Kind: "req", User: 1, DSN: 0, Table: 0, Req: "insert", ID: 4}, {Kind: "req", User: 0, DSN: 0, Table: 0, Req: "delete", ID: 1},
			{Kind: "req", User: 1, DSN: 0, Table: 1, Req: "update", ID: 1}, {Kind: "req", User: 1, DSN: 0, Table: 0, Req: "update", ID: 1},
			{Kind: "req", User: 0, DSN: 0, Table: 0, Req: "list"}, {Kind: "req", User: 1, DSN: 0, Table: 0, Req: "list"},
		}},
		// two grantees on one table (the old filter bug denied everybody), then a revoke
		{Ops: []Op{
			{Kind: "dgrant", User: 0, Perms: []string{"+read"}}, {Kind: "dgrant", User: 1, Perms: []string{"+read"}}, {Kind: "dgrant", User: 2, Perms: []string{"+read"}},
			{Kind: "tgrant", User: 0, DSN: 0, Table: 1, Perms: []string{"+read"}}, {Kind: "tgrant", User: 1, DSN: 0, Table: 1, Perms: []string{"+read"}},
			{Kind: "req", User: 0, DSN: 0, Table: 1, Req: "read"}, {Kind: "req", User: 1, DSN: 0, Table: 1, Req: "readabs"}, {Kind: "req", User: 2, DSN: 0, Table: 1, Req: "read"},
			{Kind: "tgrant", User: 0, DSN: 0, Table: 1, Perms: []string{"-read"}},
			{Kind: "req", User: 0, DSN: 0, Table: 1, Req: "read"}, {Kind: "req", User: 1, DSN: 0, Table: 1, Req: "describe"},
			{Kind: "tclear", User: 1, DSN: 0, Table: 1}, {Kind: "req", User: 1, DSN: 0, Table: 1, Req: "read"},
		}},
		// same table name on the other DSN; unrestricted DSN and administrator are not limited
		{Ops: []Op{
			{Kind: "tgrant", User: 0, DSN: 1, Table: 0, Perms: full},
			{Kind: "dgrant", User: 0, Perms: []string{"+read", "+write"}},
			{Kind: "req", User: 0, DSN: 0, Table: 0, Req: "read"}, {Kind: "req", User: 0, DSN: 0, Table: 0, Req: "delete", ID: 2},
			{Kind: "req", User: 0, DSN: 1, Table: 0, Req: "delete", ID: 2}, {Kind: "req", User: 2, DSN: 1, Table: 1, Req: "insert", ID: 5},
			{Kind: "req", User: 3, DSN: 0, Table: 1, Req: "update", ID: 3}, {Kind: "req", User: 3, DSN: 0, Table: 0, Req: "drop"},
			{Kind: "req", User: 1, DSN: 0, Table: 1, Req: "drop"}, {Kind: "req", User: 1, DSN: 1, Table: 1, Req: "drop"},
			{Kind: "ugrant", Actor: 1, User: 1, DSN: 0, Table: 0, Perms: []string{"+read"}},
		}},
		// DSN-level read grant only, full table grants: changes must be denied on every path
		{Ops: []Op{
			{Kind: "dgrant", User: 0, Perms: []string{"+read"}},
			{Kind: "tgrant", User: 0, DSN: 0, Table: 0, Perms: append([]string{"+admin"}, full...)},
			{Kind: "tgrant", User: 1, DSN: 0, Table: 0, Perms: full},
			{Kind: "req", User: 0, DSN: 0, Table: 0, Req: "read"}, {Kind: "req", User: 0, DSN: 0, Table: 0, Req: "txread"},
			{Kind: "req", User: 0, DSN: 0, Table: 0, Req: "insert", ID: 4}, {Kind: "req", User: 0, DSN: 0, Table: 0, Req: "update", ID: 1},
			{Kind: "req", User: 0, DSN: 0, Table: 0, Req: "delete", ID: 2}, {Kind: "req", User: 0, DSN: 0, Table: 0, Req: "txinsert", ID: 5},
			{Kind: "req", User: 0, DSN: 0, Table: 0, Req: "txdelete", ID: 3}, {Kind: "req", User: 1, DSN: 0, Table: 0, Req: "txinsert", ID: 5},
		}},
		// DSN-level write grant only: reads must be denied on every path
		{Ops: []Op{
			{Kind: "dgrant", User: 1, Perms: []string{"+write"}},
			{Kind: "tgrant", User: 1, DSN: 0, Table: 1, Perms: full},
			{Kind: "req", User: 1, DSN: 0, Table: 1, Req: "read"}, {Kind: "req", User: 1, DSN: 0, Table: 1, Req: "readabs"},
			{Kind: "req", User: 1, DSN: 0, Table: 1, Req: "describe"}, {Kind: "req", User: 1, DSN: 0, Table: 1, Req: "list"},
			{Kind: "req", User: 1, DSN: 0, Table: 1, Req: "insert", ID: 4}, {Kind: "req", User: 1, DSN: 0, Table: 1, Req: "txread"},
		}},
	}
}

func TestC43(t *testing.T) {
	vkit.Run(t, vkit.Spec[Case]{
		ID:    "C43",
		Level: "exploration",
		Rule: "history of 6-32 steps: table grants/revokes and clears (user x DSN x table x {read,write,update,delete,admin}) and DSN-level grants/revokes ({read,write,admin}, restricted DSN) by the administrator through the REST permission endpoints, " +
			"grant attempts by ordinary users, and requests (read, abstract read, describe, list, insert, update, delete, drop) by 3 ordinary users and the administrator on a restricted and an unrestricted SQLite DSN with 2 tables each. " +
			"Non-trivial: the history has a request by user A after a table grant to another user on the same table, or to A on another table/DSN; distinct by history. coverage.requests / requests_nontrivial count single requests.",
		Assumptions: []string{
			"database-backed user/permission store (with the file store ego has no table_perms store and allows everything)",
			"details on which docs/API.md, docs/SERVER.md and the code disagree are not asserted (see the comment at the top of c43_test.go)",
			"PostgreSQL path, @sql and @transaction are not exercised here",
		},
		Gen:      gen,
		Oracle:   oracle,
		Fixed:    fixed,
		Quick:    50,
		Thorough: 2500,
		Extra: func() map[string]any {
			if theEnv == nil {
				return nil
			}
			return map[string]any{"requests": theEnv.reqs, "requests_nontrivial": theEnv.ntReqs}
		},
	})
}
