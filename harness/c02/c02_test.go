// Package c02 decides property C02 "Performance settings never change program
// behaviour": the same program is run under a baseline configuration
// (optimizer 0, registers / constant folding / global cache off) and under
// other settings of the optimizer level (0-3), local-variable registers,
// compile-time constant folding and the global-reference cache, in each type
// mode; stdout, error-or-not and the error message must be identical.
//
// Messages are compared verbatim (the statement says "with which message"),
// except that nothing is stripped: line numbers must agree too, since the
// source is the same.
//
// The symbol-table allocation size is a package variable used in index
// arithmetic of tables that already exist, so it cannot be changed safely
// inside a process; it is exercised through the CLI (`--symbol-allocation`)
// on a sample of the programs.
package c02

import (
	"fmt"
	"os"
	"os/exec"
	"path/filepath"
	"regexp"
	"strings"
	"sync"
	"testing"

	"github.com/tucats/ego/verif/egorun"
	"github.com/tucats/ego/verif/proggen"
	"github.com/tucats/ego/verif/vkit"
	"pgregory.net/rapid"
)

// Case is a program, a type mode and the configurations to compare with the
// baseline.
type Case struct {
	Program proggen.Program `json:"program"`
	Ego     bool            `json:"ego_flavoured"`
	Mode    string          `json:"mode"`
	Configs []Cfg           `json:"configs"`
	// Alloc > 0: additionally run the CLI with this symbol allocation size.
	Alloc int `json:"alloc,omitempty"`
}

// Cfg is one performance configuration.
type Cfg struct {
	Opt         int  `json:"opt"`
	Registers   bool `json:"registers"`
	ConstFold   bool `json:"constfold"`
	GlobalCache bool `json:"globalcache"`
}

func (c Cfg) String() string {
	return fmt.Sprintf("o%d reg=%v fold=%v gcache=%v", c.Opt, c.Registers, c.ConstFold, c.GlobalCache)
}

func run(p proggen.Program, ego bool, mode string, c Cfg) egorun.Result {
	return egorun.Run(p.EgoSource(), egorun.Config{Types: mode, Optimize: c.Opt, Registers: c.Registers, ConstFold: c.ConstFold,
		GlobalCache: c.GlobalCache, Extensions: true, EntryPoint: "main"})
}

var digits = regexp.MustCompile(`-?[0-9]+(\.[0-9]+)?`)
var quoted = regexp.MustCompile(`"(\\.|[^"\\])*"`)
var idents = regexp.MustCompile(`\b(p[0-9]*_)?(fn|T|rec|id_[a-z0-9]+|v|e|r|m|s|i|a|b|c|f|p|q|z|k|L|mv|ok|d|arr|err)[0-9]+\b`)

func norm(s string) string {
	s = quoted.ReplaceAllString(s, "S")
	s = idents.ReplaceAllString(s, "ID")
	s = digits.ReplaceAllString(s, "N")
	if len(s) > 110 {
		s = s[:110]
	}
	return s
}

func firstDiffLine(a, b string) (string, string) {
	la, lb := strings.Split(a, "\n"), strings.Split(b, "\n")
	for i := 0; i < len(la) || i < len(lb); i++ {
		x, y := "<end>", "<end>"
		if i < len(la) {
			x = la[i]
		}
		if i < len(lb) {
			y = lb[i]
		}
		if x != y {
			return x, y
		}
	}
	return "", ""
}

func diff(base, other egorun.Result) (sig, obs string) {
	if other.GoPanic != "" {
		return "go-panic", "Go panic inside ego: " + other.GoPanic + "\n" + other.Stack
	}
	be, oe := base.CompileErr+base.RunErr, other.CompileErr+other.RunErr
	switch {
	case be == "" && oe != "":
		return "error-only-with-setting: " + norm(egorun.StripPositions(oe)), "baseline completes, this configuration fails with: " + oe
	case be != "" && oe == "":
		return "error-only-at-baseline: " + norm(egorun.StripPositions(be)), "baseline fails with: " + be + "; this configuration completes"
	case be != oe:
		return "message-differs: " + norm(egorun.StripPositions(be)) + " vs " + norm(egorun.StripPositions(oe)), fmt.Sprintf("baseline message %q, this configuration %q", be, oe)
	case base.Stdout != other.Stdout:
		x, y := firstDiffLine(base.Stdout, other.Stdout)
		return "output-diff base=" + norm(x) + " other=" + norm(y), fmt.Sprintf("first differing line: baseline %q, this configuration %q", x, y)
	}
	return "", ""
}

var cliOnce sync.Once
var cliHome string

func cliRun(src, mode string, alloc int) (stdout, stderr string, failed, ok bool) {
	bin := filepath.Join(os.Getenv("VERIF_BIN"), "ego")
	if _, err := os.Stat(bin); err != nil {
		return "", "", false, false
	}
	base := os.Getenv("VERIF_RUN_DIR")
	if base == "" {
		base = os.TempDir()
	}
	cliOnce.Do(func() {
		cliHome = filepath.Join(base, fmt.Sprintf("clihome-%d", os.Getpid()))
		_ = os.MkdirAll(cliHome, 0o700)
	})
	// the same file name for every run: the name appears in ego's error
	// report, and the runs of one case are compared verbatim
	name := filepath.Join(cliHome, "prog.ego")
	if err := os.WriteFile(name, []byte(src), 0o644); err != nil {
		return "", "", false, false
	}
	defer os.Remove(name)
	// extensions on for both runs (the Ego-flavoured programs use try/catch);
	// given explicitly because some options persist settings in the profile,
	// which would make the second run of a pair differ from the first
	args := []string{"--set", "ego.compiler.extensions=true", "run", "--types", mode, "--optimize", "0"}
	if alloc > 0 {
		args = append(args, "--symbol-allocation", fmt.Sprint(alloc))
	}
	args = append(args, name)
	cmd := exec.Command(bin, args...)
	cmd.Env = append(os.Environ(), "HOME="+cliHome, "EGO_PATH="+cliHome)
	var so, se strings.Builder
	cmd.Stdout, cmd.Stderr = &so, &se
	err := cmd.Run()
	return so.String(), se.String(), err != nil, true
}

var baseline = Cfg{}

func oracle(c Case) vkit.Outcome {
	var out vkit.Outcome
	out.Key = c.Mode + "|" + c.Program.Body + fmt.Sprint(c.Configs, c.Alloc)
	base := run(c.Program, c.Ego, c.Mode, baseline)
	if base.Runaway {
		out.Inconclusive = "the baseline run did not end within the harness bound"
		return out
	}
	if base.GoPanic != "" {
		out.Fail = &vkit.Failure{Sig: "go-panic-at-baseline", Observed: base.GoPanic + "\n" + base.Stack, Expected: "no Go panic"}
		return out
	}
	locals := strings.Count(c.Program.Body, ":=") + strings.Count(c.Program.Body, "var ")
	out.NonTrivial = locals >= 3 && len(c.Program.Features) >= 5
	out.Labels = []string{"mode=" + c.Mode, fmt.Sprintf("ego-flavoured=%v", c.Ego)}
	if base.Failed() {
		out.Labels = append(out.Labels, "baseline-fails")
	} else {
		out.Labels = append(out.Labels, "baseline-completes")
	}
	for _, f := range c.Program.Features {
		if strings.HasPrefix(f, "try") || strings.HasPrefix(f, "incdec") || strings.HasPrefix(f, "opassign") || strings.HasPrefix(f, "closure") || strings.HasPrefix(f, "dynamic") {
			out.Labels = append(out.Labels, f)
		}
	}
	for _, cfg := range c.Configs {
		out.Labels = append(out.Labels, fmt.Sprintf("cfg o%d", cfg.Opt))
		o := run(c.Program, c.Ego, c.Mode, cfg)
		if o.Runaway {
			out.Inconclusive = "a configured run did not end within the harness bound"
			return out
		}
		if sig, obs := diff(base, o); sig != "" {
			out.Fail = &vkit.Failure{
				Sig:      sig + fmt.Sprintf(" [%s %s]", c.Mode, cfgClass(cfg)),
				Observed: obs + "\nconfiguration: " + cfg.String() + " mode=" + c.Mode + "\n--- program ---\n" + c.Program.EgoSource(),
				Expected: "the baseline's behaviour (optimizer 0, registers/constfold/globalcache off): error=" + fmt.Sprintf("%q", base.CompileErr+base.RunErr) + " stdout=" + fmt.Sprintf("%q", clip(base.Stdout, 500)),
			}
			return out
		}
	}
	if c.Alloc > 0 {
		so0, se0, f0, ok0 := cliRun(c.Program.EgoSource(), c.Mode, 0)
		so1, se1, f1, ok1 := cliRun(c.Program.EgoSource(), c.Mode, c.Alloc)
		if ok0 && ok1 {
			out.Labels = append(out.Labels, fmt.Sprintf("cli alloc=%d", c.Alloc))
			if so0 != so1 || f0 != f1 || se0 != se1 {
				x, y := firstDiffLine(so0+se0, so1+se1)
				out.Fail = &vkit.Failure{
					Sig:      fmt.Sprintf("symbol-allocation-diff default=%s alloc=%s", norm(x), norm(y)),
					Observed: fmt.Sprintf("ego run --symbol-allocation %d differs from the default: %q vs %q\n--- program ---\n%s", c.Alloc, y, x, c.Program.EgoSource()),
					Expected: "identical stdout, stderr and exit status",
				}
			}
		}
	}
	return out
}

func cfgClass(c Cfg) string {
	var p []string
	p = append(p, fmt.Sprintf("o%d", c.Opt))
	if c.Registers || c.Opt > 2 {
		p = append(p, "reg")
	}
	if c.ConstFold || c.Opt > 2 {
		p = append(p, "fold")
	}
	if c.GlobalCache || c.Opt > 2 {
		p = append(p, "gcache")
	}
	return strings.Join(p, "+")
}

func clip(s string, n int) string {
	if len(s) > n {
		return s[:n] + "…"
	}
	return s
}

func gen(t *rapid.T) Case {
	var c Case
	c.Ego = rapid.Bool().Draw(t, "egoflavoured")
	if c.Ego {
		c.Program = proggen.EgoProgram(t, "p_")
	} else {
		c.Program = proggen.GoProgram(t, "p_")
	}
	c.Mode = rapid.SampledFrom([]string{"dynamic", "relaxed", "strict"}).Draw(t, "mode")
	n := rapid.IntRange(3, 6).Draw(t, "nconfigs")
	// always include the plain optimizer levels, then random combinations
	c.Configs = []Cfg{{Opt: 1}, {Opt: 2}, {Opt: 3}}
	for i := 0; i < n; i++ {
		c.Configs = append(c.Configs, Cfg{
			Opt:         rapid.IntRange(0, 3).Draw(t, "opt"),
			Registers:   rapid.Bool().Draw(t, "reg"),
			ConstFold:   rapid.Bool().Draw(t, "fold"),
			GlobalCache: rapid.Bool().Draw(t, "gcache"),
		})
	}
	if rapid.IntRange(0, 19).Draw(t, "cli") == 0 {
		c.Alloc = rapid.SampledFrom([]int{16, 64, 1000}).Draw(t, "alloc")
	}
	return c
}

func TestC02(t *testing.T) {
	vkit.Run(t, vkit.Spec[Case]{
		ID:    "C02",
		Level: "exploration",
		Rule: "programs from proggen.GoProgram (Go-typed core) and proggen.EgoProgram (plus try/catch with runtime errors and throw, dynamic retyping, [] literals, injected runtime aborts); each run at the baseline (optimizer 0, everything off) and at optimizer 1, 2, 3 plus 3-6 random combinations of optimizer level x registers x constfold x globalcache, in one drawn type mode; 1 in 20 also through the CLI with another symbol allocation size. " +
			"Oracle: stdout, error-or-not and the error message are identical to the baseline's. Non-trivial: >= 3 local declarations and >= 5 distinct constructs; distinct by program x mode x configurations.",
		Assumptions: []string{"settings are process-global and applied before each compile+run (egorun.Apply), as `ego run -o N --set ...` does"},
		Gen:         gen,
		Oracle:      oracle,
		Quick:       250,
		Thorough:    800,
		MaxRounds:   6,
	})
}
