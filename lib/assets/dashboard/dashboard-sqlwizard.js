// dashboard-sqlwizard.js
// The SQL Build wizard: the statement parser that pre-loads the wizard from a
// selected statement, and the SELECT, INSERT, UPDATE, DELETE, CREATE TABLE
// and ALTER TABLE builders.
//
// Depends on the SQL tab (dashboard-sql.js) for the editor it inserts into
// and for the formatter it runs generated statements through.
//
// THE DASHBOARD (HTML, CSS, AND JAVASCRIPT) WERE PROTOTYPED BY CLAUDE
// CODE, and extended by both Claude Code and human developers. The dashboard
// code is reviewed and tested by humans before any changes are committed.
// The dashboard uses api endpoints in the Ego  server that were written by
// humans, as is the rest of the Ego server.
//
// LOAD ORDER MATTERS. These files are plain <script> tags, not modules, so
// they all share one global scope -- but a function declaration is hoisted
// only within its own file. Anything that runs immediately at the top level
// may therefore only call functions declared in the same file or an earlier
// one. Deferred code (event handlers, callbacks, timers) is unrestricted,
// because by the time it runs every file has loaded. dashboard.html lists the
// files in this order:
//
//     dashboard-core.js        cookies, settings, token, idle timer, fetch
//     dashboard-admin.js       tab loaders, DSN permission and config sheets
//     dashboard-data.js        Data tab and its row editor
//     dashboard-sql.js         SQL tab, highlighting, and the SQL formatter
//     dashboard-sqlwizard.js   Build wizard and the SQL statement parser
//     dashboard-ui.js          tab switching, login, user/DSN sheets, log tab
//     dashboard-code.js        Code tab: editor, run, debugger, console
//     dashboard-startup.js     entry point, then passkey support
//
// Note also that names declared at the top level of any of these files are
// shared across all of them. The minifier deliberately never renames such
// names (see internal/util/javascript/minify.go), which is what makes serving
// them as separate files safe.
//
// ==========================================================================
// SQL Build wizard
// ==========================================================================

// Column metadata for the table currently selected in the wizard.
// Populated by sqlWizardTableChanged() and consumed by the clause-row builders.
let _sqlWizardCols = [];

// Full list of tables in the current DSN. Populated by sqlWizardTypeChanged()
// each time the wizard opens so the CREATE wizard can check for name collisions.
let _sqlWizardTables = [];

// Maps DSN name → provider string ("postgres" or "sqlite").
// Populated by loadSql() when the DSN list is fetched so the ALTER TABLE wizard
// can choose the correct SQL dialect without an extra network call.
let _sqlDsnProviders = {};

// Maps DSN name → its "rowIds" attribute (defs.DSN.RowId). Populated by
// loadSql() alongside _sqlDsnProviders. When true, the server always maintains
// a unique "_row_id_" string column on every table in that DSN (see
// FormCreateQuery in internal/server/tables/parsing/generators.go), so the
// CREATE TABLE wizard must mirror that by always including a locked
// "_row_id_" column that the user cannot remove or edit.
let _sqlDsnRowIds = {};

// Returns true when the currently selected SQL DSN is a Postgres database.
// Postgres supports multiple column changes in one ALTER TABLE statement;
// SQLite requires one change per statement.
function _sqlWizardIsPostgres() {
    const dsn = document.getElementById('sql-dsn-picker')?.value || '';
    return (_sqlDsnProviders[dsn] || '').toLowerCase() === 'postgres';
}

// Returns true when the currently selected SQL DSN has its "rowIds"
// attribute set, meaning every table in it always carries the internal
// "_row_id_" column.
//
// `?.` is "optional chaining": `document.getElementById(...)?.value` reads
// `.value` only if getElementById() actually found an element, and short-
// circuits to `undefined` instead of throwing if it returned null (e.g. the
// picker isn't in the DOM yet) — equivalent to, but shorter than, writing
// `el ? el.value : undefined`. The trailing `|| ''` then substitutes an
// empty string for that undefined case, since dsn is used as an object key
// below and `_sqlDsnRowIds[undefined]` would look up the wrong thing.
//
// `!!` is double negation: a single `!` converts any value to its boolean
// opposite (`!5` is `false`, `!undefined` is `true`), so applying it twice
// converts to boolean while preserving the original truthiness — it's the
// standard idiom for "coerce this to true/false" when a value (here,
// _sqlDsnRowIds[dsn], which may be a real boolean or simply missing/
// undefined for a DSN never loaded) needs to become a proper boolean rather
// than just some other truthy/falsy value.
function _sqlWizardCurrentDsnHasRowId() {
    const dsn = document.getElementById('sql-dsn-picker')?.value || '';
    return !!_sqlDsnRowIds[dsn];
}

// When the wizard is opened from a non-empty editor selection, stores the
// character offsets {start, end} of that selection. insertSqlBuild() reads
// this to replace the original selection rather than inserting at cursor.
// Cleared by hideSqlBuild() so no stale range leaks into the next open.
let _sqlWizardSelectionRange = null;

// HTML option elements for the WHERE clause operator picker. Defined once to
// keep the markup consistent across every row that is dynamically added.
// HTML entities are used for < and > so the template string parses correctly.
const _SQL_WIZ_OP_OPTIONS =
    '<option value="=">=</option>'
    + '<option value="&lt;&gt;">&lt;&gt;</option>'
    + '<option value="&lt;">&lt;</option>'
    + '<option value="&lt;=">&lt;=</option>'
    + '<option value="&gt;">&gt;</option>'
    + '<option value="&gt;=">>=</option>'
    + '<option value="IS NULL">IS NULL</option>'
    + '<option value="IS NOT NULL">IS NOT NULL</option>'
    + '<option value="LIKE">LIKE</option>'
    + '<option value="NOT LIKE">NOT LIKE</option>';

// ==========================================================================
// SQL statement parser — pre-loads the wizard from a selected statement
// ==========================================================================

// Tokenize a SQL string into a flat array of token objects with fields:
//   type  — 'ident' (keyword or identifier), 'string' (quoted literal),
//            'number' (numeric literal), or 'op' (operator / punctuation)
//   value — raw string from the source (string literals keep their quotes)
// Whitespace, single-line (-- ...) and block (/* ... */) comments are skipped.
// Backtick-quoted identifiers are unwrapped to plain 'ident' tokens.
function _sqlParseTok(sql) {
    const tokens = [];
    let i = 0;
    while (i < sql.length) {
        if (/\s/.test(sql[i])) { i++; continue; }

        // Single-line comment: skip to end of line
        if (sql[i] === '-' && sql[i + 1] === '-') {
            while (i < sql.length && sql[i] !== '\n') i++;
            continue;
        }

        // Block comment: skip to closing */
        if (sql[i] === '/' && sql[i + 1] === '*') {
            i += 2;
            while (i < sql.length && !(sql[i] === '*' && sql[i + 1] === '/')) i++;
            i += 2;
            continue;
        }

        // Single-quoted string literal — '' inside a string is an escaped quote
        if (sql[i] === "'") {
            let s = "'";
            i++;
            while (i < sql.length) {
                if (sql[i] === "'" && sql[i + 1] === "'") { s += "''"; i += 2; }
                else if (sql[i] === "'")                   { s += "'";  i++;    break; }
                else                                        { s += sql[i++]; }
            }
            tokens.push({ type: 'string', value: s });
            continue;
        }

        // Backtick-quoted identifier: strip the backticks
        if (sql[i] === '`') {
            let s = '';
            i++;
            while (i < sql.length && sql[i] !== '`') s += sql[i++];
            i++;
            tokens.push({ type: 'ident', value: s });
            continue;
        }

        // Numeric literal (optionally negative: -42, 3.14)
        if (/[0-9]/.test(sql[i]) || (sql[i] === '-' && /[0-9]/.test(sql[i + 1]))) {
            let s = '';
            if (sql[i] === '-') s += sql[i++];
            while (i < sql.length && /[0-9.]/.test(sql[i])) s += sql[i++];
            tokens.push({ type: 'number', value: s });
            continue;
        }

        // Two-character operators: <>, <=, >=, !=
        const two = sql.substring(i, i + 2);
        if (two === '<>' || two === '<=' || two === '>=' || two === '!=') {
            tokens.push({ type: 'op', value: two });
            i += 2;
            continue;
        }

        // Single-character operators and punctuation
        if ('<>=!(),.*'.includes(sql[i])) {
            tokens.push({ type: 'op', value: sql[i++] });
            continue;
        }

        // Identifier or keyword (A-Z, a-z, underscore, then alphanumeric/$/_)
        if (/[A-Za-z_]/.test(sql[i])) {
            let s = '';
            while (i < sql.length && /[A-Za-z0-9_$]/.test(sql[i])) s += sql[i++];
            tokens.push({ type: 'ident', value: s });
            continue;
        }

        i++; // skip any other character (e.g. @ in vendor-specific extensions)
    }
    return tokens;
}

// Attempt to parse a SQL statement string and return a plain object describing
// its structure, or null if the statement cannot be understood. Only simple
// single-table statements are accepted. Any of the following cause a null return:
// JOINs, subqueries, OR conditions in WHERE, DISTINCT, GROUP BY, HAVING, LIMIT,
// PRIMARY KEY, or DEFAULT column constraints in CREATE TABLE.
//
// Returned object shapes (varies by .type):
//   SELECT — { type, table, selectAll, cols[], where[], order[] }
//   INSERT — { type, table, cols[], vals[] }
//   UPDATE — { type, table, sets[{col,val}], where[] }
//   DELETE — { type, table, where[] }
//   CREATE — { type, table, cols[{name,type,unique,nullable}] }
//   ALTER  — { type, op, table, ...op-specific fields }
//              op='ADD'    → cols[{name,type,unique,nullable}]
//              op='DROP'   → cols[]  (column name strings)
//              op='RENAME' → renames[{from,to}]
// where[] entries are { col, op, val }; order[] entries are { col, dir }.
function parseSqlStatement(sql) {
    const tokens = _sqlParseTok(sql);
    let pos = 0;

    // Low-level cursor helpers — all use throw 0 on mismatch so the outer
    // try/catch can convert any parse failure into a null return without needing
    // to thread error codes through every nested call.
    const peek     = ()  => tokens[pos] || null;
    const peekVal  = ()  => tokens[pos] ? tokens[pos].value.toUpperCase() : null;
    const peek2Val = ()  => tokens[pos + 1] ? tokens[pos + 1].value.toUpperCase() : null;
    const consume  = ()  => tokens[pos++];
    const expect  = v   => {
        if (!tokens[pos] || tokens[pos].value.toUpperCase() !== v.toUpperCase()) throw 0;
        return tokens[pos++];
    };
    const ident   = ()  => {
        const t = tokens[pos];
        if (!t || t.type !== 'ident') throw 0;
        pos++;
        return t.value;
    };
    // True when all remaining tokens are trailing semicolons. SQL statements
    // often end with ';', so we skip them rather than treating one as an error,
    // which lets a user selection that includes the semicolon still parse cleanly.
    const atEnd   = ()  => { while (tokens[pos]?.value === ';') pos++; return pos >= tokens.length; };

    // Parse a literal value: quoted string, number, or the NULL keyword.
    // String and number tokens are returned as-is (strings keep their quotes).
    function value() {
        const t = peek();
        if (!t) throw 0;
        if (t.type === 'string' || t.type === 'number') { consume(); return t.value; }
        if (t.type === 'ident' && t.value.toUpperCase() === 'NULL') { consume(); return 'NULL'; }
        throw 0;
    }

    // Parse a comma-separated list of identifiers, stopping before stopKeyword.
    // For example, identList('FROM') collects ['a','b','c'] from "a, b, c FROM ..."
    // without consuming the FROM token, so the caller can expect() it next.
    function identList(stopKeyword) {
        const list = [ident()];
        while (peekVal() === ',') {
            consume();
            if (stopKeyword && peekVal() === stopKeyword.toUpperCase()) break;
            list.push(ident());
        }
        return list;
    }

    // Parse AND-joined WHERE conditions. OR causes a throw so the whole
    // statement is rejected — the wizard cannot represent OR logic.
    // Supports: col op val, col LIKE val, col NOT LIKE val,
    //           col IS NULL, col IS NOT NULL.
    function whereConditions() {
        const conds = [];
        while (true) {
            const col = ident();
            if (peekVal() === 'IS') {
                consume();
                if (peekVal() === 'NOT') { consume(); expect('NULL'); conds.push({ col, op: 'IS NOT NULL', val: '' }); }
                else                     { expect('NULL');             conds.push({ col, op: 'IS NULL',     val: '' }); }
            } else if (peekVal() === 'NOT') {
                consume(); expect('LIKE');
                conds.push({ col, op: 'NOT LIKE', val: value() });
            } else if (peekVal() === 'LIKE') {
                consume();
                conds.push({ col, op: 'LIKE', val: value() });
            } else {
                const t = peek();
                // The operator must be a punctuation token (=, <>, <, <=, >, >=, !=)
                if (!t || t.type !== 'op') throw 0;
                consume();
                conds.push({ col, op: t.value, val: value() });
            }
            if (peekVal() === 'OR')  throw 0; // OR not supported by wizard
            if (peekVal() !== 'AND') break;
            consume(); // skip AND
        }
        return conds;
    }

    try {
        const kw = ident().toUpperCase();

        // ---- SELECT ----
        if (kw === 'SELECT') {
            if (peekVal() === 'DISTINCT') throw 0; // wizard has no deduplication control
            let cols = []; let selectAll = false;
            if (peek()?.value === '*') { consume(); selectAll = true; }
            else cols = identList('FROM');
            expect('FROM');
            const table = ident();
            // Reject any type of JOIN
            const jkw = peekVal();
            if (jkw === 'JOIN' || jkw === 'INNER' || jkw === 'LEFT' || jkw === 'RIGHT'
                    || jkw === 'OUTER' || jkw === 'CROSS' || jkw === 'FULL') throw 0;
            let where = [];
            if (peekVal() === 'WHERE') { consume(); where = whereConditions(); }
            // GROUP BY, HAVING, and LIMIT have no equivalent wizard controls
            if (peekVal() === 'GROUP' || peekVal() === 'HAVING' || peekVal() === 'LIMIT') throw 0;
            let order = [];
            if (peekVal() === 'ORDER') {
                consume(); expect('BY');
                const orderItem = () => {
                    const col = ident();
                    // The JS comma operator (consume(), 'DESC') calls consume() for its
                    // side effect (advancing past the keyword) then evaluates to 'DESC'.
                    const dir = peekVal() === 'DESC' ? (consume(), 'DESC')
                              : peekVal() === 'ASC'  ? (consume(), 'ASC') : 'ASC';
                    return { col, dir };
                };
                order.push(orderItem());
                while (peekVal() === ',') { consume(); if (atEnd()) break; order.push(orderItem()); }
            }
            if (!atEnd()) throw 0;
            return { type: 'SELECT', table, selectAll, cols, where, order };
        }

        // ---- INSERT ----
        if (kw === 'INSERT') {
            expect('INTO');
            const table = ident();
            expect('(');
            const cols = identList(')');
            expect(')');
            expect('VALUES');
            expect('(');
            const vals = [value()];
            // Break early if a trailing comma precedes ')' — some formatters emit them
            while (peekVal() === ',') { consume(); if (peek()?.value === ')') break; vals.push(value()); }
            expect(')');
            if (!atEnd()) throw 0;
            // A mismatch means the statement was malformed (e.g. missing a value)
            if (cols.length !== vals.length) throw 0;
            return { type: 'INSERT', table, cols, vals };
        }

        // ---- UPDATE ----
        if (kw === 'UPDATE') {
            const table = ident();
            expect('SET');
            const sets = [];
            // parseSet reads one "col = val" pair and appends it to the sets[] array.
            const parseSet = () => { const col = ident(); expect('='); sets.push({ col, val: value() }); };
            parseSet();
            // Stop before WHERE so the comma after the last SET pair doesn't consume it.
            while (peekVal() === ',') { consume(); if (peekVal() === 'WHERE') break; parseSet(); }
            let where = [];
            if (peekVal() === 'WHERE') { consume(); where = whereConditions(); }
            if (!atEnd()) throw 0;
            return { type: 'UPDATE', table, sets, where };
        }

        // ---- DELETE ----
        if (kw === 'DELETE') {
            expect('FROM');
            const table = ident();
            let where = [];
            if (peekVal() === 'WHERE') { consume(); where = whereConditions(); }
            if (!atEnd()) throw 0;
            return { type: 'DELETE', table, where };
        }

        // ---- CREATE TABLE ----
        if (kw === 'CREATE') {
            expect('TABLE');
            // Optional IF NOT EXISTS modifier
            if (peekVal() === 'IF') { consume(); expect('NOT'); expect('EXISTS'); }
            const table = ident();
            expect('(');
            const cols = [];
            const parseColDef = () => {
                const name = ident();
                let type   = ident().toUpperCase();
                // Handle parameterized types: VARCHAR(255), DECIMAL(10,2)
                if (peek()?.value === '(') {
                    type += '(';
                    consume();
                    if (peek()) { type += peek().value; consume(); }
                    if (peekVal() === ',') { consume(); if (peek()) { type += ',' + peek().value; consume(); } }
                    expect(')');
                    type += ')';
                }
                let unique = false; let nullable = true;
                // Parse optional per-column modifiers in any order. The "outer:" label
                // is needed because a plain "break" inside a switch exits only the switch,
                // not the enclosing while loop. "break outer" exits both at once.
                outer: while (true) {
                    switch (peekVal()) {
                        case 'UNIQUE':   consume(); unique   = true;  break;
                        case 'NULL':     consume(); nullable = true;  break;
                        case 'NOT':      consume(); expect('NULL'); nullable = false; break;
                        // PRIMARY KEY and DEFAULT cannot be represented in the wizard
                        case 'PRIMARY': case 'DEFAULT': throw 0;
                        default: break outer;
                    }
                }
                cols.push({ name, type, unique, nullable });
            };
            parseColDef();
            while (peekVal() === ',') {
                consume();
                if (peek()?.value === ')') break;
                // Table-level constraints (PRIMARY KEY (...), UNIQUE KEY, etc.) not supported
                if (peekVal() === 'PRIMARY' || peekVal() === 'UNIQUE' || peekVal() === 'KEY'
                        || peekVal() === 'INDEX' || peekVal() === 'CONSTRAINT') throw 0;
                parseColDef();
            }
            expect(')');
            if (!atEnd()) throw 0;
            return { type: 'CREATE', table, cols };
        }

        // ---- ALTER TABLE ----
        if (kw === 'ALTER') {
            expect('TABLE');
            const table = ident();
            const sub   = ident().toUpperCase();

            // Shared column-definition parser — mirrors the CREATE TABLE one.
            const parseColDef = () => {
                if (peekVal() === 'COLUMN') consume(); // COLUMN keyword is optional
                const name = ident();
                let type   = ident().toUpperCase();
                if (peek()?.value === '(') {
                    type += '(';
                    consume();
                    if (peek()) { type += peek().value; consume(); }
                    if (peekVal() === ',') { consume(); if (peek()) { type += ',' + peek().value; consume(); } }
                    expect(')');
                    type += ')';
                }
                let unique = false; let nullable = true;
                outer: while (true) {
                    switch (peekVal()) {
                        case 'UNIQUE': consume(); unique   = true;  break;
                        case 'NULL':   consume(); nullable = true;  break;
                        case 'NOT':    consume(); expect('NULL'); nullable = false; break;
                        case 'PRIMARY': case 'DEFAULT': throw 0;
                        default: break outer;
                    }
                }
                return { name, type, unique, nullable };
            };

            if (sub === 'ADD') {
                const cols = [parseColDef()];
                // Postgres allows comma-separated ADD COLUMN clauses in one statement.
                // peek2Val() looks one token ahead past the comma to check for ADD.
                while (peekVal() === ',' && peek2Val() === 'ADD') {
                    consume(); consume(); // ',' and 'ADD'
                    cols.push(parseColDef());
                }
                if (!atEnd()) throw 0;
                return { type: 'ALTER', op: 'ADD', table, cols };
            }

            if (sub === 'DROP') {
                if (peekVal() === 'COLUMN') consume();
                const cols = [ident()];
                // Postgres: DROP COLUMN c1, DROP COLUMN c2 in one statement.
                while (peekVal() === ',' && peek2Val() === 'DROP') {
                    consume(); consume(); // ',' and 'DROP'
                    if (peekVal() === 'COLUMN') consume();
                    cols.push(ident());
                }
                if (!atEnd()) throw 0;
                return { type: 'ALTER', op: 'DROP', table, cols };
            }

            if (sub === 'RENAME') {
                if (peekVal() === 'COLUMN') consume();
                const fromCol = ident();
                expect('TO');
                const toCol = ident();
                if (!atEnd()) throw 0;
                // Only one RENAME per statement is legal in both Postgres and SQLite;
                // the wizard handles multiple renames as separate ALTER statements.
                return { type: 'ALTER', op: 'RENAME', table, renames: [{ from: fromCol, to: toCol }] };
            }

            throw 0; // Unsupported ALTER sub-command
        }

        return null; // Unrecognized statement keyword
    } catch (e) {
        return null;
    }
}

// Build a pre-populated WHERE clause row and append it to whereList.
// colOptsHtml is the pre-rendered <option>...</option> HTML for the column
// picker. cond is a { col, op, val } object from the parser output.
// This helper is shared by _applyParsedSelect, _applyParsedUpdate, and
// _applyParsedDelete; each passes either _sqlWizardColOptions() (SELECT,
// which excludes _row_id_) or _sqlWizardAllColOptions() (UPDATE/DELETE).
function _addWizardWhereRow(whereList, colOptsHtml, cond) {
    const row = document.createElement('div');
    row.className = 'sql-wiz-clause-row';
    row.innerHTML =
        '<select class="sql-wiz-where-col" onchange="buildSqlPreview()">'
        + colOptsHtml + '</select>'
        + '<select class="sql-wiz-where-op" onchange="sqlWizardWhereOpChanged(this)">'
        + _SQL_WIZ_OP_OPTIONS + '</select>'
        + '<input type="text" class="sql-wiz-where-val" placeholder="value"'
        + ' oninput="buildSqlPreview()">'
        + '<button class="sql-wiz-remove-btn" onclick="sqlWizardRemoveClause(this)">&#x2715;</button>';
    whereList.appendChild(row);

    // Set column picker to the parsed column name (case-insensitive match)
    const colSel = row.querySelector('.sql-wiz-where-col');
    if (colSel) {
        const opt = Array.from(colSel.options)
            .find(o => o.value.toLowerCase() === cond.col.toLowerCase());
        if (opt) colSel.value = opt.value;
    }

    // Set the operator. Normalize != (ANSI) to <> (SQL standard used by wizard).
    const opSel = row.querySelector('.sql-wiz-where-op');
    if (opSel) {
        const op    = cond.op === '!=' ? '<>' : cond.op;
        const opOpt = Array.from(opSel.options).find(o => o.value === op);
        if (opOpt) {
            opSel.value = opOpt.value;
            // Hide value input for IS NULL / IS NOT NULL (they take no value)
            sqlWizardWhereOpChanged(opSel);
        }
    }

    // Set the value input, stripping surrounding single quotes from string literals
    const valInput = row.querySelector('.sql-wiz-where-val');
    if (valInput && cond.val !== '') {
        valInput.value = cond.val.startsWith("'") && cond.val.endsWith("'")
            ? cond.val.slice(1, -1).replace(/''/g, "'")
            : cond.val;
    }
}

// Open the Build wizard. If the SQL editor has a non-empty selection, attempt
// to parse it as a SQL statement and pre-populate the wizard fields. If the
// selection cannot be parsed (e.g. JOINs, subqueries, OR conditions), ask the
// user whether to open a fresh wizard instead; if they decline, cancel.
// When the wizard is opened from a selection, _sqlWizardSelectionRange stores
// the selection offsets so insertSqlBuild() can replace that selection with
// the built result rather than appending at the cursor position.
async function showSqlBuild() {
    const dsn    = document.getElementById('sql-dsn-picker').value;
    const editor = document.getElementById('sql-editor');
    if (!dsn) {
        document.getElementById('sql-status').textContent = 'Select a DSN before using Build.';
        return;
    }

    let parsed = null;
    _sqlWizardSelectionRange = null;

    const selStart = editor.selectionStart;
    const selEnd   = editor.selectionEnd;
    if (selStart !== selEnd) {
        const selected = editor.value.substring(selStart, selEnd).trim();
        if (selected) {
            parsed = parseSqlStatement(selected);
            if (!parsed) {
                // Could not parse — ask whether to open a fresh wizard instead
                const ok = confirm(
                    'The selected text cannot be loaded into the wizard — it may contain '
                    + 'constructs such as JOINs, subqueries, or OR conditions that the '
                    + 'wizard does not support.\n\nOpen the wizard to start a new statement instead?'
                );
                if (!ok) return;
                // Fall through: open a blank SELECT wizard; insert at cursor, not selection
            } else {
                // Valid parse — store range so Insert will replace the selection
                _sqlWizardSelectionRange = { start: selStart, end: selEnd };
            }
        }
    }

    const typeVal = parsed ? parsed.type : 'SELECT';
    document.getElementById('sql-build-type').value = typeVal;
    _syncTypeButtons(typeVal);
    document.getElementById('sql-build-overlay').style.display = 'flex';
    await sqlWizardTypeChanged();

    // Apply parsed values on top of the freshly-loaded wizard, then re-capture
    // the clean baseline so dirty detection still works correctly.
    if (parsed) {
        await applyParsedToWizard(parsed);
        captureBaseline('sql-build-overlay');
    }
}

// Close the wizard and reset its state.
function hideSqlBuild() {
    document.getElementById('sql-build-overlay').style.display = 'none';
    document.getElementById('sql-build-body').innerHTML = '';
    document.getElementById('sql-build-preview').textContent = '-- Select a table to begin';
    document.getElementById('sql-build-insert-btn').disabled = true;
    _sqlWizardCols = [];
    // Clear the stored selection range so a future open-without-selection
    // inserts at the cursor rather than replacing stale text.
    _sqlWizardSelectionRange = null;
}

// Apply a parsed SQL statement to the wizard after sqlWizardTypeChanged() has
// already built the body. Steps:
//   1. For table-based types (not CREATE), find the parsed table in the picker
//      and reload its columns via the appropriate *TableChanged() function.
//   2. Call the corresponding _applyParsed*() helper to fill in the wizard fields.
//   3. Refresh the live preview via buildSqlPreview().
// If the parsed table is not found in the current DSN the wizard is left at its
// default (first available table) since we cannot pre-populate without columns.
async function applyParsedToWizard(parsed) {
    if (parsed.type === 'CREATE') {
        _applyParsedCreate(parsed);
        buildSqlPreview();
        return;
    }

    // ALTER TABLE uses a separate picker element from the other statement types.
    if (parsed.type === 'ALTER') {
        const picker = document.getElementById('sql-wiz-alter-table');
        if (picker && parsed.table) {
            const opt = Array.from(picker.options)
                .find(o => o.value.toLowerCase() === parsed.table.toLowerCase());
            if (!opt) return;
            picker.value = opt.value;
            await sqlWizardAlterTableChanged();
            _applyParsedAlter(parsed);
        }
        buildSqlPreview();
        return;
    }

    const picker = document.getElementById('sql-wiz-table');
    if (picker && parsed.table) {
        const opt = Array.from(picker.options)
            .find(o => o.value.toLowerCase() === parsed.table.toLowerCase());
        if (!opt) return; // parsed table not in DSN; leave wizard at default

        // Setting picker.value before calling *TableChanged() is essential: those
        // functions read picker.value to determine which table's columns to fetch.
        picker.value = opt.value;

        // Re-trigger the column load for the newly selected table, then apply
        // the parsed values on top of the freshly-loaded wizard fields.
        if (parsed.type === 'SELECT') {
            await sqlWizardTableChanged();
            _applyParsedSelect(parsed);
        } else if (parsed.type === 'INSERT') {
            await sqlWizardInsertTableChanged();
            _applyParsedInsert(parsed);
        } else if (parsed.type === 'UPDATE') {
            await sqlWizardUpdateTableChanged();
            _applyParsedUpdate(parsed);
        } else if (parsed.type === 'DELETE') {
            await sqlWizardDeleteTableChanged();
            _applyParsedDelete(parsed);
        }
    }

    buildSqlPreview();
}

// Pre-populate the SELECT wizard from a parsed SELECT statement.
// If specific column names were listed (not *), unchecks "Select all" to reveal
// the column grid, then checks only the parsed columns. Replaces any WHERE and
// ORDER BY rows with the parsed conditions.
function _applyParsedSelect(parsed) {
    if (!parsed.selectAll && parsed.cols.length > 0) {
        const allCheck = document.getElementById('sql-wiz-select-all');
        if (allCheck) {
            allCheck.checked = false;
            sqlWizardSelectAllChanged(); // shows the column checkbox grid
        }
        // Uncheck all, then check only the parsed columns (case-insensitive).
        // cb.dataset.col reads the data-col="..." HTML attribute set on each checkbox
        // by _sqlWizardColGridHtml() — it holds the column name as the server returned it.
        document.querySelectorAll('#sql-wiz-col-list input[type="checkbox"]').forEach(cb => {
            cb.checked = parsed.cols.some(c => c.toLowerCase() === cb.dataset.col.toLowerCase());
        });
    }

    const whereList = document.getElementById('sql-wiz-where-list');
    if (whereList && parsed.where.length > 0) {
        whereList.innerHTML = '';
        // SELECT WHERE excludes _row_id_ from the column picker
        const colOptsHtml = _sqlWizardColOptions();
        for (const cond of parsed.where) _addWizardWhereRow(whereList, colOptsHtml, cond);
    }

    const orderList = document.getElementById('sql-wiz-order-list');
    if (orderList && parsed.order.length > 0) {
        orderList.innerHTML = '';
        // We build each row manually rather than calling sqlWizardAddOrder() because
        // that function adds a blank row and immediately calls buildSqlPreview() —
        // there is no way to pre-set the column and direction before that preview fires.
        for (const o of parsed.order) {
            const row = document.createElement('div');
            row.className = 'sql-wiz-clause-row';
            row.innerHTML =
                '<select class="sql-wiz-order-col" onchange="buildSqlPreview()">'
                + _sqlWizardColOptions() + '</select>'
                + '<select class="sql-wiz-order-dir" onchange="buildSqlPreview()">'
                + '<option value="ASC">ASC</option>'
                + '<option value="DESC">DESC</option>'
                + '</select>'
                + '<button class="sql-wiz-remove-btn" onclick="sqlWizardRemoveClause(this)">&#x2715;</button>';
            orderList.appendChild(row);
            const colSel = row.querySelector('.sql-wiz-order-col');
            if (colSel) {
                const opt = Array.from(colSel.options)
                    .find(op => op.value.toLowerCase() === o.col.toLowerCase());
                if (opt) colSel.value = opt.value;
            }
            row.querySelector('.sql-wiz-order-dir').value = o.dir;
        }
    }
}

// Pre-populate the INSERT wizard from a parsed INSERT ... VALUES statement.
// For each column in the parsed list, sets the corresponding input value.
// Activates the Null button for columns whose parsed value is the NULL keyword.
// The locked "_row_id_" row (if present) is skipped — it keeps the value
// generateRowId() already assigned rather than replaying a value that may
// have come from a previous INSERT and would no longer be unique.
function _applyParsedInsert(parsed) {
    document.querySelectorAll('#sql-wiz-insert-fields .sql-wiz-insert-row').forEach(row => {
        if (row.dataset.col === '_row_id_') return;

        const idx = parsed.cols.findIndex(c => c.toLowerCase() === row.dataset.col.toLowerCase());
        if (idx === -1) return;

        const rawVal = parsed.vals[idx];
        const input  = row.querySelector('.sql-wiz-insert-input');
        const btn    = row.querySelector('.sql-wiz-insert-null-btn');

        if (rawVal === 'NULL') {
            // Call the toggle function rather than setting input.dataset.isNull directly
            // so all side effects (disabled state, CSS class) are applied consistently.
            if (btn) sqlWizardInsertNullToggle(btn);
        } else if (input) {
            // Strip surrounding single quotes; un-escape doubled quotes inside
            input.value = rawVal.startsWith("'") && rawVal.endsWith("'")
                ? rawVal.slice(1, -1).replace(/''/g, "'")
                : rawVal;
        }
    });
}

// Pre-populate the UPDATE wizard from a parsed UPDATE ... SET ... WHERE statement.
// For each SET column, checks the include checkbox and fills the value input.
// Replaces the default pre-populated WHERE row with the parsed conditions.
function _applyParsedUpdate(parsed) {
    document.querySelectorAll('#sql-wiz-update-fields .sql-wiz-update-row').forEach(row => {
        const setEntry = parsed.sets.find(s => s.col.toLowerCase() === row.dataset.col.toLowerCase());
        if (!setEntry) return;

        const cb      = row.querySelector('.sql-wiz-update-include');
        const input   = row.querySelector('.sql-wiz-update-input');
        const nullBtn = row.querySelector('.sql-wiz-update-null-btn');

        // sqlWizardUpdateToggleCol applies all side effects of checking the box:
        // removes the dimmed "excluded" class and re-enables the value input.
        if (cb) { cb.checked = true; sqlWizardUpdateToggleCol(cb); }

        if (setEntry.val === 'NULL') {
            // Same reasoning as _applyParsedInsert: use the toggle for side effects.
            if (nullBtn) sqlWizardUpdateNullToggle(nullBtn);
        } else if (input) {
            input.value = setEntry.val.startsWith("'") && setEntry.val.endsWith("'")
                ? setEntry.val.slice(1, -1).replace(/''/g, "'")
                : setEntry.val;
        }
    });

    const whereList = document.getElementById('sql-wiz-where-list');
    if (whereList && parsed.where.length > 0) {
        whereList.innerHTML = '';
        // UPDATE WHERE includes _row_id_ so the user can target a specific row
        const colOptsHtml = _sqlWizardAllColOptions();
        for (const cond of parsed.where) _addWizardWhereRow(whereList, colOptsHtml, cond);
    }
}

// Pre-populate the DELETE wizard from a parsed DELETE ... WHERE statement.
// Replaces the default pre-populated WHERE row with the parsed conditions.
function _applyParsedDelete(parsed) {
    const whereList = document.getElementById('sql-wiz-where-list');
    if (whereList && parsed.where.length > 0) {
        whereList.innerHTML = '';
        // DELETE WHERE includes _row_id_ so the user can target a specific row
        const colOptsHtml = _sqlWizardAllColOptions();
        for (const cond of parsed.where) _addWizardWhereRow(whereList, colOptsHtml, cond);
    }
}

// Pre-populate the CREATE TABLE wizard from a parsed CREATE TABLE statement.
// Sets the table name input and adds one column row per parsed column definition.
function _applyParsedCreate(parsed) {
    const nameInput = document.getElementById('sql-wiz-create-name');
    if (nameInput) {
        nameInput.value = parsed.table;
        sqlWizardCreateNameChanged(); // validates name and updates the status indicator
    }

    // Clear any existing column rows, then add one row per parsed column
    const colList = document.getElementById('sql-wiz-create-cols');
    if (colList) colList.innerHTML = '';

    for (const col of parsed.cols) {
        sqlWizardCreateAddColumn(); // appends a blank row with default values
        // sqlWizardCreateAddColumn() doesn't return the row it just created, so we
        // re-query the list and take the last element to get the newly added row.
        const rows = document.querySelectorAll('#sql-wiz-create-cols .sql-wiz-create-col-row');
        const row  = rows[rows.length - 1];
        if (!row) continue;

        const nameIn = row.querySelector('.sql-wiz-create-col-name');
        if (nameIn) nameIn.value = col.name;

        const typeSel = row.querySelector('.sql-wiz-create-col-type');
        if (typeSel) {
            // Match on base type name only (e.g. "VARCHAR" from "VARCHAR(255)")
            // so the dropdown aligns even when a length parameter was specified.
            const baseType = col.type.replace(/\(.*\)/, '').toUpperCase();
            const opt = Array.from(typeSel.options).find(o => o.value === baseType);
            if (opt) typeSel.value = opt.value;
        }

        const uniqueCb   = row.querySelector('.sql-wiz-create-col-unique');
        const nullableCb = row.querySelector('.sql-wiz-create-col-nullable');
        if (uniqueCb)   uniqueCb.checked   = col.unique;
        if (nullableCb) nullableCb.checked = col.nullable;
    }

    // Re-lock the "_row_id_" row if the current DSN requires it — the loop
    // above may have just added it back as an ordinary, editable row.
    _sqlWizardCreateSyncRowIdRow();
}

// Pre-populate the ALTER TABLE wizard from a parsed ALTER TABLE statement.
// sqlWizardAlterTableChanged() has already been awaited before this runs,
// so _sqlWizardCols is current and the op-body HTML exists in the DOM.
function _applyParsedAlter(parsed) {
    // Switch to the correct operation button — also rebuilds the op-body.
    sqlWizardAlterSelectOp(parsed.op);

    if (parsed.op === 'ADD') {
        // Clear the auto-seeded blank row, then replay one row per parsed column.
        const colList = document.getElementById('sql-wiz-alter-cols');
        if (!colList) return;
        colList.innerHTML = '';
        for (const col of parsed.cols) {
            sqlWizardAlterAddColumn(); // appends a blank row
            const rows = colList.querySelectorAll('.sql-wiz-create-col-row');
            const row  = rows[rows.length - 1];
            if (!row) continue;
            const nameIn = row.querySelector('.sql-wiz-create-col-name');
            if (nameIn) nameIn.value = col.name;
            const typeSel = row.querySelector('.sql-wiz-create-col-type');
            if (typeSel) {
                const baseType = col.type.replace(/\(.*\)/, '').toUpperCase();
                const opt = Array.from(typeSel.options).find(o => o.value === baseType);
                if (opt) typeSel.value = opt.value;
            }
            const uniqueCb   = row.querySelector('.sql-wiz-create-col-unique');
            const nullableCb = row.querySelector('.sql-wiz-create-col-nullable');
            if (uniqueCb)   uniqueCb.checked   = col.unique;
            if (nullableCb) nullableCb.checked = col.nullable;
        }
    } else if (parsed.op === 'DROP') {
        // Check the input (checkbox or radio) whose data-col matches each parsed column.
        const allInputs = document.querySelectorAll('#sql-wiz-alter-drop-list input');
        for (const input of allInputs) {
            if (parsed.cols.includes(input.dataset.col)) input.checked = true;
        }
    } else if (parsed.op === 'RENAME') {
        // Fill the new-name input for each parsed rename pair.
        const allRows = document.querySelectorAll('#sql-wiz-alter-rename-list .sql-wiz-rename-row');
        for (const row of allRows) {
            const r = parsed.renames.find(x => x.from === row.dataset.col);
            if (!r) continue;
            const input = row.querySelector('.sql-wiz-rename-input');
            if (input) input.value = r.to;
        }
    }
}

// Sync the active-button highlight across the statement-type button bar.
// Called from showSqlBuild() (to reflect a pre-parsed type without triggering
// a reload) and from sqlWizardSelectType() (which does trigger a reload).
function _syncTypeButtons(type) {
    document.querySelectorAll('.sql-wiz-type-btn').forEach(btn => {
        btn.classList.toggle('sql-wiz-type-btn-active', btn.dataset.type === type);
    });
}

// Called when the user clicks one of the statement-type buttons.
// Updates the hidden value carrier, syncs button highlight, and reloads the wizard body.
function sqlWizardSelectType(type) {
    const hidden = document.getElementById('sql-build-type');
    if (hidden) hidden.value = type;
    _syncTypeButtons(type);
    sqlWizardTypeChanged();
}

// Rebuild the wizard body whenever the statement type changes. Fetches the
// table list first, then the selected table's columns — both in sequence so
// buildSqlPreview() sees a fully-populated wizard when it runs. Handles all
// six supported types: SELECT, INSERT, UPDATE, DELETE, CREATE, and ALTER.
// Called by sqlWizardSelectType() on every button click, and once on first
// open by showSqlBuild().
async function sqlWizardTypeChanged() {
    const type = document.getElementById('sql-build-type').value;
    const body = document.getElementById('sql-build-body');

    const supported = type === 'SELECT' || type === 'INSERT'
                   || type === 'UPDATE' || type === 'DELETE'
                   || type === 'CREATE' || type === 'ALTER';
    if (!supported) {
        body.innerHTML = '<p class="sql-wiz-unsupported">Not supported yet.</p>';
        document.getElementById('sql-build-preview').textContent =
            '-- ' + type + ' is not yet supported by the wizard';
        document.getElementById('sql-build-insert-btn').disabled = true;
        captureBaseline('sql-build-overlay');
        return;
    }

    // Both SELECT and INSERT need the table list first.
    const dsn = document.getElementById('sql-dsn-picker').value;
    body.innerHTML = '<p class="sql-wiz-loading">Loading tables…</p>';

    let tables = [];
    try {
        const res  = await apiFetch('/dsns/' + encodeURIComponent(dsn) + '/tables');
        const data = await res.json();
        tables = res.ok ? (data.tables || []).map(t => t.name).sort() : [];
    } catch (e) {
        if (e.message !== 'Unauthorized') console.error('SQL wizard: error loading tables:', e);
    }

    // Save the table list so the CREATE wizard can check for name collisions
    // without making an additional network request.
    _sqlWizardTables = tables;

    // CREATE does not need an existing table, so it bypasses the "no tables"
    // guard below and goes straight to its own HTML builder.
    if (type === 'CREATE') {
        body.innerHTML = _sqlWizardCreateHtml();
        _sqlWizardCreateSyncRowIdRow();
        buildSqlPreview();
        captureBaseline('sql-build-overlay');
        return;
    }

    if (tables.length === 0) {
        body.innerHTML = '<p class="sql-wiz-unsupported">No tables found in this DSN.</p>';
        document.getElementById('sql-build-preview').textContent = '-- No tables available';
        captureBaseline('sql-build-overlay');
        return;
    }

    if (type === 'SELECT') {
        body.innerHTML = _sqlWizardSelectHtml(tables);
        await sqlWizardTableChanged();
    } else if (type === 'INSERT') {
        body.innerHTML = _sqlWizardInsertHtml(tables);
        await sqlWizardInsertTableChanged();
    } else if (type === 'UPDATE') {
        body.innerHTML = _sqlWizardUpdateHtml(tables);
        await sqlWizardUpdateTableChanged();
    } else if (type === 'ALTER') {
        body.innerHTML = _sqlWizardAlterHtml(tables);
        await sqlWizardAlterTableChanged();
    } else {
        body.innerHTML = _sqlWizardDeleteHtml(tables);
        await sqlWizardDeleteTableChanged();
    }

    // Capture the fully-populated wizard state as the clean baseline so that
    // overlayBackdropClick() can detect whether the user has made any changes
    // before dismissing. This runs after all awaited table/column loads complete.
    captureBaseline('sql-build-overlay');
}

// Return the full HTML for the SELECT wizard body given a sorted table list.
// Kept as a separate function so it is easy to add other statement types later.
function _sqlWizardSelectHtml(tables) {
    const opts = tables.map(t =>
        '<option value="' + escapeHtml(t) + '">' + escapeHtml(t) + '</option>'
    ).join('');
    return '<div class="sql-wiz-section">'
        + '<div class="sql-wiz-section-hdr"><span class="sql-wiz-label">Table</span></div>'
        + '<select id="sql-wiz-table" class="sql-wiz-select" onchange="sqlWizardTableChanged()">'
        + opts + '</select></div>'
        + '<div class="sql-wiz-section">'
        + '<div class="sql-wiz-section-hdr"><span class="sql-wiz-label">Columns</span></div>'
        + '<div class="sql-wiz-toggle-row">'
        + '<input type="checkbox" id="sql-wiz-select-all" checked onchange="sqlWizardSelectAllChanged()">'
        + '<label for="sql-wiz-select-all" class="sql-wiz-check-label">Select all columns (*)</label>'
        + '</div>'
        + '<div id="sql-wiz-col-list" style="display:none;"></div>'
        + '</div>'
        + '<div class="sql-wiz-section">'
        + '<div class="sql-wiz-section-hdr">'
        + '<span class="sql-wiz-label">WHERE clause</span>'
        + '<button class="sql-wiz-add-btn" onclick="sqlWizardAddWhere()">+ Add condition</button>'
        + '</div>'
        + '<div id="sql-wiz-where-list"></div>'
        + '</div>'
        + '<div class="sql-wiz-section">'
        + '<div class="sql-wiz-section-hdr">'
        + '<span class="sql-wiz-label">ORDER BY</span>'
        + '<button class="sql-wiz-add-btn" onclick="sqlWizardAddOrder()">+ Add column</button>'
        + '</div>'
        + '<div id="sql-wiz-order-list"></div>'
        + '</div>';
}

// Return the HTML body for the INSERT wizard (table picker + values container).
function _sqlWizardInsertHtml(tables) {
    const opts = tables.map(t =>
        '<option value="' + escapeHtml(t) + '">' + escapeHtml(t) + '</option>'
    ).join('');
    return '<div class="sql-wiz-section">'
        + '<div class="sql-wiz-section-hdr"><span class="sql-wiz-label">Table</span></div>'
        + '<select id="sql-wiz-table" class="sql-wiz-select"'
        + ' onchange="sqlWizardInsertTableChanged()">'
        + opts + '</select></div>'
        + '<div class="sql-wiz-section">'
        + '<div class="sql-wiz-section-hdr"><span class="sql-wiz-label">Values</span></div>'
        + '<div id="sql-wiz-insert-fields">'
        + '<p class="sql-wiz-loading">Loading columns…</p>'
        + '</div></div>';
}

// Fetch column metadata for the INSERT table picker and rebuild the value fields.
// The ?rowids=true query parameter tells the server to include the internal
// _row_id_ column and to add unique/nullable metadata to each column object.
// Unlike the server's own Table Rows API (which assigns _row_id_ automatically
// on INSERT — see internal/server/tables/scripting/insert.go), this wizard
// builds a raw INSERT statement that bypasses that machinery entirely, so
// _row_id_ is kept in the field list: _sqlWizardInsertFieldsHtml() renders it
// as a locked row pre-filled with a generated value rather than omitting it.
async function sqlWizardInsertTableChanged() {
    const dsn   = document.getElementById('sql-dsn-picker').value;
    const table = document.getElementById('sql-wiz-table')?.value;
    if (!dsn || !table) return;

    _sqlWizardCols = [];
    try {
        const res  = await apiFetch(
            '/dsns/' + encodeURIComponent(dsn)
            + '/tables/' + encodeURIComponent(table) + '?rowids=true'
        );
        const data = await res.json();
        _sqlWizardCols = res.ok ? (data.columns || []) : [];
    } catch (e) {
        if (e.message !== 'Unauthorized') console.error('SQL wizard: error loading columns:', e);
    }

    const container = document.getElementById('sql-wiz-insert-fields');
    if (container) container.innerHTML = _sqlWizardInsertFieldsHtml(_sqlWizardCols);
    buildSqlPreview();
}

// Return the HTML for the INSERT column-value form. Each row shows the column
// name, its SQL type as a hint, a text input, and a Null toggle button.
// Each row div carries data-col and data-type attributes so that
// buildSqlPreview() can read the column name and type without querying
// _sqlWizardCols again. data-is-null starts as "false"; sqlWizardInsertNullToggle()
// flips it to "true" when the Null button is active.
// The internal "_row_id_" column, when present, gets a locked row instead
// (see _sqlWizardInsertRowIdRowHtml()) rather than this generic treatment.
function _sqlWizardInsertFieldsHtml(cols) {
    if (cols.length === 0) return '<p class="sql-wiz-unsupported">No columns available.</p>';
    return cols.map(c => {
        if (c.name === '_row_id_') return _sqlWizardInsertRowIdRowHtml(c);

        const nullable = c.nullable && c.nullable.value;
        const typeHint = escapeHtml(c.type || '');
        return '<div class="sql-wiz-insert-row" data-col="' + escapeHtml(c.name)
            + '" data-type="' + typeHint + '">'
            + '<span class="sql-wiz-insert-label">'
            + '<span class="sql-wiz-insert-colname">' + escapeHtml(c.name) + '</span>'
            + '<span class="sql-wiz-insert-typehint">' + typeHint
            + (nullable ? '' : ' &bull;') + '</span>'
            + '</span>'
            + '<input type="text" class="sql-wiz-insert-input" data-is-null="false"'
            + ' oninput="buildSqlPreview()" autocomplete="off" spellcheck="false"'
            + ' placeholder="">'
            + '<button class="sql-wiz-insert-null-btn"'
            + ' onclick="sqlWizardInsertNullToggle(this)">Null</button>'
            + '</div>';
    }).join('');
}

// Return the HTML for the locked "_row_id_" value row. Its value is generated
// once here, client-side, via generateRowId() rather than typed by the user —
// see sqlWizardInsertTableChanged() for why this wizard must supply it itself.
// The input is disabled (not just readonly) so the value can't be edited but
// is still readable via .value for buildSqlPreview(); there is no Null button
// since this column may never be null.
function _sqlWizardInsertRowIdRowHtml(c) {
    const typeHint = escapeHtml(c.type || '');
    return '<div class="sql-wiz-insert-row sql-wiz-insert-row-locked" data-col="_row_id_"'
        + ' data-type="' + typeHint + '">'
        + '<span class="sql-wiz-insert-label">'
        + '<span class="sql-wiz-insert-colname">_row_id_</span>'
        + '<span class="sql-wiz-insert-typehint">' + typeHint + ' &bull;</span>'
        + '</span>'
        + '<input type="text" class="sql-wiz-insert-input" data-is-null="false" disabled'
        + ' value="' + escapeHtml(generateRowId()) + '">'
        + '<span class="sql-wiz-insert-locked" title="Generated automatically — required by this table\'s Row ID column">&#x1F512;</span>'
        + '</div>';
}

// Toggle the null state for an INSERT value row. When null is active the input
// is visually muted and disabled so it cannot be edited; buildSqlPreview()
// will emit NULL for that column instead of a quoted value.
// State is tracked via input.dataset.isNull ("true"/"false") rather than a
// separate variable so the state survives DOM re-reads without extra bookkeeping.
function sqlWizardInsertNullToggle(btn) {
    const row   = btn.closest('.sql-wiz-insert-row');
    const input = row?.querySelector('.sql-wiz-insert-input');
    if (!row || !input) return;

    const wasNull = input.dataset.isNull === 'true';
    if (wasNull) {
        input.dataset.isNull = 'false';
        input.disabled = false;
        input.classList.remove('sql-wiz-insert-null');
        btn.classList.remove('sql-wiz-insert-null-active');
    } else {
        input.dataset.isNull = 'true';
        input.disabled = true;
        input.classList.add('sql-wiz-insert-null');
        btn.classList.add('sql-wiz-insert-null-active');
    }
    buildSqlPreview();
}

// ==========================================================================
// UPDATE wizard
// ==========================================================================

// Return the HTML body for the UPDATE wizard (table, SET fields, WHERE section).
function _sqlWizardUpdateHtml(tables) {
    const opts = tables.map(t =>
        '<option value="' + escapeHtml(t) + '">' + escapeHtml(t) + '</option>'
    ).join('');
    return '<div class="sql-wiz-section">'
        + '<div class="sql-wiz-section-hdr"><span class="sql-wiz-label">Table</span></div>'
        + '<select id="sql-wiz-table" class="sql-wiz-select"'
        + ' onchange="sqlWizardUpdateTableChanged()">'
        + opts + '</select></div>'
        + '<div class="sql-wiz-section">'
        + '<div class="sql-wiz-section-hdr">'
        + '<span class="sql-wiz-label">SET values'
        + ' <span class="sql-wiz-hint">— check columns to update</span></span>'
        + '</div>'
        + '<div id="sql-wiz-update-fields">'
        + '<p class="sql-wiz-loading">Loading columns…</p>'
        + '</div></div>'
        + '<div class="sql-wiz-section">'
        + '<div class="sql-wiz-section-hdr">'
        + '<span class="sql-wiz-label">WHERE'
        + ' <span class="sql-wiz-required">(required)</span></span>'
        + '<button class="sql-wiz-add-btn" onclick="sqlWizardUpdateAddWhere()">'
        + '+ Add condition</button>'
        + '</div>'
        + '<div id="sql-wiz-where-list"></div>'
        + '</div>';
}

// Fetch column metadata for the UPDATE table picker, rebuild the SET fields,
// and pre-populate the WHERE list with the table's first unique column.
async function sqlWizardUpdateTableChanged() {
    const dsn   = document.getElementById('sql-dsn-picker').value;
    const table = document.getElementById('sql-wiz-table')?.value;
    if (!dsn || !table) return;

    _sqlWizardCols = [];
    try {
        const res  = await apiFetch(
            '/dsns/' + encodeURIComponent(dsn)
            + '/tables/' + encodeURIComponent(table) + '?rowids=true'
        );
        const data = await res.json();
        _sqlWizardCols = res.ok ? (data.columns || []) : [];
    } catch (e) {
        if (e.message !== 'Unauthorized') console.error('SQL wizard: error loading columns:', e);
    }

    const cols = _sqlWizardCols.filter(c => c.name !== '_row_id_');

    // Rebuild the SET field list.
    const fieldsDiv = document.getElementById('sql-wiz-update-fields');
    if (fieldsDiv) fieldsDiv.innerHTML = _sqlWizardUpdateFieldsHtml(cols);

    // Replace the WHERE list with a single pre-populated row using the
    // table's first unique column so there is always a starting WHERE condition.
    const whereList = document.getElementById('sql-wiz-where-list');
    if (whereList) {
        whereList.innerHTML = '';
        const uniqueCol = _sqlWizardFindUniqueCol();
        if (uniqueCol) {
            const row = document.createElement('div');
            row.className = 'sql-wiz-clause-row';
            row.innerHTML =
                '<select class="sql-wiz-where-col" onchange="buildSqlPreview()">'
                + _sqlWizardAllColOptions() + '</select>'
                + '<select class="sql-wiz-where-op" onchange="sqlWizardWhereOpChanged(this)">'
                + _SQL_WIZ_OP_OPTIONS + '</select>'
                + '<input type="text" class="sql-wiz-where-val" placeholder="value"'
                + ' oninput="buildSqlPreview()">'
                + '<button class="sql-wiz-remove-btn" onclick="sqlWizardRemoveClause(this)">'
                + '&#x2715;</button>';
            whereList.appendChild(row);
            row.querySelector('.sql-wiz-where-col').value = uniqueCol;
        }
    }

    buildSqlPreview();
}

// Return the HTML for the UPDATE SET field rows. Each row has an include
// checkbox, a column label with type hint, a text input, and a Null button.
// Rows start with the checkbox unchecked and both the input and Null button
// disabled so the user must explicitly opt each column in. The css class
// sql-wiz-row-excluded applies 50% opacity to visually dim excluded rows.
// When the checkbox is checked, sqlWizardUpdateToggleCol() enables the controls.
function _sqlWizardUpdateFieldsHtml(cols) {
    if (cols.length === 0) return '<p class="sql-wiz-unsupported">No columns available.</p>';
    return cols.map(c => {
        const nullable = c.nullable && c.nullable.value;
        const typeHint = escapeHtml(c.type || '');
        return '<div class="sql-wiz-update-row sql-wiz-row-excluded"'
            + ' data-col="' + escapeHtml(c.name)
            + '" data-type="' + typeHint + '">'
            + '<input type="checkbox" class="sql-wiz-update-include"'
            + ' onchange="sqlWizardUpdateToggleCol(this)">'
            + '<span class="sql-wiz-insert-label">'
            + '<span class="sql-wiz-insert-colname">' + escapeHtml(c.name) + '</span>'
            + '<span class="sql-wiz-insert-typehint">' + typeHint
            + (nullable ? '' : ' &bull;') + '</span>'
            + '</span>'
            + '<input type="text" class="sql-wiz-update-input" data-is-null="false"'
            + ' oninput="buildSqlPreview()" autocomplete="off" spellcheck="false"'
            + ' placeholder="" disabled>'
            + '<button class="sql-wiz-update-null-btn"'
            + ' onclick="sqlWizardUpdateNullToggle(this)" disabled>Null</button>'
            + '</div>';
    }).join('');
}

// Enable or disable a SET field when its include checkbox is toggled.
function sqlWizardUpdateToggleCol(cb) {
    const row     = cb.closest('.sql-wiz-update-row');
    const input   = row?.querySelector('.sql-wiz-update-input');
    const nullBtn = row?.querySelector('.sql-wiz-update-null-btn');
    if (!row) return;
    const included = cb.checked;
    row.classList.toggle('sql-wiz-row-excluded', !included);
    if (nullBtn) nullBtn.disabled = !included;
    if (input) {
        // Re-enable the input only when included AND not null-flagged.
        input.disabled = !included || input.dataset.isNull === 'true';
    }
    buildSqlPreview();
}

// Toggle the null state for an UPDATE SET field. An UPDATE row has three
// interaction states:
//   excluded  — checkbox unchecked; input and Null button both disabled
//   included  — checkbox checked; user can type a value
//   null      — Null button active; input disabled and shows null styling
// This function switches between "included" and "null". When un-nulling we
// must re-check whether the row is still included (checkbox still checked)
// before re-enabling the input, because the user might have unchecked the
// row while null was active.
function sqlWizardUpdateNullToggle(btn) {
    const row     = btn.closest('.sql-wiz-update-row');
    const input   = row?.querySelector('.sql-wiz-update-input');
    const include = row?.querySelector('.sql-wiz-update-include');
    if (!row || !input) return;
    const wasNull = input.dataset.isNull === 'true';
    if (wasNull) {
        input.dataset.isNull = 'false';
        // Only re-enable typing if the row's checkbox is still checked.
        input.disabled = !(include?.checked);
        input.classList.remove('sql-wiz-update-null');
        btn.classList.remove('sql-wiz-update-null-active');
    } else {
        input.dataset.isNull = 'true';
        input.disabled = true;
        input.classList.add('sql-wiz-update-null');
        btn.classList.add('sql-wiz-update-null-active');
    }
    buildSqlPreview();
}

// Append a new WHERE clause row for UPDATE (includes _row_id_ in the column picker).
function sqlWizardUpdateAddWhere() {
    const list = document.getElementById('sql-wiz-where-list');
    if (!list) return;
    const row = document.createElement('div');
    row.className = 'sql-wiz-clause-row';
    row.innerHTML =
        '<select class="sql-wiz-where-col" onchange="buildSqlPreview()">'
        + _sqlWizardAllColOptions() + '</select>'
        + '<select class="sql-wiz-where-op" onchange="sqlWizardWhereOpChanged(this)">'
        + _SQL_WIZ_OP_OPTIONS + '</select>'
        + '<input type="text" class="sql-wiz-where-val" placeholder="value"'
        + ' oninput="buildSqlPreview()">'
        + '<button class="sql-wiz-remove-btn" onclick="sqlWizardRemoveClause(this)">'
        + '&#x2715;</button>';
    list.appendChild(row);
    buildSqlPreview();
}

// Fetch column metadata for the selected table and rebuild the column checkbox
// grid plus the column pickers in any existing WHERE / ORDER BY rows.
// Clears existing clause rows when the table changes to avoid stale column names.
// The ?rowids=true query parameter asks the server to include the internal
// _row_id_ column and to annotate each column with unique/nullable metadata.
// _row_id_ is then stripped from the display list; it is not a user-visible column.
async function sqlWizardTableChanged() {
    const dsn   = document.getElementById('sql-dsn-picker').value;
    const table = document.getElementById('sql-wiz-table')?.value;
    if (!dsn || !table) return;

    _sqlWizardCols = [];
    try {
        const res  = await apiFetch(
            '/dsns/' + encodeURIComponent(dsn)
            + '/tables/' + encodeURIComponent(table) + '?rowids=true'
        );
        const data = await res.json();
        _sqlWizardCols = res.ok ? (data.columns || []) : [];
    } catch (e) {
        if (e.message !== 'Unauthorized') console.error('SQL wizard: error loading columns:', e);
    }

    // Exclude _row_id_ from the display column list (internal field).
    const cols = _sqlWizardCols.filter(c => c.name !== '_row_id_');

    // Rebuild column checkbox grid.
    const colList = document.getElementById('sql-wiz-col-list');
    if (colList) colList.innerHTML = _sqlWizardColGridHtml(cols);

    // Clear WHERE and ORDER BY rows so stale column names are not shown.
    const whereList = document.getElementById('sql-wiz-where-list');
    const orderList = document.getElementById('sql-wiz-order-list');
    if (whereList) whereList.innerHTML = '';
    if (orderList) orderList.innerHTML = '';

    buildSqlPreview();
}

// Return the HTML for the column checkbox grid used when select-all is off.
function _sqlWizardColGridHtml(cols) {
    if (cols.length === 0) return '<p class="sql-wiz-unsupported">No columns available.</p>';
    return '<div class="sql-wiz-col-grid">'
        + cols.map(c =>
            '<div class="sql-wiz-col-item">'
            + '<input type="checkbox" id="sql-wiz-col-cb-' + escapeHtml(c.name) + '" '
            + 'data-col="' + escapeHtml(c.name) + '" checked onchange="buildSqlPreview()">'
            + '<label for="sql-wiz-col-cb-' + escapeHtml(c.name) + '">'
            + escapeHtml(c.name) + '</label>'
            + '</div>'
        ).join('')
        + '</div>';
}

// Return a string of <option> elements for non-internal columns (excludes _row_id_).
// Used in SELECT column pickers and WHERE pickers for SELECT statements.
// SELECT should not expose _row_id_ because it is an internal implementation
// detail; see _sqlWizardAllColOptions() for UPDATE/DELETE WHERE pickers that
// do need it as a filter target.
function _sqlWizardColOptions() {
    const cols = _sqlWizardCols.filter(c => c.name !== '_row_id_');
    return cols.map(c =>
        '<option value="' + escapeHtml(c.name) + '">' + escapeHtml(c.name) + '</option>'
    ).join('');
}

// Return <option> elements for ALL columns including _row_id_. Used in WHERE
// pickers for UPDATE and DELETE so the internal row key can be used as a
// filter — e.g. "WHERE _row_id_ = 42" to target a single row precisely.
function _sqlWizardAllColOptions() {
    return _sqlWizardCols.map(c =>
        '<option value="' + escapeHtml(c.name) + '">' + escapeHtml(c.name) + '</option>'
    ).join('');
}

// Scan _sqlWizardCols for the first column marked as unique, preferring a
// named column over _row_id_. The server populates col.unique.specified=true
// and col.unique.value=true when the column has a unique constraint; both
// fields must be true to qualify. _row_id_ is kept as a last-resort fallback
// because it is always unique but is less meaningful to users than a named key.
// Returns null when no unique column exists at all.
function _sqlWizardFindUniqueCol() {
    let rowIdUnique = false;
    for (const col of _sqlWizardCols) {
        if (!(col.unique && col.unique.specified && col.unique.value)) continue;
        if (col.name === '_row_id_') { rowIdUnique = true; continue; }
        return col.name;
    }
    return rowIdUnique ? '_row_id_' : null;
}

// Collect complete WHERE clause parts from the shared #sql-wiz-where-list.
// Shared by the SELECT, UPDATE, and DELETE preview builders so the same
// WHERE UI element does not need to be re-implemented per statement type.
// Rows with an empty value field are skipped (an incomplete condition would
// produce invalid SQL). IS NULL / IS NOT NULL are emitted without a value
// because those operators don't take one.
// String values are single-quoted and internal single-quotes are doubled
// ('' is the SQL standard escape for a literal apostrophe) to prevent
// SQL injection in the generated preview text.
function _sqlWizardCollectWhereParts() {
    const parts = [];
    document.querySelectorAll('#sql-wiz-where-list .sql-wiz-clause-row').forEach(row => {
        const col = row.querySelector('.sql-wiz-where-col')?.value;
        const op  = row.querySelector('.sql-wiz-where-op')?.value;
        if (!col || !op) return;
        if (op === 'IS NULL' || op === 'IS NOT NULL') {
            parts.push(col + ' ' + op);
        } else {
            const val = (row.querySelector('.sql-wiz-where-val')?.value || '').trim();
            if (val === '') return;
            // Leave numeric literals unquoted; quote everything else.
            const isNum = /^-?\d+(\.\d+)?([eE][+-]?\d+)?$/.test(val);
            const quoted = isNum ? val : "'" + val.replace(/'/g, "''") + "'";
            parts.push(col + ' ' + op + ' ' + quoted);
        }
    });
    return parts;
}

// Show or hide the column checkbox grid when the "Select all" toggle changes.
function sqlWizardSelectAllChanged() {
    const checked = document.getElementById('sql-wiz-select-all')?.checked;
    const list    = document.getElementById('sql-wiz-col-list');
    if (list) list.style.display = checked ? 'none' : '';
    buildSqlPreview();
}

// Append a new WHERE clause row with column picker, operator picker, and value.
// Uses _sqlWizardColOptions() (excludes _row_id_) because SELECT WHERE clauses
// filter on user-visible columns. UPDATE and DELETE use their own AddWhere
// functions that call _sqlWizardAllColOptions() so _row_id_ is also available.
function sqlWizardAddWhere() {
    const list = document.getElementById('sql-wiz-where-list');
    if (!list) return;
    const row = document.createElement('div');
    row.className = 'sql-wiz-clause-row';
    row.innerHTML =
        '<select class="sql-wiz-where-col" onchange="buildSqlPreview()">'
        + _sqlWizardColOptions() + '</select>'
        + '<select class="sql-wiz-where-op" onchange="sqlWizardWhereOpChanged(this)">'
        + _SQL_WIZ_OP_OPTIONS + '</select>'
        + '<input type="text" class="sql-wiz-where-val" placeholder="value"'
        + ' oninput="buildSqlPreview()">'
        + '<button class="sql-wiz-remove-btn" onclick="sqlWizardRemoveClause(this)">'
        + '&#x2715;</button>';
    list.appendChild(row);
    buildSqlPreview();
}

// Append a new ORDER BY row with column picker and direction selector.
function sqlWizardAddOrder() {
    const list = document.getElementById('sql-wiz-order-list');
    if (!list) return;
    const row = document.createElement('div');
    row.className = 'sql-wiz-clause-row';
    row.innerHTML =
        '<select class="sql-wiz-order-col" onchange="buildSqlPreview()">'
        + _sqlWizardColOptions() + '</select>'
        + '<select class="sql-wiz-order-dir" onchange="buildSqlPreview()">'
        + '<option value="ASC">ASC</option>'
        + '<option value="DESC">DESC</option>'
        + '</select>'
        + '<button class="sql-wiz-remove-btn" onclick="sqlWizardRemoveClause(this)">'
        + '&#x2715;</button>';
    list.appendChild(row);
    buildSqlPreview();
}

// Remove the clause row that contains the clicked ✕ button.
// btn.closest('.sql-wiz-clause-row') walks up the DOM from the button until
// it finds an ancestor with that class — this works regardless of how many
// elements deep the button sits inside the row. Works for WHERE and ORDER BY
// rows because both use the same sql-wiz-clause-row class.
function sqlWizardRemoveClause(btn) {
    btn.closest('.sql-wiz-clause-row').remove();
    buildSqlPreview();
}

// Show or hide the value input when the operator changes. IS NULL and
// IS NOT NULL test for the absence of a value so no comparison value is
// needed — hiding the input prevents the user from entering one and
// avoids generating syntactically invalid SQL like "col IS NULL 'x'".
function sqlWizardWhereOpChanged(sel) {
    const noVal = sel.value === 'IS NULL' || sel.value === 'IS NOT NULL';
    const val   = sel.closest('.sql-wiz-clause-row').querySelector('.sql-wiz-where-val');
    if (val) val.style.display = noVal ? 'none' : '';
    buildSqlPreview();
}

// ==========================================================================
// DELETE wizard
// ==========================================================================

// Return the HTML body for the DELETE wizard (table picker + WHERE section only).
function _sqlWizardDeleteHtml(tables) {
    const opts = tables.map(t =>
        '<option value="' + escapeHtml(t) + '">' + escapeHtml(t) + '</option>'
    ).join('');
    return '<div class="sql-wiz-section">'
        + '<div class="sql-wiz-section-hdr"><span class="sql-wiz-label">Table</span></div>'
        + '<select id="sql-wiz-table" class="sql-wiz-select"'
        + ' onchange="sqlWizardDeleteTableChanged()">'
        + opts + '</select></div>'
        + '<div class="sql-wiz-section">'
        + '<div class="sql-wiz-section-hdr">'
        + '<span class="sql-wiz-label">WHERE'
        + ' <span class="sql-wiz-required">(required)</span></span>'
        + '<button class="sql-wiz-add-btn" onclick="sqlWizardDeleteAddWhere()">'
        + '+ Add condition</button>'
        + '</div>'
        + '<div id="sql-wiz-where-list"></div>'
        + '</div>';
}

// Fetch column metadata for the DELETE table picker and pre-populate the WHERE
// list with the table's first unique column (same logic as UPDATE).
async function sqlWizardDeleteTableChanged() {
    const dsn   = document.getElementById('sql-dsn-picker').value;
    const table = document.getElementById('sql-wiz-table')?.value;
    if (!dsn || !table) return;

    _sqlWizardCols = [];
    try {
        const res  = await apiFetch(
            '/dsns/' + encodeURIComponent(dsn)
            + '/tables/' + encodeURIComponent(table) + '?rowids=true'
        );
        const data = await res.json();
        _sqlWizardCols = res.ok ? (data.columns || []) : [];
    } catch (e) {
        if (e.message !== 'Unauthorized') console.error('SQL wizard: error loading columns:', e);
    }

    // Replace the WHERE list with a single pre-populated row using the
    // table's first unique column so there is always a starting WHERE condition.
    const whereList = document.getElementById('sql-wiz-where-list');
    if (whereList) {
        whereList.innerHTML = '';
        const uniqueCol = _sqlWizardFindUniqueCol();
        if (uniqueCol) {
            const row = document.createElement('div');
            row.className = 'sql-wiz-clause-row';
            row.innerHTML =
                '<select class="sql-wiz-where-col" onchange="buildSqlPreview()">'
                + _sqlWizardAllColOptions() + '</select>'
                + '<select class="sql-wiz-where-op" onchange="sqlWizardWhereOpChanged(this)">'
                + _SQL_WIZ_OP_OPTIONS + '</select>'
                + '<input type="text" class="sql-wiz-where-val" placeholder="value"'
                + ' oninput="buildSqlPreview()">'
                + '<button class="sql-wiz-remove-btn" onclick="sqlWizardRemoveClause(this)">'
                + '&#x2715;</button>';
            whereList.appendChild(row);
            row.querySelector('.sql-wiz-where-col').value = uniqueCol;
        }
    }

    buildSqlPreview();
}

// Append a new WHERE clause row for DELETE (includes _row_id_ in the column picker).
function sqlWizardDeleteAddWhere() {
    const list = document.getElementById('sql-wiz-where-list');
    if (!list) return;
    const row = document.createElement('div');
    row.className = 'sql-wiz-clause-row';
    row.innerHTML =
        '<select class="sql-wiz-where-col" onchange="buildSqlPreview()">'
        + _sqlWizardAllColOptions() + '</select>'
        + '<select class="sql-wiz-where-op" onchange="sqlWizardWhereOpChanged(this)">'
        + _SQL_WIZ_OP_OPTIONS + '</select>'
        + '<input type="text" class="sql-wiz-where-val" placeholder="value"'
        + ' oninput="buildSqlPreview()">'
        + '<button class="sql-wiz-remove-btn" onclick="sqlWizardRemoveClause(this)">'
        + '&#x2715;</button>';
    list.appendChild(row);
    buildSqlPreview();
}

// ==========================================================================
// CREATE TABLE wizard
// ==========================================================================

// SQL types offered in the column type picker. This is a practical subset of
// the full SQL_TYPES set — common enough that a novice user will recognize them.
const _SQL_CREATE_TYPES = [
    'VARCHAR', 'TEXT', 'CHAR',
    'INT', 'INTEGER', 'BIGINT', 'SMALLINT',
    'FLOAT', 'DOUBLE', 'DECIMAL', 'NUMERIC',
    'BOOLEAN',
    'DATE', 'DATETIME', 'TIMESTAMP',
    'UUID', 'JSON',
];

// Return the HTML body for the CREATE TABLE wizard.
// Unlike SELECT/INSERT/UPDATE/DELETE, CREATE does not start with a table
// picker — the user is naming a new table. _sqlWizardTables is checked at
// runtime by sqlWizardCreateNameChanged() to detect collisions, so it does
// not need to be baked into the HTML.
function _sqlWizardCreateHtml() {
    return '<div class="sql-wiz-section">'
        + '<div class="sql-wiz-section-hdr"><span class="sql-wiz-label">Table name</span></div>'
        + '<div class="sql-wiz-create-name-row">'
        + '<input type="text" id="sql-wiz-create-name" class="sql-wiz-create-name-input"'
        + ' placeholder="new_table_name" oninput="sqlWizardCreateNameChanged()"'
        + ' autocomplete="off" spellcheck="false">'
        + '<span id="sql-wiz-create-name-status" class="sql-wiz-create-name-status"></span>'
        + '</div>'
        + '</div>'
        + '<div class="sql-wiz-section">'
        + '<div class="sql-wiz-section-hdr">'
        + '<span class="sql-wiz-label">Columns'
        + ' <span class="sql-wiz-required">(at least one required)</span></span>'
        + '<button class="sql-wiz-add-btn" onclick="sqlWizardCreateAddColumn()">+ Add column</button>'
        + '</div>'
        + '<div class="sql-wiz-create-col-header">'
        + '<span class="sql-wiz-create-hdr-name">Name</span>'
        + '<span class="sql-wiz-create-hdr-type">Type</span>'
        + '<span class="sql-wiz-create-hdr-cb">Unique</span>'
        + '<span class="sql-wiz-create-hdr-cb">Nullable</span>'
        + '<span class="sql-wiz-create-hdr-del"></span>'
        + '</div>'
        + '<div id="sql-wiz-create-cols"></div>'
        + '</div>';
}

// Called on every keystroke in the table-name input.
// Validates the name and updates the inline status indicator.
// _sqlWizardTables was populated when the wizard opened, so this is a
// fast local check — no network round-trip needed.
function sqlWizardCreateNameChanged() {
    const input  = document.getElementById('sql-wiz-create-name');
    const status = document.getElementById('sql-wiz-create-name-status');
    const name   = (input?.value || '').trim();

    if (!name) {
        status.textContent = '';
        status.className   = 'sql-wiz-create-name-status';
    } else if (_sqlWizardTables.some(t => t.toLowerCase() === name.toLowerCase())) {
        status.textContent = '✘ A table named “' + name + '” already exists';
        status.className   = 'sql-wiz-create-name-status sql-wiz-create-name-error';
    } else {
        status.textContent = '✔ Name is available';
        status.className   = 'sql-wiz-create-name-status sql-wiz-create-name-ok';
    }

    buildSqlPreview();
}

// Append a new column definition row to #sql-wiz-create-cols.
// Each row has: name input, type select, Unique checkbox, Nullable checkbox,
// and a ✕ delete button. Nullable starts checked so columns are nullable by
// default (the common case); the user unchecks it to add NOT NULL.
function sqlWizardCreateAddColumn() {
    const list = document.getElementById('sql-wiz-create-cols');
    if (!list) return;

    const typeOpts = _SQL_CREATE_TYPES.map(t =>
        '<option value="' + t + '">' + t + '</option>'
    ).join('');

    const row = document.createElement('div');
    row.className = 'sql-wiz-create-col-row';
    row.innerHTML =
        '<input type="text" class="sql-wiz-create-col-name"'
        + ' placeholder="column_name" oninput="buildSqlPreview()"'
        + ' autocomplete="off" spellcheck="false">'
        + '<select class="sql-wiz-create-col-type" onchange="buildSqlPreview()">'
        + typeOpts + '</select>'
        + '<label class="sql-wiz-create-cb-label">'
        + '<input type="checkbox" class="sql-wiz-create-col-unique" onchange="buildSqlPreview()">Unique'
        + '</label>'
        + '<label class="sql-wiz-create-cb-label">'
        + '<input type="checkbox" class="sql-wiz-create-col-nullable" checked onchange="buildSqlPreview()">Nullable'
        + '</label>'
        + '<button class="sql-wiz-remove-btn" onclick="sqlWizardCreateRemoveColumn(this)">&#x2715;</button>';
    list.appendChild(row);
    // Focus the name input immediately so the user can start typing without
    // having to click into it.
    row.querySelector('.sql-wiz-create-col-name').focus();
    buildSqlPreview();
}

// Remove the column definition row containing the clicked ✕ button.
function sqlWizardCreateRemoveColumn(btn) {
    btn.closest('.sql-wiz-create-col-row').remove();
    buildSqlPreview();
}

// Build the locked column-definition row for the internal "_row_id_" column.
// Every input is disabled (not just readonly) so its value is still readable
// via .value for buildSqlPreview(), but the user cannot edit or remove it.
// The type is fixed at VARCHAR — the wizard's own default string type — Unique
// is always checked, and Nullable is left checked (so buildSqlPreview() emits
// no NOT NULL clause) — together matching the column the server itself adds
// for rowIds-enabled DSNs: "_row_id_ VARCHAR UNIQUE" with no nullability
// clause (see FormCreateQuery in generators.go).
function _sqlWizardCreateRowIdRowHtml() {
    return '<input type="text" class="sql-wiz-create-col-name" value="_row_id_" disabled>'
        + '<select class="sql-wiz-create-col-type" disabled>'
        + '<option value="VARCHAR" selected>VARCHAR</option>'
        + '</select>'
        + '<label class="sql-wiz-create-cb-label">'
        + '<input type="checkbox" class="sql-wiz-create-col-unique" checked disabled>Unique'
        + '</label>'
        + '<label class="sql-wiz-create-cb-label">'
        + '<input type="checkbox" class="sql-wiz-create-col-nullable" checked disabled>Nullable'
        + '</label>'
        + '<span class="sql-wiz-create-col-locked" title="Required because the selected DSN has Row ID enabled">&#x1F512;</span>';
}

// Ensure the CREATE TABLE column list reflects the current DSN's "rowIds"
// attribute: adds a locked "_row_id_" row (as the first column) when the DSN
// requires it, replacing any ordinary "_row_id_" row that may have arrived
// via a parsed CREATE TABLE statement (_applyParsedCreate) so it can't be
// left editable. Does nothing when the DSN does not use row IDs — a
// "_row_id_" row from parsed SQL is then left as an ordinary, editable
// column, since it isn't one this wizard is required to manage.
// Called once when the CREATE wizard body is first built, and again after
// _applyParsedCreate(), since that replaces the column list wholesale.
function _sqlWizardCreateSyncRowIdRow() {
    if (!_sqlWizardCurrentDsnHasRowId()) return;

    const list = document.getElementById('sql-wiz-create-cols');
    if (!list) return;

    // querySelectorAll() returns a NodeList, not a real array, and NodeLists
    // don't have a .filter() method — Array.from() copies its elements into
    // a real array first so .filter() can be used to keep only the row (if
    // any) whose name field reads "_row_id_", and .forEach() then removes
    // each one found. (`row.querySelector(...)?.value` uses the same
    // optional-chaining shorthand explained above _sqlWizardCurrentDsnHasRowId()
    // — it reads .value only if the name input inside this particular row
    // was actually found.)
    Array.from(list.querySelectorAll('.sql-wiz-create-col-row'))
        .filter(row => row.querySelector('.sql-wiz-create-col-name')?.value === '_row_id_')
        .forEach(row => row.remove());

    const row = document.createElement('div');
    row.className = 'sql-wiz-create-col-row sql-wiz-create-col-row-locked';
    row.innerHTML  = _sqlWizardCreateRowIdRowHtml();
    list.insertBefore(row, list.firstChild);
}

// ==========================================================================
// ALTER TABLE wizard
// ==========================================================================

// Return the HTML body for the ALTER TABLE wizard: table picker, operation
// picker, and a placeholder for the op-specific sub-form.
function _sqlWizardAlterHtml(tables) {
    const opts = tables.map(t =>
        '<option value="' + escapeHtml(t) + '">' + escapeHtml(t) + '</option>'
    ).join('');
    return '<div class="sql-wiz-section">'
        + '<div class="sql-wiz-section-hdr"><span class="sql-wiz-label">Table</span></div>'
        + '<select id="sql-wiz-alter-table" class="sql-wiz-select"'
        + ' onchange="sqlWizardAlterTableChanged()">' + opts + '</select>'
        + '</div>'
        + '<div class="sql-wiz-section">'
        + '<div class="sql-wiz-section-hdr">'
        + '<span class="sql-wiz-label">Columns</span>'
        + '<div class="sql-wiz-alter-op-btns">'
        + '<button class="sql-wiz-alter-op-btn sql-wiz-alter-op-btn-active"'
        + ' data-op="ADD" onclick="sqlWizardAlterSelectOp(\'ADD\')">Add</button>'
        + '<button class="sql-wiz-alter-op-btn"'
        + ' data-op="DROP" onclick="sqlWizardAlterSelectOp(\'DROP\')">Drop</button>'
        + '<button class="sql-wiz-alter-op-btn"'
        + ' data-op="RENAME" onclick="sqlWizardAlterSelectOp(\'RENAME\')">Rename</button>'
        + '</div>'
        + '</div>'
        + '<input type="hidden" id="sql-wiz-alter-op" value="ADD">'
        + '</div>'
        + '<div id="sql-wiz-alter-op-body"></div>';
}

// Called when one of the Add / Drop / Rename buttons is clicked.
// Updates the hidden op value, moves the active style to the clicked button,
// then rebuilds the op-specific sub-form. sqlWizardAlterOpChanged() reads the
// hidden input, so no other changes are needed there.
function sqlWizardAlterSelectOp(op) {
    const hidden = document.getElementById('sql-wiz-alter-op');
    if (hidden) hidden.value = op;
    document.querySelectorAll('.sql-wiz-alter-op-btn').forEach(btn => {
        btn.classList.toggle('sql-wiz-alter-op-btn-active', btn.dataset.op === op);
    });
    sqlWizardAlterOpChanged();
}

// Called when the table picker changes — load columns then rebuild the op body.
async function sqlWizardAlterTableChanged() {
    const dsn   = document.getElementById('sql-dsn-picker').value;
    const table = document.getElementById('sql-wiz-alter-table')?.value;
    if (!dsn || !table) return;

    _sqlWizardCols = [];
    try {
        const res  = await apiFetch(
            '/dsns/' + encodeURIComponent(dsn)
            + '/tables/' + encodeURIComponent(table) + '?rowids=true'
        );
        const data = await res.json();
        _sqlWizardCols = res.ok ? (data.columns || []) : [];
    } catch (e) {
        if (e.message !== 'Unauthorized') console.error('SQL wizard: error loading columns:', e);
    }

    sqlWizardAlterOpChanged();
}

// Called when the operation picker changes — rebuild just the op-specific sub-form.
function sqlWizardAlterOpChanged() {
    const op       = document.getElementById('sql-wiz-alter-op')?.value;
    const body     = document.getElementById('sql-wiz-alter-op-body');
    const isPostgres = _sqlWizardIsPostgres();
    if (!body) return;

    const cols = _sqlWizardCols.filter(c => c.name !== '_row_id_');

    if (op === 'ADD') {
        body.innerHTML = _sqlWizardAlterAddHtml(isPostgres);
        sqlWizardAlterAddColumn(); // seed with one blank column row
    } else if (op === 'DROP') {
        body.innerHTML = _sqlWizardAlterDropHtml(cols, isPostgres);
    } else {
        body.innerHTML = _sqlWizardAlterRenameHtml(cols);
    }
    buildSqlPreview();
}

// Return HTML for the ADD COLUMN sub-form.
// Reuses the sql-wiz-create-* row structure so column rows look identical to
// CREATE TABLE. sqlWizardAlterAddColumn() appends rows to #sql-wiz-alter-cols.
// Postgres allows multiple ADD COLUMNs in one ALTER TABLE; SQLite does not, so
// the "+ Add another" button is hidden for SQLite.
function _sqlWizardAlterAddHtml(isPostgres) {
    const addBtn = isPostgres
        ? '<button class="sql-wiz-add-btn" onclick="sqlWizardAlterAddColumn()">+ Add another</button>'
        : '<span class="sql-wiz-hint">— SQLite supports one column per statement</span>';
    return '<div class="sql-wiz-section">'
        + '<div class="sql-wiz-section-hdr">'
        + '<span class="sql-wiz-label">Column to add</span>'
        + addBtn
        + '</div>'
        + '<div class="sql-wiz-create-col-header">'
        + '<span class="sql-wiz-create-hdr-name">Name</span>'
        + '<span class="sql-wiz-create-hdr-type">Type</span>'
        + '<span class="sql-wiz-create-hdr-cb">Unique</span>'
        + '<span class="sql-wiz-create-hdr-cb">Nullable</span>'
        + '<span class="sql-wiz-create-hdr-del"></span>'
        + '</div>'
        + '<div id="sql-wiz-alter-cols"></div>'
        + '</div>';
}

// Append a blank column definition row to #sql-wiz-alter-cols.
// Mirrors sqlWizardCreateAddColumn() but targets the ALTER sub-list so the two
// wizards don't share DOM state. For SQLite, only one row is ever added since
// SQLite does not support multiple ADD COLUMNs in one ALTER TABLE statement.
function sqlWizardAlterAddColumn() {
    const list = document.getElementById('sql-wiz-alter-cols');
    if (!list) return;
    if (!_sqlWizardIsPostgres() && list.children.length >= 1) return;

    const typeOpts = _SQL_CREATE_TYPES.map(t =>
        '<option value="' + t + '">' + t + '</option>'
    ).join('');

    const row = document.createElement('div');
    row.className = 'sql-wiz-create-col-row';
    row.innerHTML =
        '<input type="text" class="sql-wiz-create-col-name"'
        + ' placeholder="column_name" oninput="buildSqlPreview()"'
        + ' autocomplete="off" spellcheck="false">'
        + '<select class="sql-wiz-create-col-type" onchange="buildSqlPreview()">'
        + typeOpts + '</select>'
        + '<label class="sql-wiz-create-cb-label">'
        + '<input type="checkbox" class="sql-wiz-create-col-unique" onchange="buildSqlPreview()">Unique'
        + '</label>'
        + '<label class="sql-wiz-create-cb-label">'
        + '<input type="checkbox" class="sql-wiz-create-col-nullable" checked onchange="buildSqlPreview()">Nullable'
        + '</label>'
        + '<button class="sql-wiz-remove-btn" onclick="sqlWizardCreateRemoveColumn(this)">&#x2715;</button>';
    list.appendChild(row);
    row.querySelector('.sql-wiz-create-col-name').focus();
    buildSqlPreview();
}

// Return HTML for the DROP COLUMN sub-form.
// Postgres supports dropping multiple columns in one ALTER TABLE statement, so
// checkboxes are used. SQLite only supports one DROP COLUMN per statement, so
// radio buttons are used to enforce the single-column limit in the UI.
function _sqlWizardAlterDropHtml(cols, isPostgres) {
    if (cols.length === 0) return '<p class="sql-wiz-unsupported">No columns available.</p>';
    const inputType = isPostgres ? 'checkbox' : 'radio';
    const hint = isPostgres
        ? ' <span class="sql-wiz-hint">— check columns to remove</span>'
        : ' <span class="sql-wiz-hint">— SQLite supports one column per statement</span>';
    return '<div class="sql-wiz-section">'
        + '<div class="sql-wiz-section-hdr">'
        + '<span class="sql-wiz-label">Column to drop' + hint + '</span>'
        + '</div>'
        + '<div id="sql-wiz-alter-drop-list" class="sql-wiz-col-grid">'
        + cols.map(c =>
            '<div class="sql-wiz-col-item">'
            + '<input type="' + inputType + '" name="sql-wiz-alt-drop"'
            + ' id="sql-wiz-alt-drop-' + escapeHtml(c.name) + '"'
            + ' data-col="' + escapeHtml(c.name) + '" onchange="buildSqlPreview()">'
            + '<label for="sql-wiz-alt-drop-' + escapeHtml(c.name) + '">'
            + escapeHtml(c.name) + '</label>'
            + '</div>'
        ).join('')
        + '</div>'
        + '</div>';
}

// Return HTML for the RENAME COLUMN sub-form.
// One row per existing column: the old name as a fixed label, an arrow, and
// a text input for the new name. Rows with a blank new name are skipped in
// buildSqlPreview(), so the user only fills in the columns they want to rename.
function _sqlWizardAlterRenameHtml(cols) {
    if (cols.length === 0) return '<p class="sql-wiz-unsupported">No columns available.</p>';
    return '<div class="sql-wiz-section">'
        + '<div class="sql-wiz-section-hdr">'
        + '<span class="sql-wiz-label">Rename columns'
        + ' <span class="sql-wiz-hint">— leave blank to keep current name</span></span>'
        + '</div>'
        + '<div id="sql-wiz-alter-rename-list">'
        + cols.map(c =>
            '<div class="sql-wiz-rename-row" data-col="' + escapeHtml(c.name) + '">'
            + '<span class="sql-wiz-rename-old">' + escapeHtml(c.name) + '</span>'
            + '<span class="sql-wiz-rename-arrow">&#x2192;</span>'
            + '<input type="text" class="sql-wiz-rename-input"'
            + ' placeholder="new name" oninput="buildSqlPreview()"'
            + ' autocomplete="off" spellcheck="false">'
            + '</div>'
        ).join('')
        + '</div>'
        + '</div>';
}

// Assemble a SQL statement from the current wizard state and update the
// preview <pre>. Handles CREATE, ALTER, INSERT, UPDATE, DELETE, and SELECT. Also enables
// or disables the Insert button depending on whether the statement is valid.
//
// For UPDATE and DELETE, omitting the WHERE clause is allowed but triggers
// a warning: the Insert button gets a data-all-rows attribute set to the
// statement type ("UPDATE" or "DELETE"). insertSqlBuild() reads that
// attribute and shows a confirmation dialog before inserting the statement.
function buildSqlPreview() {
    const prev = document.getElementById('sql-build-preview');
    if (!prev) return;

    const type = document.getElementById('sql-build-type')?.value;

    // Clear any pending all-rows warning from a previous render.
    document.getElementById('sql-build-insert-btn')?.removeAttribute('data-all-rows');

    // ---- CREATE TABLE ----
    if (type === 'CREATE') {
        const insertBtn = document.getElementById('sql-build-insert-btn');
        const name = (document.getElementById('sql-wiz-create-name')?.value || '').trim();

        if (!name) {
            prev.textContent = '-- Enter a table name to begin';
            insertBtn.disabled = true;
            return;
        }
        // Block if the name collides with an existing table.
        if (_sqlWizardTables.some(t => t.toLowerCase() === name.toLowerCase())) {
            prev.textContent = '-- Table "' + name + '" already exists — choose a different name';
            insertBtn.disabled = true;
            return;
        }

        // Collect column definitions from each row in the column list.
        const colDefs = [];
        let hasBlankName = false;
        document.querySelectorAll('#sql-wiz-create-cols .sql-wiz-create-col-row').forEach(row => {
            const colName  = (row.querySelector('.sql-wiz-create-col-name')?.value || '').trim();
            const colType  = row.querySelector('.sql-wiz-create-col-type')?.value || 'VARCHAR';
            const unique   = row.querySelector('.sql-wiz-create-col-unique')?.checked;
            const nullable = row.querySelector('.sql-wiz-create-col-nullable')?.checked;

            if (!colName) { hasBlankName = true; return; }

            // Build the column clause: name, type, then optional constraints.
            // NOT NULL comes before UNIQUE to follow conventional SQL style.
            let def = colName + ' ' + colType;
            if (!nullable) def += ' NOT NULL';
            if (unique)    def += ' UNIQUE';
            colDefs.push(def);
        });

        if (hasBlankName) {
            prev.textContent = '-- Every column needs a name';
            insertBtn.disabled = true;
            return;
        }
        if (colDefs.length === 0) {
            prev.textContent = '-- Add at least one column to continue';
            insertBtn.disabled = true;
            return;
        }

        prev.textContent = 'CREATE TABLE ' + name + ' (\n'
            + colDefs.map(d => '    ' + d).join(',\n')
            + '\n)';
        insertBtn.disabled = false;
        return;
    }

    // ---- INSERT ----
    if (type === 'INSERT') {
        const table = document.getElementById('sql-wiz-table')?.value;
        if (!table) {
            prev.textContent = '-- Select a table to begin';
            document.getElementById('sql-build-insert-btn').disabled = true;
            return;
        }

        const colNames = [];
        const colValues = [];
        document.querySelectorAll('#sql-wiz-insert-fields .sql-wiz-insert-row').forEach(row => {
            const col    = row.dataset.col;
            const type   = row.dataset.type || '';
            const input  = row.querySelector('.sql-wiz-insert-input');
            const isNull = !input || input.dataset.isNull === 'true';

            colNames.push(col);
            if (isNull || (input && input.value.trim() === '')) {
                colValues.push('NULL');
            } else {
                const val = input.value.trim();
                // Numeric types are left unquoted; everything else is quoted.
                if (isDataIntType(type) || isDataFloatType(type)) {
                    colValues.push(val);
                } else {
                    colValues.push("'" + val.replace(/'/g, "''") + "'");
                }
            }
        });

        if (colNames.length === 0) {
            prev.textContent = '-- Loading column definitions…';
            document.getElementById('sql-build-insert-btn').disabled = true;
            return;
        }

        prev.textContent = 'INSERT INTO ' + table
            + '\n  (' + colNames.join(', ') + ')'
            + '\nVALUES'
            + '\n  (' + colValues.join(', ') + ')';
        document.getElementById('sql-build-insert-btn').disabled = false;
        return;
    }

    // ---- UPDATE ----
    if (type === 'UPDATE') {
        const table = document.getElementById('sql-wiz-table')?.value;
        if (!table) {
            prev.textContent = '-- Select a table to begin';
            document.getElementById('sql-build-insert-btn').disabled = true;
            return;
        }

        // Collect SET parts from checked rows.
        const setParts = [];
        document.querySelectorAll('#sql-wiz-update-fields .sql-wiz-update-row').forEach(row => {
            const cb = row.querySelector('.sql-wiz-update-include');
            if (!cb?.checked) return;
            const col     = row.dataset.col;
            const colType = row.dataset.type || '';
            const input   = row.querySelector('.sql-wiz-update-input');
            const isNull  = !input || input.dataset.isNull === 'true'
                            || input.value.trim() === '';
            if (isNull) {
                setParts.push(col + ' = NULL');
            } else {
                const val = input.value.trim();
                if (isDataIntType(colType) || isDataFloatType(colType)) {
                    setParts.push(col + ' = ' + val);
                } else {
                    setParts.push(col + " = '" + val.replace(/'/g, "''") + "'");
                }
            }
        });

        const whereParts = _sqlWizardCollectWhereParts();

        if (setParts.length === 0) {
            prev.textContent = '-- Check at least one column to update';
            document.getElementById('sql-build-insert-btn').disabled = true;
            return;
        }
        let sql = 'UPDATE ' + table + '\nSET ' + setParts[0];
        for (let i = 1; i < setParts.length; i++) sql += ',\n    ' + setParts[i];
        if (whereParts.length > 0) {
            sql += '\nWHERE ' + whereParts[0];
            for (let i = 1; i < whereParts.length; i++) sql += '\n  AND ' + whereParts[i];
        } else {
            // No WHERE — flag the button so insertSqlBuild() can warn the user.
            document.getElementById('sql-build-insert-btn').setAttribute('data-all-rows', 'UPDATE');
        }

        prev.textContent = sql;
        document.getElementById('sql-build-insert-btn').disabled = false;
        return;
    }

    // ---- DELETE ----
    if (type === 'DELETE') {
        const table = document.getElementById('sql-wiz-table')?.value;
        if (!table) {
            prev.textContent = '-- Select a table to begin';
            document.getElementById('sql-build-insert-btn').disabled = true;
            return;
        }

        const whereParts = _sqlWizardCollectWhereParts();
        let sql = 'DELETE FROM ' + table;
        if (whereParts.length > 0) {
            sql += '\nWHERE ' + whereParts[0];
            for (let i = 1; i < whereParts.length; i++) sql += '\n  AND ' + whereParts[i];
        } else {
            // No WHERE — flag the button so insertSqlBuild() can warn the user.
            document.getElementById('sql-build-insert-btn').setAttribute('data-all-rows', 'DELETE');
        }

        prev.textContent = sql;
        document.getElementById('sql-build-insert-btn').disabled = false;
        return;
    }

    // ---- ALTER TABLE ----
    if (type === 'ALTER') {
        const insertBtn = document.getElementById('sql-build-insert-btn');
        const table = document.getElementById('sql-wiz-alter-table')?.value;
        const op    = document.getElementById('sql-wiz-alter-op')?.value;

        if (!table) {
            prev.textContent = '-- Select a table to begin';
            insertBtn.disabled = true;
            return;
        }

        const isPostgres = _sqlWizardIsPostgres();

        if (op === 'ADD') {
            const colDefs = [];
            let hasBlankName = false;
            document.querySelectorAll('#sql-wiz-alter-cols .sql-wiz-create-col-row').forEach(row => {
                const colName  = (row.querySelector('.sql-wiz-create-col-name')?.value || '').trim();
                const colType  = row.querySelector('.sql-wiz-create-col-type')?.value || 'VARCHAR';
                const unique   = row.querySelector('.sql-wiz-create-col-unique')?.checked;
                const nullable = row.querySelector('.sql-wiz-create-col-nullable')?.checked;
                if (!colName) { hasBlankName = true; return; }
                let def = colName + ' ' + colType;
                if (!nullable) def += ' NOT NULL';
                if (unique)    def += ' UNIQUE';
                colDefs.push(def);
            });
            if (hasBlankName) {
                prev.textContent = '-- Every column needs a name';
                insertBtn.disabled = true;
                return;
            }
            if (colDefs.length === 0) {
                prev.textContent = '-- Add at least one column to continue';
                insertBtn.disabled = true;
                return;
            }
            // Postgres: combine into one ALTER TABLE with comma-separated ADD COLUMNs.
            // SQLite: only one column is ever present (enforced by the UI).
            if (isPostgres && colDefs.length > 1) {
                prev.textContent = 'ALTER TABLE ' + table + '\n'
                    + colDefs.map(d => '  ADD COLUMN ' + d).join(',\n');
            } else {
                prev.textContent = colDefs
                    .map(d => 'ALTER TABLE ' + table + ' ADD COLUMN ' + d)
                    .join('\n');
            }
            insertBtn.disabled = false;
            return;
        }

        if (op === 'DROP') {
            const toDrop = Array.from(
                document.querySelectorAll('#sql-wiz-alter-drop-list input:checked')
            ).map(cb => cb.dataset.col);
            if (toDrop.length === 0) {
                prev.textContent = '-- Select at least one column to drop';
                insertBtn.disabled = true;
                return;
            }
            // Postgres: combine into one ALTER TABLE with comma-separated DROP COLUMNs.
            // SQLite: radio buttons ensure only one is ever selected.
            if (isPostgres && toDrop.length > 1) {
                prev.textContent = 'ALTER TABLE ' + table + '\n'
                    + toDrop.map(c => '  DROP COLUMN ' + c).join(',\n');
            } else {
                prev.textContent = 'ALTER TABLE ' + table + ' DROP COLUMN ' + toDrop[0];
            }
            insertBtn.disabled = false;
            return;
        }

        if (op === 'RENAME') {
            const renames = [];
            document.querySelectorAll('#sql-wiz-alter-rename-list .sql-wiz-rename-row').forEach(row => {
                const oldName = row.dataset.col;
                const newName = (row.querySelector('.sql-wiz-rename-input')?.value || '').trim();
                if (newName) renames.push({ old: oldName, new: newName });
            });
            if (renames.length === 0) {
                prev.textContent = '-- Enter at least one new column name to continue';
                insertBtn.disabled = true;
                return;
            }
            prev.textContent = renames
                .map(r => 'ALTER TABLE ' + table + ' RENAME COLUMN ' + r.old + ' TO ' + r.new)
                .join('\n');
            insertBtn.disabled = false;
            return;
        }

        prev.textContent = '-- Select an operation to continue';
        insertBtn.disabled = true;
        return;
    }

    // ---- unsupported types ----
    if (type !== 'SELECT') {
        prev.textContent = '-- ' + (type || 'statement') + ' not yet supported by the wizard';
        document.getElementById('sql-build-insert-btn').disabled = true;
        return;
    }

    // ---- SELECT ----
    const table = document.getElementById('sql-wiz-table')?.value;
    if (!table) {
        prev.textContent = '-- Select a table to begin';
        document.getElementById('sql-build-insert-btn').disabled = true;
        return;
    }

    // Column list — either * or a comma-separated list of checked columns.
    const selectAll = document.getElementById('sql-wiz-select-all')?.checked;
    let colClause = '*';
    if (!selectAll) {
        const picked = Array.from(
            document.querySelectorAll('#sql-wiz-col-list input[type="checkbox"]:checked')
        ).map(cb => cb.dataset.col);
        colClause = picked.length > 0 ? picked.join(', ') : '*';
    }

    let sql = 'SELECT ' + colClause + '\nFROM ' + table;

    // WHERE — use the shared collector.
    const whereParts = _sqlWizardCollectWhereParts();
    if (whereParts.length > 0) {
        sql += '\nWHERE ' + whereParts[0];
        for (let i = 1; i < whereParts.length; i++) sql += '\n  AND ' + whereParts[i];
    }

    // ORDER BY — collect column + direction pairs.
    const orderParts = [];
    document.querySelectorAll('#sql-wiz-order-list .sql-wiz-clause-row').forEach(row => {
        const col = row.querySelector('.sql-wiz-order-col')?.value;
        const dir = row.querySelector('.sql-wiz-order-dir')?.value || 'ASC';
        if (col) orderParts.push(col + ' ' + dir);
    });
    if (orderParts.length > 0) sql += '\nORDER BY ' + orderParts.join(', ');

    prev.textContent = sql;
    document.getElementById('sql-build-insert-btn').disabled = false;
}

// Insert the generated SQL into the editor at the current cursor position,
// then close the wizard. A newline separator is prepended when needed so the
// new statement starts on its own line.
// The data-all-rows attribute is set by buildSqlPreview() when an UPDATE or
// DELETE has no WHERE clause. Its presence signals that the user needs to
// confirm before the potentially destructive statement is inserted.
function insertSqlBuild() {
    const preview = document.getElementById('sql-build-preview')?.textContent || '';
    // Preview text starting with "--" means the wizard is still incomplete.
    if (!preview || preview.startsWith('--')) return;

    const insertBtn = document.getElementById('sql-build-insert-btn');
    const allRows   = insertBtn?.getAttribute('data-all-rows');
    if (allRows) {
        const verb = allRows === 'DELETE' ? 'delete' : 'update';
        const ok = confirm(
            'WARNING: This statement has no WHERE clause and will '
            + verb + ' ALL RECORDS in the table.\n\n'
            + 'Are you sure you want to continue?'
        );
        if (!ok) return;
    }

    const editor = document.getElementById('sql-editor');
    // If the wizard was opened from a text selection, replace that selection;
    // otherwise insert at the current cursor position.
    const range  = _sqlWizardSelectionRange;
    const start  = range ? range.start : editor.selectionStart;
    const end    = range ? range.end   : editor.selectionEnd;
    const before = editor.value.substring(0, start);
    const after  = editor.value.substring(end);

    // If there is existing content before the cursor and it does not end with
    // a newline, add one so the SQL statement starts on its own line.
    const sep  = (before.length > 0 && !before.endsWith('\n')) ? '\n' : '';

    // Always end the inserted statement with ";" so the preprocessor treats it
    // as a complete statement, and so the formatter below sees a finished one.
    let statement = preview + (/;\s*$/.test(preview) ? '' : ';');

    // When the Format setting is on, run the wizard's output through the same
    // formatter the rest of the editor uses, so generated SQL matches what the
    // user's own typing is held to. Only the new statement is formatted, not
    // the whole editor: reformatting everything here would reflow text the
    // user may have laid out by hand, and would move the caret away from the
    // insertion point computed below. As everywhere else, SQL the formatter
    // cannot handle is inserted exactly as the wizard built it.
    if (codeFormatEnabled) {
        const formatted = formatSqlText(statement);
        if (formatted !== null) statement = formatted;
    }

    // Prepend a visible warning comment when the user confirmed a no-WHERE
    // statement. It stays outside the formatted text so the formatter cannot
    // reposition it away from the statement it warns about.
    const warn = allRows ? '// WARNING: this statement affects all rows\n' : '';
    const inserted = sep + warn + statement + '\n';
    editor.value = before + inserted + after;
    editor.selectionStart = editor.selectionEnd = start + inserted.length;
    editor.focus();
    updateSqlHighlight();
    hideSqlBuild();
}
