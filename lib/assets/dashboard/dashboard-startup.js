// dashboard-startup.js
// The entry point, followed by WebAuthn passkey support.
//
// This file must load LAST. Its top-level code runs immediately and calls
// into every other file, so all of them must already have been evaluated.
//
// THE DASHBOARD (HTML, CSS, AND JAVASCRIPT) WERE PROTOTYPED BY CLAUDE
// CODE, and extended by both Claude Code and human developers. The dashboard
// code is reviewed and tested by humans before any changes are committed.
// The dashboard uses api endpoints in the Ego  server that were written by
// humans, as is the rest of the Ego server.
//
// LOAD ORDER MATTERS. These files are plain <script> tags, not modules, so
// they all share one global scope -- but a function declaration is hoisted
// only within its own file. Anything that runs immediately at the top level
// may therefore only call functions declared in the same file or an earlier
// one. Deferred code (event handlers, callbacks, timers) is unrestricted,
// because by the time it runs every file has loaded. dashboard.html lists the
// files in this order:
//
//     dashboard-core.js        cookies, settings, token, idle timer, fetch
//     dashboard-admin.js       tab loaders, DSN permission and config sheets
//     dashboard-data.js        Data tab and its row editor
//     dashboard-sql.js         SQL tab, highlighting, and the SQL formatter
//     dashboard-sqlwizard.js   Build wizard and the SQL statement parser
//     dashboard-ui.js          tab switching, login, user/DSN sheets, log tab
//     dashboard-code.js        Code tab: editor, run, debugger, console
//     dashboard-startup.js     entry point, then passkey support
//
// Note also that names declared at the top level of any of these files are
// shared across all of them. The minifier deliberately never renames such
// names (see internal/util/javascript/minify.go), which is what makes serving
// them as separate files safe.
//
// ==========================================================================
// Startup
//
// Code at the top level of a script file (outside any function) runs once,
// immediately when the browser loads the file. This is the entry point.
// ==========================================================================

// An object that maps each tab's string id to the function that loads its
// data. This lets openTab() call the right loader with a single line
// (tabLoaders[tabId]()) instead of a chain of if/else statements.
//
// It lives in this file, rather than next to openTab() in dashboard-ui.js,
// because an object literal evaluates its values immediately: every loader
// named here must already be declared by the time this line runs. The loaders
// are spread across five files, and this is the only one guaranteed to load
// after all of them. Adding a tab means adding its loader here as well.
const tabLoaders = {
    memory:  loadMemory,
    users:   loadUsers,
    dsns:    loadDsns,
    tables:  loadTables,
    data:    loadData,
    sql:     loadSql,
    log:     loadLog,
    code:    loadCode,
};

// Fetch and cache server name/version/UUID/uptime for the Configuration
// sheet — no login needed.
loadServerInfo();

// Apply persisted preferences BEFORE loading any content so there is no
// flash of wrong theme and no spurious unauthenticated API call.
applyDarkModeSetting(getDarkMode());
applyToolbarStyle(getToolbarStyle());

// Restore the saved log filter before anything can request the log, so the
// first fetch already carries it and the funnel shows its dot from the start
// rather than only after the sheet is opened.
loadLogFilter();
updateLogFilterDot();

// Restore a saved token (if "Remember login" was on) and open the last active
// tab, but only if the server is reachable. Falls back to 'memory' and shows
// the login overlay whenever a fresh login is required.
(async function () {
    let serverUp = false;
    try {
        const res = await fetch('/services/up');
        serverUp = res.ok;
    } catch (_) {
        // The underscore (_) is a convention for an intentionally unused variable.
        // We don't need the error object here — the fact that the fetch threw
        // at all is enough to know the server is unreachable.
    }

    // Load the passkey feature flag before deciding what UI to show.
    // loadPasskeyConfig() also calls applyPasskeyLoginUI() when done.
    if (serverUp) await loadPasskeyConfig();

    // Only ever trust a persisted token when "remember login" is *currently*
    // checked. Previously this restored whatever token cookie happened to
    // still be present regardless of the checkbox -- so a token saved during
    // an earlier remembered session (possibly a different user, or from
    // before the user unchecked the setting) would keep silently logging
    // people back in as that stale identity. If we find a leftover token,
    // role, or identity cookie while the preference is off, discard them now
    // instead of ever reading them.
    if (!getRememberLogin()) {
        deleteCookie(COOKIE_TOKEN);
        deleteCookie(COOKIE_ROLE);
        deleteCookie(COOKIE_IDENTITY);
    }

    const savedToken = getCookie(COOKIE_TOKEN);
    const savedTab   = getCookie(COOKIE_ACTIVE_TAB);

    if (serverUp && savedToken) {
        _token = savedToken; // restore directly to avoid re-writing the cookie

        // Validate the saved token is still accepted by the server before
        // hiding the login overlay. apiFetch calls clearToken() + showLogin()
        // and throws on a 401/403, so if the token is expired we fall through
        // to the catch block and the user sees the login prompt.
        try {
            await apiFetch('/services/admin/server');
        } catch (_) {
            // Token was rejected — apiFetch already called showLogin().
            openTab('memory');
            return;
        }

        // Restore the role flags from the saved cookie so tab visibility
        // matches what was set when the user originally logged in.
        restoreRole();
        applyTabVisibility();

        hideLogin();

        // Validate the saved tab name before using it — the cookie value could
        // be stale if a tab was renamed or removed. Fall back to the appropriate
        // default for the user's role.
        const defaultTab = _isServerAdmin ? 'memory' : defaultNonAdminTab();
        const restoredTab = savedTab && tabLoaders[savedTab] ? savedTab : defaultTab;
        openTab(_isServerAdmin ? restoredTab : defaultNonAdminTab());
    } else {
        showLogin();
        openTab('memory');
    }
})();

// Wire the SQL editor highlight layer and the pane resize handle.
initSqlEditor();
initSqlResizeHandle();

// ── WebAuthn / Passkey support ────────────────────────────────────────────────
//
// Two flows are implemented:
//   1. Login  — user clicks "Sign in with Passkey" on the login overlay.
//   2. Register — admin clicks "+ Passkey" in the edit-user sheet while already
//                 signed in (registers a passkey for their own account).
//
// Both flows use the discoverable-credential (resident-key) model so the user
// never needs to type a username — Face ID / Touch ID / Windows Hello identifies
// them automatically.
//
// Base64URL helpers — WebAuthn protocol uses base64url-encoded binary everywhere;
// the browser WebAuthn API uses ArrayBuffer.  These helpers bridge the gap.

function bufferToBase64url(buffer) {
    const bytes = new Uint8Array(buffer);
    let str = '';
    for (const b of bytes) str += String.fromCharCode(b);
    return btoa(str).replace(/\+/g, '-').replace(/\//g, '_').replace(/=/g, '');
}

function base64urlToBuffer(b64url) {
    const b64 = b64url.replace(/-/g, '+').replace(/_/g, '/');
    const bin = atob(b64);
    const buf = new Uint8Array(bin.length);
    for (let i = 0; i < bin.length; i++) buf[i] = bin.charCodeAt(i);
    return buf.buffer;
}

// Recursively walk an object returned by the server and decode any string
// fields whose names are known to carry base64url-encoded binary data into
// ArrayBuffers, as the browser WebAuthn API requires.
function decodeWebAuthnOptions(obj, skipBinary = false) {
    const binaryFields = new Set([
        'challenge', 'id', 'userId',
    ]);
    // rp.id is a plain domain string, not base64url binary — skip binary
    // decoding for the entire rp subtree to avoid passing it through atob().
    const noBinarySubtrees = new Set(['rp']);
    if (Array.isArray(obj)) return obj.map(item => decodeWebAuthnOptions(item, skipBinary));
    if (obj && typeof obj === 'object') {
        const out = {};
        for (const [k, v] of Object.entries(obj)) {
            if (noBinarySubtrees.has(k)) {
                out[k] = decodeWebAuthnOptions(v, true);
            } else if (!skipBinary && binaryFields.has(k) && typeof v === 'string') {
                out[k] = base64urlToBuffer(v);
            } else {
                out[k] = decodeWebAuthnOptions(v, skipBinary);
            }
        }
        return out;
    }
    return obj;
}

// applyPasskeyLoginUI shows the login-screen passkey button/divider only when
// both the server has passkeys enabled AND the browser supports WebAuthn.
// Called after loadPasskeyConfig() resolves.
function applyPasskeyLoginUI() {
    const show = passkeysActive() && !!window.PublicKeyCredential;
    const btn = document.getElementById('passkey-btn');
    const div = document.getElementById('passkey-divider');
    if (btn) {
        btn.style.display = show ? '' : 'none';
        // Re-attach listener idempotently by replacing the element clone trick
        // is unnecessary — just guard with the flag at click time instead.
    }
    if (div) div.style.display = show ? '' : 'none';
    if (show) btn && btn.addEventListener('click', submitPasskeyLogin);
}

// loadPasskeyConfig fetches /services/admin/webauthn/config (no auth needed),
// sets _passkeysEnabled, and then applies the login UI state.
async function loadPasskeyConfig() {
    try {
        const res = await fetch('/services/admin/webauthn/config');
        if (res.ok) {
            const cfg = await res.json();
            _passkeysEnabled = !!cfg.passkeys;
        }
    } catch (_) {
        // Server unreachable or old version without this endpoint — leave
        // _passkeysEnabled false so passkey UI stays hidden.
    }
    applyPasskeyLoginUI();
}

// submitPasskeyLogin drives the discoverable-login ceremony:
//   POST .../login/begin  → get options (challenge set as a cookie server-side)
//   navigator.credentials.get(options)  → browser prompts Face ID / Touch ID
//   POST .../login/finish → verify + receive token
async function submitPasskeyLogin() {
    const errEl = document.getElementById('login-error');
    const btn   = document.getElementById('passkey-btn');

    errEl.textContent = '';
    btn.disabled = true;
    clearToken();

    try {
        // Step 1: get the challenge options from the server.
        const beginRes = await fetch('/services/admin/webauthn/login/begin', {
            method:      'POST',
            credentials: 'same-origin',   // needed so the challenge cookie is sent/received
        });

        if (!beginRes.ok) {
            errEl.textContent = 'Passkey login not available on this server.';
            return;
        }

        const rawOptions = await beginRes.json();
        const options    = decodeWebAuthnOptions(rawOptions);

        // Step 2: invoke the platform authenticator (Face ID, Touch ID, etc.).
        const assertion = await navigator.credentials.get({ publicKey: options.publicKey });

        // Step 3: encode the assertion and send it to the server for verification.
        const finishPayload = {
            id:    bufferToBase64url(assertion.rawId),
            rawId: bufferToBase64url(assertion.rawId),
            type:  assertion.type,
            response: {
                authenticatorData: bufferToBase64url(assertion.response.authenticatorData),
                clientDataJSON:    bufferToBase64url(assertion.response.clientDataJSON),
                signature:         bufferToBase64url(assertion.response.signature),
                userHandle:        assertion.response.userHandle
                    ? bufferToBase64url(assertion.response.userHandle)
                    : null,
            },
        };

        const finishRes = await fetch('/services/admin/webauthn/login/finish', {
            method:      'POST',
            headers:     { 'Content-Type': 'application/json' },
            credentials: 'same-origin',
            body:        JSON.stringify(finishPayload),
        });

        const data = await finishRes.json();

        if (!finishRes.ok || !data.token) {
            errEl.textContent = data.message || data.msg || 'Passkey verification failed.';
            return;
        }

        // The server returns the account's permission list rather than
        // discrete flags. Any account that can log in at all is allowed to
        // use the baseline DSNs/Tables/Data tabs, so there is no permission
        // check here that could refuse the login outright.
        const roles = rolesFromPermissions(data.permissions);

        // Success — same post-login flow as submitLogin().
        setToken(data.token);
        setRole(roles.admin, roles.serverAdmin, roles.coder, roles.sql, roles.dsnAdmin, data.identity);
        setIdleTimeout(data.inactivityTimeout);
        lastActivity = Date.now();
        hideLogin();
        applyTabVisibility();
        openTab(_isServerAdmin ? activeTab : defaultNonAdminTab());

    } catch (e) {
        if (e.name === 'NotAllowedError') {
            // User cancelled the authenticator prompt — not an error worth alarming about.
            errEl.textContent = 'Passkey prompt dismissed.';
        } else {
            errEl.textContent = 'Passkey error: ' + e.message;
        }
    } finally {
        btn.disabled = false;
    }
}

// _doPasskeyRegistration is the shared core of the WebAuthn registration
// ceremony.  btn (may be null) is disabled while the request is in flight.
// errEl receives status and error text.  onSuccess is called when the server
// confirms the credential; pass null to get the default green-flash behavior.
async function _doPasskeyRegistration(btn, errEl, onSuccess) {
    const token      = getToken();
    const authHeader = token ? { 'Authorization': 'Bearer ' + token } : {};

    errEl.textContent  = '';
    errEl.style.color  = '';
    if (btn) btn.disabled = true;

    try {
        // Step 1: get creation options from the server (challenge is stored
        // server-side and round-tripped via an HttpOnly cookie).
        const beginRes = await fetch('/services/admin/webauthn/register/begin', {
            method:      'POST',
            credentials: 'same-origin',
            headers:     authHeader,
        });

        if (!beginRes.ok) {
            const errBody = await beginRes.text().catch(() => '');
            errEl.textContent = errBody.trim() || 'Passkey registration failed (HTTP ' + beginRes.status + ').';
            return;
        }

        const options = decodeWebAuthnOptions(await beginRes.json());

        // Step 2: invoke the platform authenticator (Face ID / Touch ID).
        const credential = await navigator.credentials.create({ publicKey: options.publicKey });

        // Step 3: encode the attestation and send it to the server.
        const finishPayload = {
            id:    bufferToBase64url(credential.rawId),
            rawId: bufferToBase64url(credential.rawId),
            type:  credential.type,
            response: {
                attestationObject: bufferToBase64url(credential.response.attestationObject),
                clientDataJSON:    bufferToBase64url(credential.response.clientDataJSON),
            },
        };

        const finishRes = await fetch('/services/admin/webauthn/register/finish', {
            method:      'POST',
            credentials: 'same-origin',
            headers:     { ...authHeader, 'Content-Type': 'application/json' },
            body:        JSON.stringify(finishPayload),
        });

        if (!finishRes.ok) {
            const d = await finishRes.json().catch(() => ({}));
            errEl.textContent = d.message || d.msg || 'Passkey registration failed.';
            return;
        }

        if (onSuccess) {
            onSuccess();
        } else {
            errEl.style.color = 'green';
            errEl.textContent = 'Passkey registered successfully!';
            setTimeout(() => { errEl.style.color = ''; errEl.textContent = ''; }, 3000);
        }

    } catch (e) {
        if (e.name === 'NotAllowedError') {
            errEl.textContent = 'Passkey prompt dismissed.';
        } else {
            errEl.textContent = 'Passkey error: ' + e.message;
        }
    } finally {
        if (btn) btn.disabled = false;
    }
}

// registerPasskey is called from the "+ Passkey" button in the edit-user sheet.
async function registerPasskey() {
    const btn   = document.getElementById('edit-user-passkey-btn');
    const errEl = document.getElementById('edit-user-error');

    if (!window.PublicKeyCredential) {
        errEl.textContent = 'This browser does not support passkeys.';
        return;
    }

    await _doPasskeyRegistration(btn, errEl, null);
}

// removePasskeys is called from the "- Passkey" button in the edit-user sheet.
// It sends DELETE /services/admin/webauthn/passkeys/{username} to clear all
// stored passkeys for the displayed user.
async function removePasskeys() {
    const btn   = document.getElementById('edit-user-clear-passkey-btn');
    const errEl = document.getElementById('edit-user-error');
    const name  = document.getElementById('edit-user-name').value;

    errEl.textContent = '';
    errEl.style.color = '';
    if (btn) btn.disabled = true;

    try {
        const res = await fetch('/services/admin/webauthn/passkeys/' + encodeURIComponent(name), {
            method:      'DELETE',
            credentials: 'same-origin',
            headers:     { 'Authorization': 'Bearer ' + getToken() },
        });

        if (!res.ok) {
            const d = await res.json().catch(() => ({}));
            errEl.textContent = d.message || d.msg || 'Failed to remove passkeys.';
            return;
        }

        errEl.style.color   = 'green';
        errEl.textContent   = 'Passkeys removed.';
        setTimeout(() => { errEl.style.color = ''; errEl.textContent = ''; }, 3000);
    } catch (e) {
        errEl.textContent = 'Network error: ' + e.message;
    } finally {
        if (btn) btn.disabled = false;
    }
}

// ── Passkey prompt (offered after password login) ─────────────────────────────

// maybeOfferPasskeyAfterLogin shows the passkey creation prompt when:
//   • the server has passkeys enabled (_passkeysEnabled), and
//   • the browser supports WebAuthn (window.PublicKeyCredential exists), and
//   • the user has not previously clicked "Don't Ask Again".
// Called only after a successful *password* login, not after passkey login.
function maybeOfferPasskeyAfterLogin() {
    if (!passkeysActive()) return;
    if (!window.PublicKeyCredential) return;
    if (getCookie(COOKIE_PASSKEY_OFFERED)) return;
    const overlay = document.getElementById('passkey-prompt-overlay');
    if (overlay) {
        document.getElementById('passkey-prompt-status').textContent = '';
        overlay.style.display = 'flex';
    }
}

// declinePasskeyPrompt hides the prompt.  When permanent is true it also sets
// the "don't ask again" cookie so the dialog is never shown in this browser.
function declinePasskeyPrompt(permanent) {
    if (permanent) {
        setCookie(COOKIE_PASSKEY_OFFERED, '1', PASSKEY_NO_MAX_AGE);
    }
    const overlay = document.getElementById('passkey-prompt-overlay');
    if (overlay) overlay.style.display = 'none';
}

// createPasskeyFromPrompt runs the registration ceremony from the prompt dialog.
// On success the dialog closes; on failure the error is shown inside the dialog.
async function createPasskeyFromPrompt() {
    const btn   = document.getElementById('passkey-prompt-create-btn');
    const errEl = document.getElementById('passkey-prompt-status');

    await _doPasskeyRegistration(btn, errEl, () => {
        // Success: show a brief confirmation then close the dialog.
        errEl.style.color = 'green';
        errEl.textContent = 'Passkey created!';
        setTimeout(() => declinePasskeyPrompt(false), 1500);
    });
}
