// dashboard-sql.js
// The SQL tab: the editor and its syntax-highlight layer, DSN hinting,
// statement preprocessing and submission, and the client-side SQL formatter.
//
// THE DASHBOARD (HTML, CSS, AND JAVASCRIPT) WERE PROTOTYPED BY CLAUDE
// CODE, and extended by both Claude Code and human developers. The dashboard
// code is reviewed and tested by humans before any changes are committed.
// The dashboard uses api endpoints in the Ego  server that were written by
// humans, as is the rest of the Ego server.
//
// LOAD ORDER MATTERS. These files are plain <script> tags, not modules, so
// they all share one global scope -- but a function declaration is hoisted
// only within its own file. Anything that runs immediately at the top level
// may therefore only call functions declared in the same file or an earlier
// one. Deferred code (event handlers, callbacks, timers) is unrestricted,
// because by the time it runs every file has loaded. dashboard.html lists the
// files in this order:
//
//     dashboard-core.js        cookies, settings, token, idle timer, fetch
//     dashboard-admin.js       tab loaders, DSN permission and config sheets
//     dashboard-data.js        Data tab and its row editor
//     dashboard-sql.js         SQL tab, highlighting, and the SQL formatter
//     dashboard-sqlwizard.js   Build wizard and the SQL statement parser
//     dashboard-ui.js          tab switching, login, user/DSN sheets, log tab
//     dashboard-code.js        Code tab: editor, run, debugger, console
//     dashboard-startup.js     entry point, then passkey support
//
// Note also that names declared at the top level of any of these files are
// shared across all of them. The minifier deliberately never renames such
// names (see internal/util/javascript/minify.go), which is what makes serving
// them as separate files safe.
//
// ==========================================================================
// SQL tab
// ==========================================================================

// -----------------------------------------------------------------------
// SQL syntax highlighting
//
// sqlHighlight(code) returns an HTML string with <span class="sql-hl-*">
// elements. The highlight layer <pre> is stacked behind a transparent
// <textarea>, reusing the same overlay technique as the Code tab.
// -----------------------------------------------------------------------

const SQL_KEYWORDS = new Set([
    'ADD','ALL','ALTER','AND','ANY','AS','ASC','AUTO_INCREMENT',
    'BEGIN','BETWEEN','BY',
    'CASE','CHECK','COLUMN','COMMIT','CONSTRAINT','CROSS','CREATE',
    'DATABASE','DEFAULT','DELETE','DESC','DISTINCT','DROP',
    'ELSE','END','EXCEPT','EXISTS','EXPLAIN',
    'FOREIGN','FROM','FULL',
    'GROUP','GRANT',
    'HAVING',
    'IF','IN','INDEX','INNER','INSERT','INTERSECT','INTO','IS',
    'JOIN',
    'KEY',
    'LEFT','LIKE','LIMIT',
    'MERGE',
    'NOT','NULL',
    'OFFSET','ON','OR','ORDER','OUTER','OVER',
    'PARTITION','PRIMARY',
    'RECURSIVE','REFERENCES','REPLACE','RETURNING','REVOKE','RIGHT','ROLLBACK',
    'SAVEPOINT','SCHEMA','SELECT','SET','SOME',
    'TABLE','THEN','TRANSACTION','TRUNCATE',
    'UNION','UNIQUE','UPDATE','USING',
    'VALUES','VIEW',
    'WHEN','WHERE','WITH',
]);

const SQL_TYPES = new Set([
    'ARRAY','BIGINT','BIT','BLOB','BOOL','BOOLEAN','BYTEA',
    'CHAR','CLOB','DATE','DATETIME','DECIMAL','DOUBLE',
    'FLOAT','INT','INT2','INT4','INT8','INTEGER','JSON','JSONB',
    'MONEY','NCHAR','NUMERIC','NVARCHAR',
    'REAL','SERIAL','SMALLINT','TEXT','TIME','TIMESTAMP','TINYINT',
    'UUID','VARCHAR','XML','YEAR',
]);

function sqlHighlight(code) {
    function esc(s) {
        return s.replace(/&/g, '&amp;').replace(/</g, '&lt;').replace(/>/g, '&gt;');
    }
    function span(cls, s) {
        return '<span class="sql-hl-' + cls + '">' + esc(s) + '</span>';
    }

    let out = '';
    let i   = 0;
    const n = code.length;

    while (i < n) {
        const ch  = code[i];
        const ch2 = code[i + 1];

        // Block comment  /* ... */
        if (ch === '/' && ch2 === '*') {
            const end = code.indexOf('*/', i + 2);
            if (end === -1) { out += span('comment', code.slice(i)); break; }
            out += span('comment', code.slice(i, end + 2));
            i = end + 2;
            continue;
        }

        // // line comment — no highlighting; output as plain text
        if (ch === '/' && ch2 === '/') {
            const lineStart = code.lastIndexOf('\n', i - 1) + 1;
            if (code.slice(lineStart, i).trim() === '') {
                const nl  = code.indexOf('\n', i);
                const end = nl === -1 ? n : nl;
                out += esc(code.slice(i, end));
                i = end;
                continue;
            }
        }

        // Line comment  -- ...
        if (ch === '-' && ch2 === '-') {
            const nl  = code.indexOf('\n', i);
            const end = nl === -1 ? n : nl;
            out += span('comment', code.slice(i, end));
            i = end;
            continue;
        }

        // Single-quoted string  '...'  (SQL standard; escape via '')
        if (ch === "'") {
            let j = i + 1;
            while (j < n) {
                if (code[j] === "'" && code[j + 1] === "'") { j += 2; continue; } // escaped quote
                if (code[j] === "'") { j++; break; }
                j++;
            }
            out += span('string', code.slice(i, j));
            i = j;
            continue;
        }

        // Double-quoted identifier  "..."
        if (ch === '"') {
            let j = i + 1;
            while (j < n && code[j] !== '"') j++;
            if (j < n) j++;
            out += span('ident', code.slice(i, j));
            i = j;
            continue;
        }

        // Backtick-quoted identifier  `...`  (MySQL style)
        if (ch === '`') {
            let j = i + 1;
            while (j < n && code[j] !== '`') j++;
            if (j < n) j++;
            out += span('ident', code.slice(i, j));
            i = j;
            continue;
        }

        // Numeric literal  (integers and decimals)
        if (/[0-9]/.test(ch) || (ch === '.' && /[0-9]/.test(ch2))) {
            let j = i;
            while (j < n && /[0-9]/.test(code[j])) j++;
            if (j < n && code[j] === '.') {
                j++;
                while (j < n && /[0-9]/.test(code[j])) j++;
            }
            if (j < n && (code[j] === 'e' || code[j] === 'E')) {
                j++;
                if (j < n && (code[j] === '+' || code[j] === '-')) j++;
                while (j < n && /[0-9]/.test(code[j])) j++;
            }
            out += span('number', code.slice(i, j));
            i = j;
            continue;
        }

        // Identifier, keyword, type name, or function call
        if (/[a-zA-Z_]/.test(ch)) {
            let j = i;
            while (j < n && /[a-zA-Z0-9_]/.test(code[j])) j++;
            const word    = code.slice(i, j);
            const wordUp  = word.toUpperCase();
            // Look past whitespace to detect a following '(' (function call).
            let k = j;
            while (k < n && (code[k] === ' ' || code[k] === '\t')) k++;
            if (SQL_KEYWORDS.has(wordUp)) {
                out += span('keyword', word);
            } else if (SQL_TYPES.has(wordUp)) {
                out += span('type', word);
            } else if (code[k] === '(') {
                out += span('func', word);
            } else {
                out += esc(word);
            }
            i = j;
            continue;
        }

        out += esc(ch);
        i++;
    }

    return out + ' ';
}

// Rebuild the SQL highlight layer from the current textarea content.
function updateSqlHighlight() {
    const editor = document.getElementById('sql-editor');
    const layer  = document.getElementById('sql-highlight-layer');
    layer.innerHTML    = sqlHighlight(editor.value);
    layer.scrollTop    = editor.scrollTop;
    layer.scrollLeft   = editor.scrollLeft;
}

// Scan the SQL editor text for a DSN hint inside "--" or "//" line comments
// — both are treated as comment markers elsewhere in this app (see
// preprocessSql() for "//" and _sqlParseTok() for "--"). The word "dsn" is
// matched case-insensitively, and the DSN name may sit on either side of it:
//   "// Let's use the pg1 dsn for this query"   → "pg1" (word before "dsn")
//   "// These queries work with the dsn pg1..." → "pg1" (word after "dsn")
//
// If exactly one distinct DSN is referenced this way, and it matches an
// existing option in the DSN picker, the picker is switched to it and that
// becomes the active DSN. If comments reference more than one different DSN
// — including a single "dsn" occurrence with a *different* valid DSN name on
// each side, which is just as ambiguous as two separate mentions — no action
// is taken and the current selection is left alone. This lets users embed a
// DSN hint in a saved query so the right database is selected when it's
// pasted in.
function applySqlDsnHint(text) {
    const picker = document.getElementById('sql-dsn-picker');
    if (!picker) return;

    // picker.options is an HTMLOptionsCollection, not a real JS array — it's
    // "array-like" (has a .length and numeric indexes) but is missing array
    // methods such as .find(), which is used below. Array.from() copies its
    // items into an actual Array so those methods become available.
    const options = Array.from(picker.options);

    // Two small helper functions, written as "arrow functions" (the
    // `word => ...` shorthand for an anonymous function) and stored in
    // const variables so they can be called by name below, just like an
    // ordinary `function stripPunct(word) { ... }` would be.
    //
    // stripPunct() trims leading/trailing punctuation a natural-language
    // comment might attach to a word — quotes, a trailing period, or a
    // leading "--"/"//" if there's no space after the comment marker.
    // \W is a regex shorthand meaning "any character that is NOT a letter,
    // digit, or underscore" (the opposite of \w); ^\W+ matches a run of
    // such characters at the very start of the word, and \W+$ matches a run
    // at the very end — the `|` between them means "match either pattern",
    // and the `g` flag makes replace() apply it to every match it finds
    // rather than stopping after the first.
    //
    // findDsnOpt() then looks up a (punctuation-stripped, lowercased) word
    // against the DSN picker's real option values and returns the matching
    // <option> element if one exists, or `undefined` (a falsy value) if not
    // — Array.prototype.find() returns the first element for which the
    // callback returns true, or undefined if none does.
    const stripPunct = word => word.replace(/^\W+|\W+$/g, '');
    const findDsnOpt  = word => options.find(o => o.value.toLowerCase() === stripPunct(word).toLowerCase());

    // Walk the text one character at a time, skipping over single-quoted
    // string contents (with '' as an escaped quote, matching
    // _sqlParseTok()'s own string handling) so a "--" or "//" inside a
    // string literal is never mistaken for the start of a comment.
    const hints = [];
    let i = 0;
    while (i < text.length) {
        const c = text[i];

        if (c === "'") {
            i++;
            while (i < text.length) {
                if (text[i] === "'" && text[i + 1] === "'") { i += 2; continue; }
                if (text[i] === "'") { i++; break; }
                i++;
            }
            continue;
        }

        if ((c === '-' && text[i + 1] === '-') || (c === '/' && text[i + 1] === '/')) {
            const eol  = text.indexOf('\n', i);
            const line = eol === -1 ? text.slice(i) : text.slice(i, eol);

            // Break the comment line into its individual words: split() on
            // one-or-more whitespace characters (\s+) turns "a  b   c" into
            // ["a", "b", "c"], but would also leave an empty "" entry if the
            // line starts or ends with whitespace — filter() removes those
            // by keeping only words with at least one character.
            const words = line.split(/\s+/).filter(w => w.length > 0);

            // Check the word immediately before and after each "dsn" word.
            // If both are valid DSN names, push both — same effect as two
            // conflicting mentions, resolved by the dedupe/conflict check below.
            for (let w = 0; w < words.length; w++) {
                if (stripPunct(words[w]).toLowerCase() !== 'dsn') continue;

                // The ternary `condition ? valueIfTrue : valueIfFalse` below
                // guards against reading past either end of the words array:
                // there's no "previous word" if "dsn" is the first word
                // (w > 0 is false), and no "next word" if it's the last.
                const prevOpt = w > 0                ? findDsnOpt(words[w - 1]) : null;
                const nextOpt = w < words.length - 1 ? findDsnOpt(words[w + 1]) : null;

                if (prevOpt) hints.push(prevOpt.value);
                if (nextOpt) hints.push(nextOpt.value);
            }

            i = eol === -1 ? text.length : eol;
            continue;
        }

        i++;
    }

    if (hints.length === 0) return;

    // A Set is a built-in collection that automatically discards duplicate
    // values — `new Set(hints)` copies every hint in, but any value that's
    // already present is simply ignored rather than added again. Since
    // `hints` already holds canonical option values from findDsnOpt(), the
    // same DSN mentioned more than once (or on both sides of the same
    // "dsn") collapses down to a single entry and isn't treated as a
    // conflict — only a Set with more than one distinct DSN name in it
    // counts as ambiguous.
    //
    // `[...resolved]` uses the spread operator to copy the Set's contents
    // out into a real array (Sets don't support indexing like `resolved[0]`
    // directly), and `[0]` then takes that array's first — and, since we
    // just checked size === 1, only — element.
    const resolved = new Set(hints);
    if (resolved.size === 1) picker.value = [...resolved][0];
    // 0 matches, or 2+ conflicting DSNs named: take no action.
}

// Wire the SQL editor's input and scroll events once the DOM is ready.
// Called at the end of this file so the elements exist.
function initSqlEditor() {
    const editor = document.getElementById('sql-editor');
    const layer  = document.getElementById('sql-highlight-layer');

    editor.addEventListener('input', updateSqlHighlight);

    // The SQL editor is actually two overlapping elements: a transparent
    // <textarea> on top (where the user types) and a <pre> underneath that
    // renders the same text with syntax-highlighting spans. Keeping their
    // scroll positions in sync makes the highlight layer track the visible
    // portion of the textarea as the user scrolls.
    editor.addEventListener('scroll', () => {
        layer.scrollTop  = editor.scrollTop;
        layer.scrollLeft = editor.scrollLeft;
    });

    // Ctrl/Cmd+Enter submits; plain Enter checks for a DSN hint comment and,
    // when the Format setting is on, reformats the statement the caret has
    // just finished (see formatSqlOnEnter).
    //
    // Shift+Enter and Alt+Enter deliberately skip the formatting, giving the
    // user a way to add a plain line break without it.
    //
    // e.preventDefault() cancels the browser's own response to the key — here,
    // typing a newline into the textarea. It is called only when
    // formatSqlOnEnter returns true, because in that case the function has
    // already rewritten the text and placed the caret on the new line itself;
    // letting the browser also insert one would produce two. When it returns
    // false nothing is cancelled and Enter behaves completely normally.
    editor.addEventListener('keydown', e => {
        if ((e.ctrlKey || e.metaKey) && e.key === 'Enter') {
            submitSql();
        } else if (e.key === 'Enter' && !e.shiftKey && !e.altKey) {
            applySqlDsnHint(editor.value);
            if (codeFormatEnabled && formatSqlOnEnter(editor)) e.preventDefault();
        } else if (e.key === 'Enter') {
            applySqlDsnHint(editor.value);
        }
    });

    // Load a selected file into the editor.
    document.getElementById('sql-file-input').addEventListener('change', e => {
        const file = e.target.files[0];
        if (!file) return;
        const reader = new FileReader();
        reader.onload = ev => {
            editor.value = ev.target.result;
            updateSqlHighlight();
            applySqlDsnHint(editor.value);
        };
        reader.readAsText(file);
        // Reset so the same file can be re-opened if needed.
        e.target.value = '';
    });

    updateSqlHighlight();
}

// Wire the drag handle between the SQL input pane and the results pane.
// Dragging the handle adjusts the flex-basis of the top pane in pixels,
// while the bottom pane (flex:1) absorbs the remaining space.
function initSqlResizeHandle() {
    const handle  = document.getElementById('sql-resize-handle');
    const topPane = document.getElementById('sql-input-area');
    if (!handle || !topPane) return;

    let startY, startH;

    handle.addEventListener('mousedown', e => {
        startY = e.clientY;
        startH = topPane.getBoundingClientRect().height;
        handle.classList.add('dragging');
        document.body.style.cursor    = 'ns-resize';
        document.body.style.userSelect = 'none';
        document.addEventListener('mousemove', onDrag);
        document.addEventListener('mouseup', stopDrag);
        e.preventDefault();
    });

    function onDrag(e) {
        const newH = Math.max(60, startH + (e.clientY - startY));
        topPane.style.flex = '0 0 ' + newH + 'px';
    }

    function stopDrag() {
        handle.classList.remove('dragging');
        document.body.style.cursor    = '';
        document.body.style.userSelect = '';
        document.removeEventListener('mousemove', onDrag);
        document.removeEventListener('mouseup', stopDrag);
    }
}

// Open a file-picker dialog and load the chosen text file into the SQL editor.
function openSqlFile() {
    document.getElementById('sql-file-input').click();
}

// Save a block of text to a file the user chooses. Shared by the SQL tab's
// Save button (saveSqlFile) and the Code tab's (saveCodeFile), which differ
// only in which editor they read and what they call the result.
//
//   text        — the contents to write
//   defaultName — file name to suggest, including its extension
//   description — how the file type is described in the native Save dialog
//   extensions  — file extensions to offer, e.g. ['.sql', '.txt']
//
// Uses the File System Access API (showSaveFilePicker) when available for a
// native Save dialog; falls back to a Blob-URL download for browsers that do
// not support it (Firefox, Safari).
async function saveTextFile(text, defaultName, description, extensions) {
    // `typeof x === 'function'` is the safe way to ask whether a browser
    // feature exists: naming a property that was never defined yields
    // `undefined` rather than an error, so this is true only where the API is
    // actually implemented.
    if (typeof window.showSaveFilePicker === 'function') {
        try {
            const handle = await window.showSaveFilePicker({
                suggestedName: defaultName,
                types: [{
                    description: description,
                    accept: { 'text/plain': extensions }
                }]
            });
            const writable = await handle.createWritable();
            await writable.write(text);
            await writable.close();
            return;
        } catch (e) {
            // User cancelled the dialog — do nothing.
            if (e.name === 'AbortError') return;
            // Any other error falls through to the download fallback.
            console.warn('showSaveFilePicker failed, using download fallback:', e);
        }
    }

    // Fallback for Firefox/Safari which do not support showSaveFilePicker.
    // We create an in-memory Blob containing the text, generate a temporary
    // object URL pointing to it, attach that URL to a hidden <a> element with
    // the "download" attribute, and programmatically click it. The browser
    // treats this as a file download — it will prompt the user with a Save As
    // dialog if the browser is configured to ask where to save files, or save
    // directly to the default Downloads folder otherwise.
    // The object URL is revoked immediately after the click to free memory;
    // the browser has already queued the download by that point.
    const blob = new Blob([text], { type: 'text/plain' });
    const url  = URL.createObjectURL(blob);
    const a    = document.createElement('a');
    a.href     = url;
    a.download = defaultName;
    a.click();
    URL.revokeObjectURL(url);
}

// Save the SQL editor contents to a .sql file.
async function saveSqlFile() {
    // The ?. before .value is optional chaining: if getElementById returned
    // null the whole expression is `undefined` rather than an error, and the
    // || '' then substitutes an empty string.
    const text = document.getElementById('sql-editor')?.value || '';

    await saveTextFile(text, 'query.sql', 'SQL file', ['.sql', '.txt']);
}

// Load the SQL tab — populates the DSN picker, records each DSN's database
// provider in _sqlDsnProviders (used by the ALTER TABLE wizard for dialect
// decisions), and refreshes the syntax highlight layer.
async function loadSql() {
    const picker = document.getElementById('sql-dsn-picker');
    const previousDsn = picker.value;

    try {
        const res   = await apiFetch('/dsns');
        const data  = await res.json();
        const items = data.items || [];
        // Always refresh the provider and rowIds maps — needed by the ALTER
        // and CREATE TABLE wizards respectively.
        _sqlDsnProviders = {};
        _sqlDsnRowIds    = {};
        for (const d of items) {
            _sqlDsnProviders[d.name] = d.provider || '';
            _sqlDsnRowIds[d.name]    = !!d.rowid;
        }
        const dsns = items.map(d => d.name).sort();

        const currentOptions = Array.from(picker.options).map(o => o.value);
        const listChanged    = dsns.join(',') !== currentOptions.join(',');

        if (listChanged) {
            picker.innerHTML = '';
            if (dsns.length === 0) {
                picker.innerHTML = '<option value="">— no DSNs —</option>';
                return;
            }
            for (const name of dsns) {
                const opt = document.createElement('option');
                opt.value       = name;
                opt.textContent = name;
                picker.appendChild(opt);
            }
            if (previousDsn && dsns.includes(previousDsn)) {
                picker.value = previousDsn;
            }
        }
    } catch (e) {
        if (e.message !== 'Unauthorized') console.error('Error loading DSNs for SQL tab:', e);
    }

    updateSqlHighlight();
}

// Clear the SQL editor and results area.
function clearSql() {
    document.getElementById('sql-editor').value = '';
    document.getElementById('sql-status').innerHTML  = '';
    document.getElementById('sql-results').innerHTML = '';
    document.getElementById('sql-elapsed').textContent = '';
    updateSqlHighlight();
    document.getElementById('sql-editor').focus();
}

// ==========================================================================
// SQL formatter — client-side "pretty printer" for the SQL editor
// ==========================================================================
//
// The Code tab reformats Ego source by posting it to the server's AST-based
// formatter (see formatEditorCode()). There is no equivalent server endpoint
// for SQL — the server hands SQL straight to the database driver and never
// parses it — so the SQL formatter lives here, in the browser.
//
// It is deliberately a *token stream* reformatter, not a parser. It decides
// where lines break and how they indent purely from the sequence of tokens,
// which means it never has to understand a dialect's full grammar and can
// pass unfamiliar vendor syntax through untouched.
//
// The safety contract has three parts, and all three matter because this
// rewrites text the user is about to execute against a real database:
//
//   1. sqlFormatTok() is LOSSLESS: concatenating every token's value
//      reproduces the input byte for byte. (This is what separates it from
//      _sqlParseTok(), which deliberately discards comments, strips quoting,
//      and skips characters it does not recognize. That one feeds the ALTER
//      TABLE wizard and must not be changed to serve this.)
//   2. Anything the tokenizer cannot make sense of — an unterminated string,
//      quoted identifier, or block comment — aborts the whole operation.
//   3. formatSqlText() re-tokenizes its own output and compares the
//      significant-token streams. If they differ in any way, the formatted
//      text is thrown away and the original is returned unchanged.
//
// Rule 3 is the real guarantee: the worst case is "your SQL did not get
// reformatted", never "your SQL got reformatted into something else".
// -----------------------------------------------------------------------

// One indent level of formatter output.
const SQL_FMT_INDENT = '    ';

// Keyword phrases that begin a new output line at their block's base indent.
// Each entry is an array of words that must appear one after another, so
// ['GROUP', 'BY'] matches the two words "GROUP BY" in sequence.
//
// Order matters — the list is scanned front to back and the first match wins,
// so longer phrases must precede the shorter ones they start with ('GROUP BY'
// before 'GROUP', 'LEFT OUTER JOIN' before 'LEFT JOIN'). Adding a new clause
// keyword is a matter of putting it in this list at the right position; no
// other part of the formatter needs to change.
const SQL_FMT_CLAUSES = [
    ['CREATE', 'UNIQUE', 'INDEX'], ['CREATE', 'INDEX'], ['CREATE', 'TABLE'],
    ['CREATE', 'VIEW'],
    ['DROP', 'TABLE'], ['DROP', 'INDEX'], ['DROP', 'VIEW'],
    ['ALTER', 'TABLE'],
    ['INSERT', 'INTO'], ['DELETE', 'FROM'],
    ['GROUP', 'BY'], ['ORDER', 'BY'], ['PARTITION', 'BY'],
    ['UNION', 'ALL'], ['UNION'], ['INTERSECT'], ['EXCEPT'],
    ['LEFT', 'OUTER', 'JOIN'], ['RIGHT', 'OUTER', 'JOIN'], ['FULL', 'OUTER', 'JOIN'],
    ['LEFT', 'JOIN'], ['RIGHT', 'JOIN'], ['FULL', 'JOIN'],
    ['INNER', 'JOIN'], ['CROSS', 'JOIN'], ['JOIN'],
    ['SELECT'], ['FROM'], ['WHERE'], ['HAVING'], ['LIMIT'], ['OFFSET'],
    ['VALUES'], ['SET'], ['RETURNING'], ['UPDATE'], ['WITH'],
];

// Tokens that never take a space in front of them, and tokens that never take
// a space after them. A Set is used rather than an array because the only
// question ever asked of these is "is this string in the collection?", which
// Set answers with .has() in one step no matter how many entries it holds.
const SQL_FMT_NO_SPACE_BEFORE = new Set([',', ';', ')', '.', '::', '->', '->>']);
const SQL_FMT_NO_SPACE_AFTER  = new Set(['(', '.', '::', '->', '->>']);

// Lossless SQL tokenizer. Returns an array of { type, value, pos } objects
// covering every character of `text`, or null if the input contains an
// unterminated construct the formatter must not guess at.
//
// Token types:
//   'ws'      — a run of whitespace (kept so callers can see line breaks)
//   'comment' — "--", "//", "#" to end of line, or a /* ... */ block
//   'string'  — '...' literal, or a Postgres $$ ... $$ dollar-quoted body
//   'ident'   — bare word, or a "..." / `...` / [...] delimited identifier
//   'number'  — numeric literal (a leading sign is a separate operator token)
//   'param'   — bind parameter: ?, $1, :name, @name
//   'op'      — operator or punctuation, including any character not
//               otherwise recognized
//
// `pos` is the token's starting offset in `text`, used by the format-on-Enter
// path to locate statement boundaries.
//
// "//" is accepted as a line comment marker alongside the standard "--"
// because preprocessSql() and applySqlDsnHint() already treat it as one in
// this editor; "#" is MySQL's spelling.
function sqlFormatTok(text) {
    const tokens = [];
    const n      = text.length;
    let   i      = 0;   // scan position: the next character to look at

    // Record text[start] up to (but not including) text[i] as one token.
    //
    // This is an "arrow function" — the `(args) => expression` shorthand for
    // an anonymous function — stored in a const so it can be called by name,
    // exactly as `function push(type, start) { ... }` would be. The important
    // detail is that it reads `i` from the enclosing function rather than
    // taking it as an argument: because the arrow function was defined inside
    // sqlFormatTok, it shares that one `i` variable and always sees whatever
    // value the loop below has advanced it to. (A function that "remembers"
    // the variables around where it was written is called a closure; this file
    // relies on that behavior heavily inside sqlFormatEmit too.)
    //
    // .slice(start, i) copies out the characters from index `start` up to but
    // NOT including index `i` — the end is exclusive, so by the time push() is
    // called, `i` should already sit one past the token's last character.
    const push = (type, start) => tokens.push({ type: type, value: text.slice(start, i), pos: start });

    // Walk the text once, from beginning to end. Every branch below either
    // consumes at least one character and pushes a token, or returns null;
    // that guarantees the loop always makes progress and can never hang.
    while (i < n) {
        const c     = text[i];              // character at the scan position
        const two   = text.substr(i, 2);    // it and the next one, as a string
        const start = i;                    // where the token being read began

        // Whitespace run. `/\s/` is a regular expression literal — a pattern
        // written directly in the source between slashes — where \s is the
        // shorthand for "any whitespace character" (space, tab, newline, ...).
        // Its .test() method returns true if the pattern matches anywhere in
        // the string it is given.
        //
        // `continue` jumps straight back to the top of the while loop, skipping
        // every branch below it. Each branch here ends that way, so the effect
        // is a chain of mutually exclusive cases.
        if (/\s/.test(c)) {
            while (i < n && /\s/.test(text[i])) i++;
            push('ws', start);
            continue;
        }

        // Line comment — runs to (but does not include) the newline, so the
        // newline stays in the following whitespace token.
        if (two === '--' || two === '//' || c === '#') {
            while (i < n && text[i] !== '\n') i++;
            push('comment', start);
            continue;
        }

        // Block comment. An unterminated one would swallow the rest of the
        // statement, so refuse to format rather than guess where it ends.
        //
        // .indexOf(needle, from) searches for `needle` starting at index
        // `from` and returns where it was found, or -1 if it never was. That
        // -1 is JavaScript's "not found" answer for string and array searches
        // alike, and shows up several more times below.
        if (two === '/*') {
            const close = text.indexOf('*/', i + 2);
            if (close === -1) return null;
            i = close + 2;
            push('comment', start);
            continue;
        }

        // Single-quoted string literal; '' is an embedded quote.
        //
        // The `closed` flag records whether the closing quote was actually
        // found. `break` exits the inner while loop immediately (unlike
        // `continue`, which would go round it again), so reaching the end of
        // the text without a closing quote leaves `closed` false and aborts
        // the whole tokenizer. Guessing where an unterminated string ends is
        // exactly the kind of mistake that could change what the SQL means.
        if (c === "'") {
            i++;
            let closed = false;
            while (i < n) {
                if (text[i] === "'" && text[i + 1] === "'") { i += 2; continue; }
                if (text[i] === "'") { i++; closed = true; break; }
                i++;
            }
            if (!closed) return null;
            push('string', start);
            continue;
        }

        // Delimited identifier: "ansi", `mysql`, or [t-sql]. The doubled
        // delimiter is an escape for the first two spellings; brackets have no
        // such convention, so the first ']' closes them.
        //
        // The `condition ? valueIfTrue : valueIfFalse` form below is the
        // ternary operator: it picks ']' as the closing character when the
        // token opened with '[', and otherwise closes with the same character
        // it opened with.
        if (c === '"' || c === '`' || c === '[') {
            const close = c === '[' ? ']' : c;
            i++;
            let closed = false;
            while (i < n) {
                if (close !== ']' && text[i] === close && text[i + 1] === close) { i += 2; continue; }
                if (text[i] === close) { i++; closed = true; break; }
                i++;
            }
            if (!closed) return null;
            push('ident', start);
            continue;
        }

        // Postgres dollar quoting: $$body$$ or $tag$body$tag$. Checked before
        // the $1 placeholder case because "$" alone is ambiguous between them.
        //
        // .exec() runs a regular expression against a string and returns an
        // array describing the match, or null if there was none — so `tag`
        // doubles as both the result and the "did it match?" test. Entry [0]
        // of that array is the whole matched text, which here is the opening
        // delimiter ("$$" or "$name$") that must be found again to close the
        // literal. In the pattern, ^ anchors the match to the very start of
        // the string, \$ means a literal dollar sign (a bare $ has a special
        // meaning in regular expressions, so it has to be escaped), and the
        // trailing ? makes the parenthesized tag name optional.
        if (c === '$') {
            const tag = /^\$([A-Za-z_][A-Za-z0-9_]*)?\$/.exec(text.slice(i));
            if (tag) {
                const close = text.indexOf(tag[0], i + tag[0].length);
                if (close === -1) return null;
                i = close + tag[0].length;
                push('string', start);
                continue;
            }

            // Reading one position past the end of a string gives `undefined`
            // rather than an error, and `undefined` would make .test() throw.
            // The `x || y` idiom evaluates to `x` when `x` is usable and to
            // `y` when it is not, so `text[i + 1] || ''` substitutes an empty
            // string at the end of the text — which simply fails to match.
            if (/[0-9]/.test(text[i + 1] || '')) {
                i++;
                while (i < n && /[0-9]/.test(text[i])) i++;
                push('param', start);
                continue;
            }

            // Neither a dollar-quote nor a $1 placeholder: fall through to the
            // operator cases below, which treat the "$" as ordinary
            // punctuation. This is the one branch here that does NOT end in a
            // `continue`, and it is deliberate.
        }

        // Remaining bind parameter spellings.
        if (c === '?') {
            i++;
            push('param', start);
            continue;
        }

        // ":name" and "@name". A bare "::" cast operator does not match here
        // because the character after ":" is not a letter, so it falls through
        // to the two-character operator case below.
        if ((c === ':' || c === '@') && /[A-Za-z_]/.test(text[i + 1] || '')) {
            i += 2;
            while (i < n && /[A-Za-z0-9_]/.test(text[i])) i++;
            push('param', start);
            continue;
        }

        // Numeric literal. Unlike _sqlParseTok(), a leading "-" is left as its
        // own operator token: a formatter has to be able to tell "a - 1" from
        // "a, -1", and it decides spacing for unary signs separately.
        //
        // The pattern matches either a hex literal (0x1F) or a decimal one,
        // where [0-9]*\.?[0-9]+ allows "5", "3.14" and ".5", and the optional
        // ([eE][-+]?[0-9]+) tail allows exponents such as "1e10". Square
        // brackets in a regular expression mean "any one character from this
        // set", and the | between the two halves means "either side matches".
        if (/[0-9]/.test(c) || (c === '.' && /[0-9]/.test(text[i + 1] || ''))) {
            const num = /^(0[xX][0-9a-fA-F]+|[0-9]*\.?[0-9]+([eE][-+]?[0-9]+)?)/.exec(text.slice(i));
            i += num[0].length;
            push('number', start);
            continue;
        }

        // Bare identifier or keyword. Note the second character set is wider
        // than the first: a name may not start with a digit, but may contain
        // one after its first character.
        if (/[A-Za-z_]/.test(c)) {
            while (i < n && /[A-Za-z0-9_$]/.test(text[i])) i++;
            push('ident', start);
            continue;
        }

        // Multi-character operators, longest first — "->>" has to be tested
        // before "->", or the longer operator would be split into "->" plus a
        // stray ">".
        if (text.substr(i, 3) === '->>') {
            i += 3;
            push('op', start);
            continue;
        }

        // .includes() asks whether an array contains a given value, so this
        // reads as "if `two` is one of these operators". An array is fine here
        // rather than a Set because the list is short and this is not on a hot
        // path.
        if (['->', '::', '||', '<>', '<=', '>=', '!=', '&&', ':='].includes(two)) {
            i += 2;
            push('op', start);
            continue;
        }

        // Catch-all: any other single character becomes an operator token.
        // This is what keeps the tokenizer lossless in the face of syntax it
        // does not specifically know about.
        i++;
        push('op', start);
    }

    return tokens;
}

// Reduce a token array to the comparable "significant" stream used by the
// round-trip check in formatSqlText(): whitespace is dropped, comments are
// compared by their trimmed text, and words the formatter is allowed to
// re-case are normalized to upper case on both sides of the comparison.
// Everything else — identifiers, string literals, numbers, operators — must
// match exactly, character for character.
//
// The result is an array of plain strings, each one a token's type and text
// glued together with a colon ("k:SELECT", "ident:users", "op:,"). Comparing
// two of these arrays entry by entry is then a simple string comparison, and
// the type prefix keeps categories apart so that, say, the identifier `x` can
// never be mistaken for the string literal 'x'.
//
// Deciding what to ignore here is a judgement call with real consequences: an
// difference this function smooths over is a difference the round-trip check
// in formatSqlText() will not catch. Only two are smoothed over, and both are
// changes the formatter is explicitly allowed to make — the whitespace it
// rearranges, and the keyword capitalization it normalizes. Anything else
// added to this list would widen the hole.
function sqlFormatSig(tokens) {
    const out = [];

    // `for (const t of tokens)` walks the array's values one at a time — `t`
    // is each token object itself. (JavaScript also has `for...in`, which
    // yields index numbers instead; that is not what is wanted here.)
    for (const t of tokens) {
        // Whitespace is the formatter's to rewrite, so it is not compared.
        if (t.type === 'ws') continue;

        // Comments are compared by content with surrounding blanks removed,
        // since the formatter may move one to a different column.
        if (t.type === 'comment') {
            out.push('c:' + t.value.trim());
            continue;
        }

        const up = t.value.toUpperCase();

        // Keywords and type names are compared case-insensitively because the
        // formatter upper-cases them. Both sides of the comparison go through
        // this same function, so both get the same treatment. A quoted
        // identifier such as "select" keeps its quote characters in .value and
        // therefore does not match anything in these sets — which is correct,
        // because quoting is what makes it a name rather than a keyword.
        if (t.type === 'ident' && (SQL_KEYWORDS.has(up) || SQL_TYPES.has(up))) {
            out.push('k:' + up);
            continue;
        }

        // Everything else must survive formatting completely untouched.
        out.push(t.type + ':' + t.value);
    }

    return out;
}

// Lay out a token array as formatted SQL text. Called only through
// formatSqlText(), which supplies the tokens and validates the result.
//
// Layout rules, in full:
//   * Recognized keywords are upper-cased. Type names are upper-cased only in
//     column-definition position (directly after a non-keyword word), so a
//     column actually named "date" or "text" is left alone.
//   * Each clause keyword from SQL_FMT_CLAUSES starts a new line at its
//     block's base indent; the rest of the clause continues on that same line.
//   * A comma, AND, OR, or ON breaks to a new line indented one level under
//     the current clause — but only where the enclosing parentheses are being
//     broken across lines (see below), so function arguments stay inline.
//   * A "(" opens a block if a subquery follows it (SELECT or WITH), a list
//     if it is the column list of a CREATE TABLE, and is inline otherwise.
//     Block and list contents are indented one level with the ")" returned to
//     the indent of the line that opened it.
//   * Comments are reproduced verbatim. A line comment always ends its output
//     line, so code can never end up hidden behind one.
//   * ";" ends the statement and is followed by a blank line.
//
// HOW IT WORKS
//
// The function builds output one line at a time. `parts` collects the pieces
// of the line currently being written; when something decides that line is
// finished, flush() joins the pieces together, puts the right amount of
// indentation on the front, and appends the result to `lines`. At the very
// end, `lines` is joined with newlines to produce the formatted text.
//
// Everything below the variable declarations is a small helper function, and
// all of them are defined *inside* sqlFormatEmit so they can read and modify
// that shared state directly (see the closure note in sqlFormatTok). This is
// why emit() takes only the text to add rather than being handed the line to
// add it to — there is exactly one line under construction at any moment, and
// every helper is looking at the same one. The trade-off is that these
// helpers are order-dependent: calling flush() before emit() rather than
// after produces different output, so read them as steps in a sequence, not
// as independent utilities.
function sqlFormatEmit(tokens) {
    const lines = [];   // completed output lines

    let parts     = []; // pieces of the line currently being built
    let indent    = 0;  // indent level of that line
    let prev      = null;  // previous emitted token, for spacing decisions
    let tightNext = false; // suppress the next space (used for unary +/-)

    // Frames track how far each nesting level is indented and whether it is
    // being broken across lines at all. frames[0] is the statement itself,
    // and each "(" pushes another frame that its matching ")" pops back off —
    // an array used as a stack, where the last element is the innermost
    // context currently being formatted. Each frame holds:
    //   mode   — 'stmt', 'block' or 'list' (lines are broken) or 'inline'
    //            (everything stays on one line)
    //   indent — base indent for clause keywords in this block
    //   body   — indent for continuation lines under the current clause
    //   close  — indent for this block's ")"
    //
    // The parentheses around the object below are required, not decorative.
    // An arrow function written as `() => { ... }` treats the braces as the
    // function's body; wrapping them as `() => ({ ... })` is what makes them
    // an object literal being returned. A fresh object is built on each call
    // so that two statements never accidentally share one frame — assigning
    // an object in JavaScript copies a reference to it, not its contents.
    const newStmtFrame = () => ({ mode: 'stmt', indent: 0, body: 1, close: 0 });
    let frames = [newStmtFrame()];

    // The innermost frame. `frames.length - 1` is the last valid index of the
    // array, so this reads the top of the stack without removing it.
    const frame = () => frames[frames.length - 1];

    // Finish the line under construction, if it has anything on it. An empty
    // `parts` means there is no line in progress, so flush() is safe to call
    // when one is not needed — several callers rely on that.
    //
    // .join('') concatenates the pieces with nothing between them (the spaces
    // were already added as their own pieces by emit), and .repeat(n) makes n
    // copies of the indent string.
    function flush() {
        if (parts.length > 0) lines.push(SQL_FMT_INDENT.repeat(indent) + parts.join(''));
        parts = [];
    }

    // Start a fresh line at the given indent level: finish whatever was in
    // progress, then set the indent the *next* line will be written at.
    function startLine(level) {
        flush();
        indent = level;
    }

    // True when `text` should be separated from the previous piece by a space.
    //
    // `prev &&` guards the two tests after it: prev is null at the start of a
    // statement, and reading .type from null would throw. In JavaScript an
    // `&&` chain stops at the first falsy value, so when prev is null the rest
    // is never evaluated and the whole condition is simply false.
    function spaceBefore(text) {
        if (SQL_FMT_NO_SPACE_BEFORE.has(text)) return false;
        if (prev && prev.type === 'op' && SQL_FMT_NO_SPACE_AFTER.has(prev.value)) return false;
        return true;
    }

    // Append one piece to the current line.
    //
    //   text  — the characters to add
    //   tok   — the token they came from, remembered as `prev` so the next
    //           call can make its spacing decision
    //   tight — pass true to force this piece hard against what precedes it,
    //           overriding the spacing rules (used for things like the "(" of
    //           a function call). Callers that do not care may omit it, in
    //           which case it arrives as `undefined`, which counts as false.
    //
    // `tightNext` does the same job in the other direction: it is set after
    // emitting a unary + or -, so that the *following* call binds tight to the
    // sign. It is cleared here so it only ever affects one piece.
    function emit(text, tok, tight) {
        if (parts.length > 0 && !tight && !tightNext && spaceBefore(text)) parts.push(' ');
        parts.push(text);
        prev      = tok;
        tightNext = false;
    }

    // Index of the next significant (non-whitespace, non-comment) token at or
    // after `idx`, or -1 if there is none. Used to look ahead at what follows
    // a "(" without disturbing the main loop's own position.
    function nextSig(idx) {
        for (let k = idx; k < tokens.length; k++) {
            if (tokens[k].type !== 'ws' && tokens[k].type !== 'comment') return k;
        }
        return -1;
    }

    // If the tokens starting at `idx` spell out `phrase` — an array of
    // upper-case words such as ['GROUP', 'BY'] — return how many tokens that
    // consumes, so the caller can skip past all of them at once. Return 0 when
    // there is no match, which is a falsy value and so reads naturally as
    // "no match" in an `if`.
    //
    // Whitespace between the words is skipped, but a comment is not: the loop
    // only steps over 'ws' tokens, so a comment sitting inside the phrase
    // fails the `t.type !== 'ident'` test and cancels the match. That is
    // deliberate — matching across it would consume the comment along with the
    // keywords and lose it from the output.
    function matchPhrase(idx, phrase) {
        let k = idx;

        for (const word of phrase) {
            while (k < tokens.length && tokens[k].type === 'ws') k++;
            if (k >= tokens.length) return 0;

            const t = tokens[k];
            if (t.type !== 'ident' || t.value.toUpperCase() !== word) return 0;
            k++;
        }

        return k - idx;
    }

    // Render one bare word, upper-casing it when it is a keyword the formatter
    // owns the casing of. Any word not recognized here is returned exactly as
    // the user typed it — table and column names are never re-cased.
    function wordText(t) {
        const up = t.value.toUpperCase();

        if (SQL_KEYWORDS.has(up)) return up;

        // A type name is only treated as one when it directly follows an
        // ordinary word — "id integer" in a column definition, but not the
        // "date" in "SELECT date" or "t.text". Without this test, a column
        // genuinely named "date" or "text" would be shouted back at the user
        // every time they formatted.
        if (SQL_TYPES.has(up) && prev && prev.type === 'ident'
            && !SQL_KEYWORDS.has(prev.value.toUpperCase())) return up;

        return t.value;
    }

    // True when a "+"/"-" at this point is a sign attached to the number that
    // follows ("-1") rather than an arithmetic operator between two values
    // ("a - 1"). The test is what came *before* it: a sign can only appear
    // where an operand could not have just ended.
    //
    //   nothing at all      → "-1"          sign
    //   an operator or "("  → "(-1", "= -1" sign
    //   a keyword           → "VALUES -1"   sign
    //   ")"                 → "(a) - 1"     operator
    //   a name or literal   → "a - 1"       operator
    function isUnarySign() {
        if (!prev) return true;
        if (prev.type === 'op') return prev.value !== ')';
        return prev.type === 'ident' && SQL_KEYWORDS.has(prev.value.toUpperCase());
    }

    // Set after a CREATE TABLE clause so the column list that follows is laid
    // out one column per line, and after INSERT INTO so its column list keeps
    // a space after the table name instead of reading as a function call.
    // Both are cleared as soon as a "(" consumes them or another clause
    // begins, so only the statement's own list is affected.
    let listParenPending  = false;
    let spaceParenPending = false;

    // Set by ";" and acted on when the next content arrives, rather than
    // immediately. The delay is what lets a comment trailing the semicolon on
    // the same source line still land on the statement's own last line:
    //
    //     SELECT a FROM t;  -- note        the comment belongs up here...
    //                                      ...not down here, after the blank
    //     SELECT b FROM u;
    //
    // Closing the statement out the instant the ";" was seen would have
    // already ended that line and written the blank separator, leaving the
    // comment stranded at the top of the next statement.
    let pendingBreak = false;

    // Close out the statement a ";" ended: finish its last line, leave one
    // blank line behind it, and reset every piece of per-statement state back
    // to its starting value. Doing nothing when `pendingBreak` is false makes
    // this safe to call from several places without any of them having to
    // check first.
    function applyPendingBreak() {
        if (!pendingBreak) return;

        flush();
        lines.push('');          // the blank line between statements
        frames            = [newStmtFrame()];
        indent            = 0;
        prev              = null;
        listParenPending  = false;
        spaceParenPending = false;
        pendingBreak      = false;
    }

    // ---------------------------------------------------------------------
    // Main loop — walk the tokens in order, deciding for each one what it does
    // to the line being built. `i` advances by hand rather than through a
    // `for` loop because a matched clause phrase consumes several tokens at
    // once (see matchPhrase).
    // ---------------------------------------------------------------------

    let sawNewline = false; // did the source break the line before this token?
    let i          = 0;

    while (i < tokens.length) {
        const t = tokens[i];

        // Whitespace is dropped — the formatter decides its own spacing — but
        // whether it contained a line break is remembered, because that is how
        // the comment handling below tells a comment on its own line from one
        // trailing code on a shared line.
        if (t.type === 'ws') {
            if (t.value.includes('\n')) sawNewline = true;
            i++;
            continue;
        }

        if (t.type === 'comment') {
            // A comment on a line of its own belongs to the next statement,
            // so close out the previous one first. One that trails the ";" on
            // the same line stays attached to the line it was written on.
            if (sawNewline) applyPendingBreak();

            const isBlock = t.value.startsWith('/*');
            const text    = t.value.trim();

            // A comment that stood on its own line in the source, or that has
            // nothing before it on this output line, gets its own line. A
            // multi-line block comment always does, because re-indenting its
            // interior would change its text.
            if (sawNewline || parts.length === 0 || text.includes('\n')) {
                startLine(indent);
                parts.push(text);
                flush();
            } else {
                // Trailing a piece of code on the same line. Pushed directly
                // rather than through emit() because a comment is not a token
                // the spacing rules should reason about; the space is added by
                // hand instead.
                parts.push(' ' + text);

                // A line comment must end the line. Everything after it on the
                // same line would be inside the comment, so letting code follow
                // one would silently delete that code from the statement. (The
                // round-trip check in formatSqlText() would catch it, but the
                // user would just see formatting mysteriously refuse to work.)
                if (!isBlock) flush();
            }

            // A comment is not an operand, so the next piece must not try to
            // make a spacing decision relative to it.
            prev       = null;
            sawNewline = false;
            i++;
            continue;
        }

        // Any real content ends the statement a preceding ";" left pending.
        // This must come before `frame()` is read below, because it may have
        // replaced the frame stack with a fresh one.
        applyPendingBreak();

        const f  = frame();               // innermost context being formatted
        const up = t.value.toUpperCase(); // this token's text, for keyword tests

        // -- Statement terminator -----------------------------------------
        if (t.type === 'op' && t.value === ';') {
            emit(';', t);
            pendingBreak = true;   // acted on when the next content arrives
            sawNewline   = false;
            i++;
            continue;
        }

        // -- Open parenthesis ----------------------------------------------
        //
        // What kind of group this is decides everything about how it is laid
        // out, and the decision can only be made here, at the "(" itself:
        //
        //   subquery — a SELECT or WITH follows, so the contents get their own
        //              indented block of lines
        //   list     — the column list of a CREATE TABLE, one column per line
        //   inline   — anything else (function arguments, IN lists, VALUES
        //              rows, arithmetic grouping), kept on one line
        if (t.type === 'op' && t.value === '(') {
            const nxt = nextSig(i + 1);

            // The word just inside the parenthesis, or '' if there is no token
            // there or it is not a word at all. Both halves of the `&&` have to
            // pass before tokens[nxt] is read, since nxt is -1 when nothing
            // significant follows and tokens[-1] would be `undefined`.
            const nxtUp  = nxt >= 0 && tokens[nxt].type === 'ident' ? tokens[nxt].value.toUpperCase() : '';
            const isSub  = nxtUp === 'SELECT' || nxtUp === 'WITH';
            const isList = !isSub && listParenPending;

            if (isSub || isList) {
                // `open` is the indent of the line the "(" sits on, captured
                // before startLine() changes it. The closing ")" comes back to
                // this level so it lines up under the line that opened it.
                const open = indent;
                emit('(', t);
                frames.push({
                    mode:   isSub ? 'block' : 'list',
                    indent: open + 1,
                    // A subquery has clause keywords of its own, so its
                    // continuation lines sit one level deeper again. A column
                    // list has none, so its items stay at the block indent.
                    body:   open + 1 + (isSub ? 1 : 0),
                    close:  open,
                });
                startLine(open + 1);
                prev = null;   // nothing on the new line to space against yet
            } else {
                // Inline group. It sits tight against a preceding name so
                // function calls read as "count(*)" rather than "count (*)",
                // but keeps its space after a keyword ("IN (1, 2)") and after
                // an INSERT INTO target ("INSERT INTO t (a, b)"), which is a
                // column list rather than a call.
                const tight = !spaceParenPending
                    && prev !== null
                    && ((prev.type === 'ident' && !SQL_KEYWORDS.has(prev.value.toUpperCase()))
                        || prev.type === 'param'
                        || (prev.type === 'op' && prev.value === ')'));
                emit('(', t, tight);

                // An inline frame needs no indent fields: nothing inside it
                // ever starts a new line, so it exists only to record that
                // fact for the comma and clause rules below.
                frames.push({ mode: 'inline' });
            }

            listParenPending  = false;
            spaceParenPending = false;
            sawNewline        = false;
            i++;
            continue;
        }

        // -- Close parenthesis ---------------------------------------------
        if (t.type === 'op' && t.value === ')') {
            // frames[0] is the statement, so a stack of length 1 means this
            // ")" has no matching "(". Rather than produce nonsense
            // indentation, throw: formatSqlText() catches it and turns the
            // whole attempt into "leave the SQL exactly as it was".
            if (frames.length === 1) throw new Error('unbalanced');

            // .pop() removes and returns the last element, so this both ends
            // the group and hands back the frame describing how to close it.
            const closed = frames.pop();
            if (closed.mode !== 'inline') startLine(closed.close);
            emit(')', t);
            sawNewline = false;
            i++;
            continue;
        }

        // -- Comma ----------------------------------------------------------
        // Inside an inline group the comma just separates arguments; anywhere
        // else it separates list items, each of which gets its own line.
        if (t.type === 'op' && t.value === ',') {
            emit(',', t);
            if (f.mode !== 'inline') startLine(f.body);
            sawNewline = false;
            i++;
            continue;
        }

        // -- Clause keywords -------------------------------------------------
        // Skipped inside inline groups (a window function's ORDER BY is not a
        // new clause) and inside column lists (where words like KEY and
        // REFERENCES are part of a definition, not a clause of their own).
        if (t.type === 'ident' && f.mode !== 'inline' && f.mode !== 'list') {
            let matched = null;
            let used    = 0;

            // Try each phrase in order and stop at the first that matches.
            // SQL_FMT_CLAUSES is ordered longest-first among phrases sharing a
            // leading word, so this finds 'GROUP BY' rather than 'GROUP'.
            for (const phrase of SQL_FMT_CLAUSES) {
                used = matchPhrase(i, phrase);
                if (used > 0) { matched = phrase; break; }
            }

            if (matched) {
                startLine(f.indent);

                // The phrase is emitted as one piece with single spaces
                // between its words, whatever spacing the user had. It is
                // attributed to the phrase's LAST token so that the next
                // token's spacing decision looks at the right word — for
                // 'GROUP BY' that is 'BY', not 'GROUP'.
                emit(matched.join(' '), tokens[i + used - 1]);

                // Continuation lines for this clause sit one level in.
                f.body = f.indent + 1;

                // Arm the two paren behaviors that depend on which clause was
                // just seen. Both are consumed by the next "(" encountered.
                listParenPending  = matched[0] === 'CREATE' && matched[1] === 'TABLE';
                spaceParenPending = matched[0] === 'INSERT';

                sawNewline = false;
                i += used;   // skip every token the phrase consumed
                continue;
            }

            // No clause matched — fall through to the cases below. This `if`
            // block deliberately has no `else`.
        }

        // -- Conjunctions and join conditions --------------------------------
        // These break to a continuation line under the current clause, which
        // is what turns a long WHERE into one condition per line.
        if (t.type === 'ident' && f.mode !== 'inline' && (up === 'AND' || up === 'OR' || up === 'ON')) {
            startLine(f.body);
            emit(up, t);
            sawNewline = false;
            i++;
            continue;
        }

        // -- Everything else --------------------------------------------------
        // Any token that does not affect the layout is simply added to the
        // current line: names, literals, operators, parameters.
        if (t.type === 'ident') {
            emit(wordText(t), t);
        } else if (t.type === 'op' && (t.value === '+' || t.value === '-') && isUnarySign()) {
            emit(t.value, t);
            tightNext = true;   // bind the sign to the operand that follows
        } else {
            emit(t.value, t);
        }

        sawNewline = false;
        i++;
    }

    // The loop ends with the final line still under construction; write it out.
    flush();

    // Drop the blank line a trailing ";" left behind, plus any others at the
    // very end, so the output never finishes with empty lines. `lines.length`
    // is re-read on each pass, so this keeps removing until the last line has
    // content or nothing is left.
    while (lines.length > 0 && lines[lines.length - 1] === '') lines.pop();

    // .join('\n') glues the lines together with a newline between each pair
    // (not after the last one), producing the finished text.
    return lines.join('\n');
}

// Format a block of SQL text. Returns the formatted text, or null if it could
// not be formatted safely — in which case the caller must use the original
// text unchanged.
//
// The round-trip check at the end is what makes this safe to run against text
// the user is about to execute: the formatted output is tokenized again and
// its significant tokens compared against the input's. Any difference at all
// — a comment absorbed into another, a string boundary moved, a token lost to
// a layout bug — fails the comparison and discards the result.
// If you change sqlFormatEmit(), you do not need to prove your change is
// correct in order to keep the editor safe — this function will catch a
// mistake and fall back to the original text. What a mistake will look like
// from the outside is formatting quietly refusing to happen.
function formatSqlText(text) {
    // Step 1: tokenize. A null here means an unterminated string, quoted
    // identifier or block comment, which the tokenizer refuses to guess at.
    const tokens = sqlFormatTok(text);
    if (tokens === null) return null;

    // Step 2: lay the tokens out.
    //
    // `let formatted;` declares the variable without a value so it survives
    // past the try block below — anything declared with let or const *inside*
    // the braces would not be visible outside them.
    let formatted;

    // try/catch runs the code in the first block and, if it throws an error,
    // jumps to the second instead of letting the error escape. sqlFormatEmit
    // throws on unbalanced parentheses; catching everything rather than that
    // one case means an unforeseen bug in the layout code also degrades to
    // "leave the SQL alone" instead of breaking the Submit button.
    try {
        formatted = sqlFormatEmit(tokens);
    } catch (e) {
        return null;
    }

    // Step 3: the round-trip check. Tokenize the formatter's own output and
    // compare it against the input, token by token.
    const check = sqlFormatTok(formatted);
    if (check === null) return null;

    const before = sqlFormatSig(tokens);
    const after  = sqlFormatSig(check);

    // Lengths first: a token gained or lost is a difference on its own, and
    // checking it up front means the comparison below cannot read past the end
    // of the shorter array.
    if (before.length !== after.length) return null;

    // .some() calls the given function for each element and returns true as
    // soon as one of them returns true (stopping there). Its callback receives
    // the element and that element's index, so `v` is the entry from `before`
    // and `after[k]` is the entry at the same position in `after`. Reading it
    // aloud: "if some entry differs from its counterpart, give up".
    if (before.some((v, k) => v !== after[k])) return null;

    return formatted;
}

// Reformat the SQL editor's contents in place. Returns true if the text is
// now formatted (including when it already was), false if it could not be
// formatted and was left alone.
//
// This is what the toolbar's Format button calls, and what submitSql() calls
// when the Format setting is on.
//
// `quiet` suppresses the status-area message, for callers such as submitSql()
// that have their own status to display. Callers that do not pass it — the
// toolbar button's onclick="formatSqlEditor()" — get `undefined`, which counts
// as false, so the message is shown by default.
function formatSqlEditor(quiet) {
    const editor = document.getElementById('sql-editor');
    const source = editor.value;

    // .trim() returns the string without leading or trailing whitespace, and
    // an empty string is falsy, so this reads as "if there is nothing but
    // blanks here". Nothing to do, and nothing went wrong, so report success.
    if (!source.trim()) return true;

    const formatted = formatSqlText(source);

    if (formatted === null) {
        // Tell the user why nothing happened. Without this the Format button
        // would appear simply not to work on SQL the formatter cannot handle.
        if (!quiet) {
            document.getElementById('sql-status').innerHTML =
                '<span class="sql-warning">Could not format this SQL — the text is unchanged.</span>';
        }
        return false;
    }

    // Only touch the editor when the text actually changed. Assigning to
    // .value moves the caret to the end of the textarea, so doing it
    // needlessly would jump the cursor on already-formatted SQL. The
    // highlight layer is rebuilt to match, exactly as every other edit does.
    if (formatted !== source) {
        editor.value = formatted;
        updateSqlHighlight();
    }

    return true;
}

// Handle Enter in the SQL editor when the Format setting is on: if the caret
// sits just past the ";" that ends a statement, reformat that one statement
// before inserting the newline. Formatting only completed statements is what
// makes this usable while typing — a half-written statement is never reflowed
// out from under the caret, because a statement the user is still typing has
// no ";" on it yet.
//
// Returns true if it handled the key (reformatting and inserting the newline
// itself), false to let the editor insert the newline normally.
//
// Only the one statement just completed is rewritten, not the whole editor.
// Formatting everything on every Enter would be simpler, but it would reflow
// text elsewhere in the buffer that the user may have laid out by hand.
//
// A textarea reports the caret through two numbers: .selectionStart and
// .selectionEnd, each an offset into .value. When nothing is selected the two
// are equal and both give the caret position; when text is selected they mark
// its two ends. Assigning to them moves the caret.
function formatSqlOnEnter(editor) {
    const text  = editor.value;
    const caret = editor.selectionStart;

    // If the two differ, the user has text selected and Enter is about to
    // replace it. Leave that alone — this path only handles typing forward.
    if (editor.selectionEnd !== caret) return false;

    const tokens = sqlFormatTok(text);
    if (tokens === null) return false;

    // -- Pass 1: is the caret sitting just past the end of a statement? ----
    //
    // Walk the tokens that lie entirely before the caret. `depth` counts
    // parentheses so that a ";" inside them (which would not be a statement
    // end) is ignored, and `endsHere` records whether the most recent
    // significant token was a top-level ";". Because it is reset to false by
    // every other token, it can only still be true at the end if a ";" was
    // genuinely the last thing before the caret.
    let depth      = 0;
    let stmtStart  = 0;   // offset just past that ";"
    let lastSig    = null;
    let endsHere   = false;

    for (const t of tokens) {
        // Stop at the first token that extends past the caret: `t.pos` is
        // where the token starts and adding its length gives where it ends,
        // so this keeps only tokens lying wholly behind the caret.
        if (t.pos + t.value.length > caret) break;
        if (t.type === 'ws' || t.type === 'comment') continue;

        if (t.type === 'op' && t.value === '(') depth++;
        else if (t.type === 'op' && t.value === ')') depth--;
        else if (t.type === 'op' && t.value === ';' && depth === 0) {
            stmtStart = t.pos + 1;
            endsHere  = true;
            lastSig   = t;
            continue;   // skip the reset below, so endsHere survives
        }

        lastSig  = t;
        endsHere = false;
    }

    if (!endsHere || lastSig === null) return false;

    // Everything between that ";" and the caret must be whitespace — if the
    // user has typed the start of the next statement already, this is not the
    // moment to reformat.
    if (text.slice(stmtStart, caret).trim() !== '') return false;

    // -- Pass 2: where did this statement begin? ---------------------------
    //
    // The same walk again, this time stopping before the ";" found above and
    // remembering the position just past the ";" before *that* one. If there
    // is no earlier ";", prevEnd stays 0 and the statement begins at the top
    // of the editor.
    let prevEnd = 0;
    depth       = 0;

    for (const t of tokens) {
        if (t.pos >= stmtStart - 1) break;
        if (t.type === 'ws' || t.type === 'comment') continue;

        if (t.type === 'op' && t.value === '(') depth++;
        else if (t.type === 'op' && t.value === ')') depth--;
        else if (t.type === 'op' && t.value === ';' && depth === 0) prevEnd = t.pos + 1;
    }

    // -- Rebuild the text with just that statement reformatted -------------
    //
    // `region` is the statement including whatever blank space separated it
    // from the previous one. That separation is the user's, not the
    // formatter's, so it is split off and put back untouched: .match() on the
    // pattern /^\s*/ ("any run of whitespace at the very start") returns an
    // array whose [0] entry is the matched text, which is '' when the
    // statement starts immediately.
    const region    = text.slice(prevEnd, stmtStart);
    const lead      = region.match(/^\s*/)[0];
    const formatted = formatSqlText(region.slice(lead.length));

    if (formatted === null) return false;

    // Everything up to and including the reformatted statement, plus the
    // newline this keypress is meant to insert.
    const head = text.slice(0, prevEnd) + lead + formatted + '\n';

    editor.value = head + text.slice(caret);

    // `a = b = value` assigns to both — collapsing the selection to a plain
    // caret and placing it at the end of `head`, which is the start of the
    // fresh line the user just asked for.
    editor.selectionStart = editor.selectionEnd = head.length;

    updateSqlHighlight();

    return true;
}

// Preprocess raw SQL editor text into an array of complete statements.
//
// Rules applied in order:
//   1. Lines whose first non-whitespace text is "//" are comments — dropped.
//   2. Blank lines are dropped.
//   3. Lines are accumulated across newlines until a ";" appears at the end of
//      the accumulated text (ignoring trailing whitespace). The end of the
//      buffer is treated as an implied ";", so the last statement is always
//      emitted even without an explicit semicolon.
//
// The returned array contains one element per complete SQL statement.
function preprocessSql(text) {
    // Step 0: strip comments. Rule 3 below joins continuation lines with a
    // space, which would pull whatever follows a trailing "--" comment onto
    // the same line and comment it out. Removing comments up front avoids
    // that entirely, and matters more now that the formatter routinely
    // produces multi-line statements. sqlFormatTok() knows which "--", "//",
    // "#" and "/* */" runs are real comments and which are just characters
    // inside a string literal; if it cannot tokenize the text at all, fall
    // through with the original and let the line-level rules below cope.
    const tokens = sqlFormatTok(text);

    if (tokens !== null) {
        // .map() builds a new array by calling the given function once per
        // token and collecting what it returns; .join('') then glues those
        // pieces back into one string. Since sqlFormatTok is lossless,
        // returning t.value unchanged for every token would reproduce the
        // original text exactly — so replacing just the comment tokens edits
        // them out and leaves everything else byte for byte as it was.
        text = tokens.map(t => {
            if (t.type !== 'comment') return t.value;
            // A block comment becomes whitespace of the same shape, so it
            // still separates the tokens on either side of it and any lines
            // it spanned stay separate — without this, "a/*x*/b" would become
            // the single word "ab". A line comment always runs to a newline,
            // so dropping it outright cannot join two tokens.
            //
            // In the pattern, [^\n] means "any character except a newline"
            // (a leading ^ inside brackets negates the set), and the trailing
            // g flag makes .replace() act on every match rather than only the
            // first — so every character but the line breaks becomes a space.
            return t.value.startsWith('/*') ? t.value.replace(/[^\n]/g, ' ') : '';
        }).join('');
    }

    // Steps 1 & 2: drop comment lines and blank lines.
    const raw = text.split('\n').filter(line => {
        const t = line.trim();
        return t.length > 0 && !t.startsWith('//');
    });

    // Step 3: join continuation lines (those not ending with ";") into single
    // statements, emitting each statement as one array element.
    const stmts = [];
    let current = '';

    for (const line of raw) {
        current = current.length > 0
            ? current + ' ' + line.trim()
            : line.trim();

        if (/;\s*$/.test(current)) {
            stmts.push(current.trimEnd());
            current = '';
        }
    }

    // Emit any trailing content (implied ";" at end of buffer).
    if (current.trim().length > 0) stmts.push(current.trim());

    return stmts;
}

// Execute the SQL commands — preprocesses the editor text into a clean array
// of statements, then PUT the array to the server and render the result.
async function submitSql() {
    const dsn = document.getElementById('sql-dsn-picker').value;

    if (!dsn)  { document.getElementById('sql-status').textContent = 'Select a DSN first.'; return; }

    // When the Format setting is on, tidy the editor before running, the same
    // way the Code tab reformats its source ahead of a Run. Formatting is
    // quiet here and never blocks the run: SQL it cannot format is submitted
    // exactly as the user typed it.
    if (codeFormatEnabled) formatSqlEditor(true);

    const text = document.getElementById('sql-editor').value;

    if (!text.trim()) { document.getElementById('sql-status').textContent = 'Enter SQL commands first.'; return; }

    const stmts = preprocessSql(text);
    if (stmts.length === 0) {
        document.getElementById('sql-status').textContent = 'No statements to execute.';
        return;
    }

    // Step 4: warn when a non-final statement begins with SELECT \u2014 the server
    // only returns results for the last statement, so earlier SELECTs are lost.
    const selectInMiddle = stmts.slice(0, -1).some(s => /^\s*select\b/i.test(s));
    const warning = selectInMiddle
        ? '<span class="sql-warning">Warning: only the last statement\u2019s results'
          + ' are returned \u2014 SELECT statements that are not last will be'
          + ' discarded.</span><br>'
        : '';

    document.getElementById('sql-status').innerHTML  = warning + '<span style="color:#666;">Running\u2026</span>';
    document.getElementById('sql-results').innerHTML = '';
    document.getElementById('sql-elapsed').textContent = '';

    try {
        const token = getToken();
        // Note the method is now POST instead of PUT, because the server's SQL 
        // endpoint is not idempotent: it may create or modify data, and the same
        // request repeated could have different effects. This is a change from
        // the old specification that used PUT for SQL execution, which is now 
        // considered incorrect.
        const res = await fetch('/dsns/' + encodeURIComponent(dsn) + '/tables/@sql', {
            method:  'POST',
            headers: {
                'Content-Type':  'application/json',
                'Authorization': token ? 'Bearer ' + token : '',
            },
            body: JSON.stringify(stmts),
        });

        if (res.status === 401) {
            clearToken();
            showLogin('Session expired. Please sign in again.');
            return;
        }

        const data = await res.json();

        if (!res.ok) {
            const rawMsg = data.msg || 'HTTP ' + res.status;
            document.getElementById('sql-status').innerHTML =
                '<span class="sql-error">' + escapeHtml(stripErrorPrefix(rawMsg)) + '</span>';
            return;
        }

        // Successful response — show either a result table or a row-count message.
        if (data.elapsed) {
            document.getElementById('sql-elapsed').textContent = 'Ran in ' + data.elapsed;
        }
        if (data.rows && data.rows.length > 0) {
            document.getElementById('sql-status').innerHTML = '';
            renderSqlResults(data.rows, data.columns);
        } else {
            const count = data.count != null ? data.count : 0;
            document.getElementById('sql-status').innerHTML =
                '<span style="color:#2a7; font-size:0.9rem;">' + "Success, " + count
                + (count === 1 ? ' row affected.' : ' rows affected.') + '</span>';
            document.getElementById('sql-results').innerHTML = '';
        }

        // If any submitted statement was an ALTER, the Data tab's cached column
        // metadata may be stale. Re-fetch it silently so the next Data tab visit
        // (or the current one if it is already open) reflects the new schema.
        if (stmts.some(s => /^\s*alter\b/i.test(s))) {
            loadDataMeta();
        }
    } catch (e) {
        if (e.message !== 'Unauthorized') {
            document.getElementById('sql-status').innerHTML =
                '<span class="sql-error">' + escapeHtml(stripErrorPrefix(e.message)) + '</span>';
        }
    }
}

// Strip a leading "Error: " prefix from error text returned by the server.
function stripErrorPrefix(msg) {
    return msg.startsWith('Error: ') ? msg.slice(7) : msg;
}

// Render an array of row objects as an HTML table in the results area.
// If columns is a non-empty array it dictates column order; otherwise column
// names are derived from the keys of the first row. _row_id_ is always hidden.
function renderSqlResults(rows, columns) {
    const cols = (Array.isArray(columns) && columns.length > 0)
        ? columns.filter(k => k !== '_row_id_')
        : Object.keys(rows[0]).filter(k => k !== '_row_id_');

    let html = '<table><thead><tr>';
    for (const col of cols) {
        html += '<th>' + escapeHtml(col) + '</th>';
    }
    html += '</tr></thead><tbody>';

    for (const row of rows) {
        html += '<tr>';
        for (const col of cols) {
            const val = row[col];
            if (val === null || val === undefined) {
                html += '<td class="sql-null">null</td>';
            } else {
                html += '<td>' + escapeHtml(String(val)) + '</td>';
            }
        }
        html += '</tr>';
    }

    html += '</tbody></table>';
    document.getElementById('sql-results').innerHTML = html;
}

// ==========================================================================
// SQL Generate overlay — turns a natural-language prompt into SQL via
// POST /dsns/{dsn}/tables/@generate.
// ==========================================================================

// AbortController for the in-flight /tables/@generate request, if any. Set by
// submitSqlGenerate() just before the fetch and aborted by hideSqlGenerate()
// so that clicking Cancel on a slow request actually cancels it, instead of
// letting it complete later and silently insert its result into the editor
// after the user has already moved on.
let _sqlGenerateController = null;

// Open the overlay. A DSN must already be selected, since the endpoint needs
// it to describe the available tables/columns to the AI model.
function showSqlGenerate() {
    const dsn = document.getElementById('sql-dsn-picker').value;
    if (!dsn) {
        document.getElementById('sql-status').textContent = 'Select a DSN before using Generate.';
        return;
    }

    document.getElementById('sql-generate-title').textContent = 'Generate SQL for ' + dsn.toUpperCase();
    document.getElementById('sql-generate-error').textContent = '';
    document.getElementById('sql-generate-prompt').value = '';
    document.getElementById('sql-generate-overlay').style.display = 'flex';
    document.getElementById('sql-generate-prompt').focus();
}

// Close the overlay and clear any error left over from a failed attempt.
// Aborts a still-in-flight /tables/@generate request, if any, so its response is
// never applied to the editor after the overlay has been dismissed.
function hideSqlGenerate() {
    if (_sqlGenerateController) {
        _sqlGenerateController.abort();
        _sqlGenerateController = null;
    }
    document.getElementById('sql-generate-overlay').style.display = 'none';
    document.getElementById('sql-generate-error').textContent = '';
}

// Send the prompt to the server. On success, insert the generated SQL into
// the editor and close the overlay. On failure, show the error in the
// overlay and leave it open so the user can revise the prompt or Cancel.
async function submitSqlGenerate() {
    const dsn      = document.getElementById('sql-dsn-picker').value;
    const prompt   = document.getElementById('sql-generate-prompt').value.trim();
    const errorEl  = document.getElementById('sql-generate-error');
    const submitEl = document.getElementById('sql-generate-submit-btn');

    errorEl.textContent = '';

    if (!dsn) {
        errorEl.textContent = 'Select a DSN before using Generate.';
        return;
    }
    if (!prompt) {
        errorEl.textContent = 'Describe the SQL statement you want.';
        return;
    }

    submitEl.disabled = true;

    const controller = new AbortController();
    _sqlGenerateController = controller;

    try {
        const token = getToken();
        const res = await fetch('/dsns/' + encodeURIComponent(dsn) + '/tables/@generate', {
            method:  'POST',
            headers: {
                'Content-Type':  'application/json',
                'Authorization': token ? 'Bearer ' + token : '',
            },
            body:   JSON.stringify(prompt),
            signal: controller.signal,
        });

        if (res.status === 401) {
            clearToken();
            hideSqlGenerate();
            showLogin('Session expired. Please sign in again.');
            return;
        }

        const data = await res.json().catch(() => ({}));

        if (!res.ok) {
            errorEl.textContent = stripErrorPrefix(data.msg || 'HTTP ' + res.status);
            return;
        }

        insertSqlGenerate(data.sql, prompt);
        hideSqlGenerate();
    } catch (e) {
        // AbortError means the user clicked Cancel while the request was in
        // flight — hideSqlGenerate() already dismissed the overlay and reset
        // its error text, so there's nothing left to report here.
        if (e.name !== 'AbortError') {
            errorEl.textContent = 'Network error. Please try again.';
        }
    } finally {
        submitEl.disabled = false;
        _sqlGenerateController = null;
    }
}

// Wrap `text` into "-- "-prefixed comment lines no wider than `width`
// characters, breaking on word boundaries.
function wrapSqlComment(text, width) {
    const prefix       = '-- ';
    const maxTextWidth = width - prefix.length;
    const words        = text.split(/\s+/).filter(Boolean);
    const lines        = [];
    let line            = '';

    for (const word of words) {
        if (line && (line.length + 1 + word.length) > maxTextWidth) {
            lines.push(prefix + line);
            line = word;
        } else {
            line = line ? line + ' ' + word : word;
        }
    }
    if (line) lines.push(prefix + line);

    return lines.join('\n');
}

// Insert a comment reproducing the prompt (folded to 80-character-wide lines),
// followed by the generated SQL, at the cursor (replacing any current
// selection).
function insertSqlGenerate(sql, prompt) {
    const editor = document.getElementById('sql-editor');
    const start  = editor.selectionStart;
    const end    = editor.selectionEnd;
    const before = editor.value.substring(0, start);
    const after  = editor.value.substring(end);

    const sep = (before.length > 0 && !before.endsWith('\n')) ? '\n' : '';

    let statement = sql.trim();
    if (!/;\s*$/.test(statement)) statement += ';';

    const comment  = wrapSqlComment(prompt, 80);
    const inserted = sep + comment + '\n' + statement + '\n';

    editor.value = before + inserted + after;
    editor.selectionStart = editor.selectionEnd = start + inserted.length;
    editor.focus();
    updateSqlHighlight();
}

