// dashboard-ui.js
// Shell and session UI: tab switching, the login overlay, the new-user,
// new-DSN and edit-user sheets, the server info header, the hamburger menu,
// the settings sheet, and the Log tab with its logger configuration.
//
// THE DASHBOARD (HTML, CSS, AND JAVASCRIPT) WERE PROTOTYPED BY CLAUDE
// CODE, and extended by both Claude Code and human developers. The dashboard
// code is reviewed and tested by humans before any changes are committed.
// The dashboard uses api endpoints in the Ego  server that were written by
// humans, as is the rest of the Ego server.
//
// LOAD ORDER MATTERS. These files are plain <script> tags, not modules, so
// they all share one global scope -- but a function declaration is hoisted
// only within its own file. Anything that runs immediately at the top level
// may therefore only call functions declared in the same file or an earlier
// one. Deferred code (event handlers, callbacks, timers) is unrestricted,
// because by the time it runs every file has loaded. dashboard.html lists the
// files in this order:
//
//     dashboard-core.js        cookies, settings, token, idle timer, fetch
//     dashboard-admin.js       tab loaders, DSN permission and config sheets
//     dashboard-data.js        Data tab and its row editor
//     dashboard-sql.js         SQL tab, highlighting, and the SQL formatter
//     dashboard-sqlwizard.js   Build wizard and the SQL statement parser
//     dashboard-ui.js          tab switching, login, user/DSN sheets, log tab
//     dashboard-code.js        Code tab: editor, run, debugger, console
//     dashboard-startup.js     entry point, then passkey support
//
// Note also that names declared at the top level of any of these files are
// shared across all of them. The minifier deliberately never renames such
// names (see internal/util/javascript/minify.go), which is what makes serving
// them as separate files safe.
//
// ==========================================================================
// Tab switching
// ==========================================================================

// Tracks which tab is currently visible so we can reload it after the user
// logs in. Declared with "let" so it can be reassigned.
let activeTab = 'memory';

// Show the tab identified by tabId, hide all others, and load its data.
// Called from onclick attributes in the HTML, e.g.:
//   <div onclick="openTab('memory')">Memory</div>
function openTab(tabId) {
    activeTab = tabId;
    setCookie(COOKIE_ACTIVE_TAB, tabId, SETTINGS_MAX_AGE);

    // getElementsByClassName returns a live HTMLCollection (like an array)
    // of every element that has the class "tab-content". We loop through
    // them all and hide each one by setting its CSS display property to 'none'.
    var tabContents = document.getElementsByClassName('tab-content');
    for (var i = 0; i < tabContents.length; i++) {
        tabContents[i].style.display = 'none';
    }

    // querySelectorAll('.tab-container > div') selects every direct <div>
    // child of the element with class "tab-container" — i.e. the tab buttons.
    // We remove 'active-tab' from all of them so only the new one gets it.
    var tabs = document.querySelectorAll('.tab-container > div');
    for (var i = 0; i < tabs.length; i++) {
        tabs[i].classList.remove('active-tab');
        tabs[i].classList.add('inactive-tab');
    }

    // Make the selected tab's content visible.
    // The code tab is a flex column, so it needs display:'flex' rather than 'block'.
    // Some tabs need display:flex rather than display:block to support internal scrolling.
    // 'users', 'dsns', and 'tables' were previously plain display:'block' panes with no
    // scrollable region at all -- a table longer than the viewport was simply clipped
    // with no way to reach the rest of it. Flex-column (matching 'data'/'memory') gives
    // their *-content div a bounded height so its own overflow-y:auto can take over.
    const flexTabs = new Set(['code', 'log', 'data', 'sql', 'users', 'dsns', 'tables']);
    document.getElementById(tabId).style.display = flexTabs.has(tabId) ? 'flex' : 'block';

    // Find the tab button whose onclick attribute matches tabId and highlight it.
    // querySelector() returns the first element in the document that matches
    // the CSS selector string — here we're searching by attribute value.
    document.querySelector('[onclick="openTab(\'' + tabId + '\')"]').classList.add('active-tab');

    // Invoke the loader function for this tab. tabLoaders is declared in
    // dashboard-startup.js, which loads after this file — reading it here is
    // safe because this runs on a click, long after every file has loaded.
    tabLoaders[tabId]();
}

// ==========================================================================
// Login overlay
// ==========================================================================

// Display the login overlay, optionally showing an error message (e.g.
// "Session expired"). Clears the form fields so previous input isn't visible.
// The overlay uses CSS display:flex to center the login card on screen.
function showLogin(message) {
    deleteCookie(COOKIE_ACTIVE_TAB);   // next login always starts at the default tab

    // Restore all tab buttons to visible. The next login will re-apply the
    // correct visibility for whoever logs in, which may be a different user
    // with different permissions than the previous session.
    PERMISSION_TABS.forEach(tabId => {
        const btn = document.querySelector('.tab-container .' + tabId);
        if (btn) btn.style.display = '';
    });

    document.getElementById('login-error').textContent = message || '';
    document.getElementById('login-username').value = '';
    document.getElementById('login-password').value = '';
    document.getElementById('login-overlay').style.display = 'flex';
    document.getElementById('login-username').focus(); // put the cursor in the username field
}

// Hide the login overlay by resetting its display property to 'none'.
function hideLogin() {
    document.getElementById('login-overlay').style.display = 'none';
}

// Send the username and password to the server. On success, store the
// returned token in memory and reload the active tab. On failure, show
// an error message inside the login form.
async function submitLogin() {
    const username = document.getElementById('login-username').value.trim(); // trim() removes leading/trailing spaces
    const password = document.getElementById('login-password').value;

    // Validate locally before making a network call.
    if (!username || !password) {
        document.getElementById('login-error').textContent = 'Please enter a username and password.';
        return; // stop here — don't submit an incomplete form
    }

    // Disable the button while the request is in flight so the user can't
    // click it multiple times and send duplicate requests.
    document.getElementById('login-btn').disabled = true;

    // Clear any existing token before sending the login request so that
    // no Authorization header is attached to the logon call.
    clearToken();

    try {
        // POST the credentials as a JSON body. The "source" field identifies
        // this request as coming from the dashboard so the server can log it.
        const res = await fetch('/services/admin/logon', {
            method:  'POST',
            headers: { 'Content-Type': 'application/json' },
            body:    JSON.stringify({ username, password, source: 'Dashboard' }),
        });

        const data = await res.json();

        // res.ok is true for 2xx status codes. If the server returned an
        // error status, or if the response JSON has no "token" field,
        // show the server's message (or a generic fallback).
        if (!res.ok || !data.token) {
            document.getElementById('login-error').textContent =
                data.message || 'Login failed. Please try again.';
            return;
        }

        // The server returns the account's permission list rather than
        // discrete flags. Any account that can log in at all is allowed to
        // use the baseline DSNs/Tables/Data tabs, so there is no permission
        // check here that could refuse the login outright.
        const roles = rolesFromPermissions(data.permissions);

        // Success — store the token and role, apply the server's idle-timeout
        // setting, then reset the inactivity clock.
        setToken(data.token);
        setRole(roles.admin, roles.serverAdmin, roles.coder, roles.sql, roles.dsnAdmin, data.identity);
        setIdleTimeout(data.inactivityTimeout);
        lastActivity = Date.now();
        hideLogin();

        // Show or hide tab buttons to match this user's role.
        applyTabVisibility();

        // After a password login, offer to create a passkey if the browser
        // supports WebAuthn and the user hasn't previously declined.
        maybeOfferPasskeyAfterLogin();

        // Open the last active tab for server admins; everyone else always
        // lands on whichever of Code/SQL/DSNs their permissions unlock.
        openTab(_isServerAdmin ? activeTab : defaultNonAdminTab());

    } catch (e) {
        // fetch() itself throws only for network-level failures (no connection,
        // DNS failure, etc.) — HTTP error statuses do NOT throw.
        document.getElementById('login-error').textContent = 'Network error. Please try again.';
    } finally {
        // "finally" runs whether the try block succeeded or threw an error,
        // so the button is always re-enabled when the request completes.
        document.getElementById('login-btn').disabled = false;
    }
}

// addEventListener attaches a function to run when a specific event occurs
// on an element. Here we listen for 'keydown' on the two text inputs so the
// user can press Enter to submit instead of clicking the Sign In button.
document.getElementById('login-password').addEventListener('keydown', e => {
    if (e.key === 'Enter') submitLogin(); // e.key is the name of the key that was pressed
});
document.getElementById('login-username').addEventListener('keydown', e => {
    if (e.key === 'Enter') submitLogin();
});
// Wire the Sign In button's click event to the same submit function.
document.getElementById('login-btn').addEventListener('click', submitLogin);

// ==========================================================================
// New User sheet
// ==========================================================================

// Open the slide-in panel used to create a new user account.
// Resets all fields and error text each time so stale data from a previous
// attempt isn't shown.
function showNewUserSheet() {
    document.getElementById('new-user-error').textContent = '';
    document.getElementById('new-user-name').value = '';
    document.getElementById('new-user-password').value = '';
    document.getElementById('new-user-permissions').value = '';
    document.getElementById('new-user-overlay').style.display = 'flex';
    captureBaseline('new-user-overlay');
    document.getElementById('new-user-name').focus();
}

// Close the slide-in panel without saving.
function hideNewUserSheet() {
    document.getElementById('new-user-overlay').style.display = 'none';
}

// Read the form fields, validate them, and POST the new user to the server.
async function submitNewUser() {
    const name     = document.getElementById('new-user-name').value.trim();
    const password = document.getElementById('new-user-password').value;
    const permsRaw = document.getElementById('new-user-permissions').value;

    // The permissions field accepts a comma-separated list like "ego.logon, ego.admin".
    // split(',') breaks it into an array, map(trim) removes spaces around each item,
    // and filter(length > 0) drops any empty strings left by trailing commas.
    const permissions = permsRaw.split(',').map(p => p.trim()).filter(p => p.length > 0);

    if (!name || !password) {
        document.getElementById('new-user-error').textContent = 'Username and password are required.';
        return;
    }

    document.getElementById('new-user-save-btn').disabled = true;

    try {
        const token = getToken();
        const res = await fetch('/admin/users', {
            method:  'POST',
            headers: {
                'Content-Type':  'application/json',
                'Authorization': token ? 'Bearer ' + token : '',
            },
            // The server expects a specific JSON shape. The "id" field uses a
            // nil UUID (all zeros) to signal that the server should assign a
            // real UUID to the new user record.
            body: JSON.stringify({
                name,
                id:          '00000000-0000-0000-0000-000000000000',
                password,
                permissions,
            }),
        });

        if (!res.ok) {
            // Auth failure — discard the token and prompt for login.
            if (res.status === 401) {
                clearToken();
                hideNewUserSheet();
                showLogin('Session expired. Please sign in again.');
                return;
            }
            // Other server error — read the "msg" field from the response body
            // and display it. .catch(() => ({})) provides an empty object as a
            // fallback if the response body isn't valid JSON.
            const data = await res.json().catch(() => ({}));
            document.getElementById('new-user-error').textContent =
                data.msg || 'Failed to create user (HTTP ' + res.status + ').';
            return;
        }

        // Success — close the sheet and refresh the user list to show the new entry.
        hideNewUserSheet();
        loadUsers();
    } catch (e) {
        document.getElementById('new-user-error').textContent = 'Network error. Please try again.';
    } finally {
        document.getElementById('new-user-save-btn').disabled = false;
    }
}

// ==========================================================================
// New DSN sheet
// ==========================================================================

// Open the slide-in panel used to create a new DSN.
// Resets all fields and error text each time so stale data from a previous
// attempt isn't shown.
function showNewDsnSheet() {
    document.getElementById('new-dsn-error').textContent    = '';
    document.getElementById('new-dsn-name').value           = '';
    document.getElementById('new-dsn-provider').value       = 'postgres';
    document.getElementById('new-dsn-host').value           = '';
    document.getElementById('new-dsn-port').value           = '';
    document.getElementById('new-dsn-database').value       = '';
    document.getElementById('new-dsn-schema').value         = '';
    document.getElementById('new-dsn-user').value           = '';
    document.getElementById('new-dsn-secured').checked      = false;
    document.getElementById('new-dsn-restricted').checked   = false;
    document.getElementById('new-dsn-rowid').checked        = true;
    document.getElementById('new-dsn-overlay').style.display = 'flex';
    captureBaseline('new-dsn-overlay');
}

// Close the slide-in panel without saving.
function hideNewDsnSheet() {
    document.getElementById('new-dsn-overlay').style.display = 'none';
}

// Read the form fields, validate them, and POST the new DSN to the server.
async function submitNewDsn() {
    const name       = document.getElementById('new-dsn-name').value.trim();
    const provider   = document.getElementById('new-dsn-provider').value;
    const host       = document.getElementById('new-dsn-host').value.trim();
    const portRaw    = document.getElementById('new-dsn-port').value.trim();
    const database   = document.getElementById('new-dsn-database').value.trim();
    const schema     = document.getElementById('new-dsn-schema').value.trim();
    const user       = document.getElementById('new-dsn-user').value.trim();
    const secured    = document.getElementById('new-dsn-secured').checked;
    const restricted = document.getElementById('new-dsn-restricted').checked;
    const rowid      = document.getElementById('new-dsn-rowid').checked;

    if (!name) {
        document.getElementById('new-dsn-error').textContent = 'Name is required.';
        return;
    }

    let port = 0;
    if (portRaw !== '') {
        port = parseInt(portRaw, 10);
        if (!Number.isInteger(port) || port <= 0 || String(port) !== portRaw) {
            document.getElementById('new-dsn-error').textContent = 'Port must be a positive integer.';
            return;
        }
    }

    document.getElementById('new-dsn-save-btn').disabled = true;

    try {
        const token = getToken();
        const res = await fetch('/dsns', {
            method:  'POST',
            headers: {
                'Content-Type':  'application/json',
                'Authorization': token ? 'Bearer ' + token : '',
            },
            body: JSON.stringify({ name, provider, database, schema, host, port, user, secured, restricted, rowid }),
        });

        if (!res.ok) {
            if (res.status === 401) {
                clearToken();
                hideNewDsnSheet();
                showLogin('Session expired. Please sign in again.');
                return;
            }
            const data = await res.json().catch(() => ({}));
            document.getElementById('new-dsn-error').textContent =
                data.msg || 'Failed to create DSN (HTTP ' + res.status + ').';
            return;
        }

        hideNewDsnSheet();
        loadDsns();
    } catch (e) {
        document.getElementById('new-dsn-error').textContent = 'Network error. Please try again.';
    } finally {
        document.getElementById('new-dsn-save-btn').disabled = false;
    }
}

// ==========================================================================
// Edit User sheet
// ==========================================================================

// Open the slide-in edit panel, pre-populated with the user's current values.
// name and perms come from the data attributes set on the table row.
function showEditUserSheet(name, perms, passkeys, lastToken) {
    document.getElementById('edit-user-error').textContent = '';
    document.getElementById('edit-user-name').value        = name;
    document.getElementById('edit-user-password').value   = '';
    document.getElementById('edit-user-permissions').value = perms;
    const passkeyCount = document.getElementById('edit-user-passkey-count');
    if (passkeyCount) passkeyCount.textContent = passkeys != null ? passkeys : '0';
    const lastLoginEl = document.getElementById('edit-user-last-login');
    if (lastLoginEl) {
        lastLoginEl.value = lastToken && !lastToken.startsWith('0001')
            ? new Date(lastToken).toLocaleString()
            : '—';
    }

    // The passkey registration button is only meaningful when editing your own
    // account — WebAuthn requires the device owner to be present for biometric
    // verification, so an admin cannot register a passkey on behalf of another
    // user.  Also hide it when the browser does not support WebAuthn.
    const ownAccount = _currentUser && name.toLowerCase() === _currentUser.toLowerCase();
    const passkeyBtn = document.getElementById('edit-user-passkey-btn');
    if (passkeyBtn) {
        passkeyBtn.style.display = (passkeysActive() && ownAccount && window.PublicKeyCredential) ? '' : 'none';
    }

    // The clear-passkey button is available to server admins (for any user)
    // and to the account owner for their own account.
    const clearPasskeyBtn = document.getElementById('edit-user-clear-passkey-btn');
    if (clearPasskeyBtn) {
        clearPasskeyBtn.style.display = (passkeysActive() && (_isServerAdmin || ownAccount)) ? '' : 'none';
    }

    document.getElementById('edit-user-overlay').style.display = 'flex';
    captureBaseline('edit-user-overlay');
    document.getElementById('edit-user-permissions').focus();
}

// Close the edit sheet without saving.
function hideEditUserSheet() {
    document.getElementById('edit-user-overlay').style.display = 'none';
}

// Read the edit form fields and PATCH the updated user to the server.
async function submitEditUser() {
    const name     = document.getElementById('edit-user-name').value;
    const password = document.getElementById('edit-user-password').value;
    const permsRaw = document.getElementById('edit-user-permissions').value;

    // Split the permissions string back into an array, trimming whitespace and
    // dropping any empty entries left by trailing commas.
    const permissions = permsRaw.split(',').map(p => p.trim()).filter(p => p.length > 0);

    // Build the PATCH body. The server ignores a blank password (no change).
    // We always send permissions so the server replaces the current list.
    const body = { name, permissions };
    if (password) body.password = password;

    document.getElementById('edit-user-save-btn').disabled = true;

    try {
        const token = getToken();
        const res = await fetch('/admin/users/' + encodeURIComponent(name), {
            method:  'PATCH',
            headers: {
                'Content-Type':  'application/json',
                'Authorization': token ? 'Bearer ' + token : '',
            },
            body: JSON.stringify(body),
        });

        if (res.status === 401) {
            clearToken();
            hideEditUserSheet();
            showLogin('Session expired. Please sign in again.');
            return;
        }

        if (!res.ok) {
            const data = await res.json().catch(() => ({}));
            document.getElementById('edit-user-error').textContent =
                data.msg || 'Failed to update user (HTTP ' + res.status + ').';
            return;
        }

        // Success — close the sheet and refresh the list to show the updated record.
        hideEditUserSheet();
        loadUsers();
    } catch (e) {
        document.getElementById('edit-user-error').textContent = 'Network error. Please try again.';
    } finally {
        document.getElementById('edit-user-save-btn').disabled = false;
    }
}

// Send DELETE /admin/users/{name} and close the sheet on success.
async function submitDeleteUser() {
    const name = document.getElementById('edit-user-name').value;

    if (!confirm('Delete user "' + name + '"? This cannot be undone.')) return;

    document.getElementById('edit-user-delete-btn').disabled = true;

    try {
        const token = getToken();
        const res = await fetch('/admin/users/' + encodeURIComponent(name), {
            method:  'DELETE',
            headers: token ? { 'Authorization': 'Bearer ' + token } : {},
        });

        if (res.status === 401) {
            clearToken();
            hideEditUserSheet();
            showLogin('Session expired. Please sign in again.');
            return;
        }

        if (!res.ok) {
            const data = await res.json().catch(() => ({}));
            document.getElementById('edit-user-error').textContent =
                data.msg || 'Failed to delete user (HTTP ' + res.status + ').';
            return;
        }

        hideEditUserSheet();
        loadUsers();
    } catch (e) {
        document.getElementById('edit-user-error').textContent = 'Network error. Please try again.';
    } finally {
        document.getElementById('edit-user-delete-btn').disabled = false;
    }
}

// ==========================================================================
// Server info
//
// Fetches /services/up (no authentication required) and caches the server's
// name, version, UUID, and start time in global variables. This runs
// immediately on page load, before the user even logs in, so the values are
// ready by the time showConfigSheet() displays them in the Configuration
// sheet (and loadMemory() uses the start time for Metrics' Uptime row).
// ==========================================================================
async function loadServerInfo() {
    try {
        const res = await fetch('/services/up'); // no apiFetch — this endpoint is public
        if (!res.ok) return; // silently skip if the server can't be reached
        const d = await res.json();

        _serverStartTime = d.since;
        _serverHostName  = d.server.name;
        _serverVersion   = d.version;
        _serverId        = d.server.id;
    } catch (e) {
        console.error('Could not load server info:', e);
    }
}

// ==========================================================================
// Logoff
// ==========================================================================

// ==========================================================================
// Hamburger menu
// ==========================================================================

// Toggle the dropdown open/closed. Refreshes the "Logging in as <name>"
// reminder line (and its separator) each time it opens, so it always
// reflects whoever is currently authenticated -- hidden entirely when
// no one is logged in (e.g. the login overlay is still showing).
function toggleHamburgerMenu() {
    const dropdown = document.getElementById('hamburger-dropdown');
    const btn      = document.getElementById('hamburger-btn');
    const isOpen   = dropdown.classList.contains('open');
    if (!isOpen) {
        const userLine  = document.getElementById('hamburger-user');
        const separator = document.getElementById('hamburger-separator');
        userLine.textContent = _currentUser ? 'Logging in as ' + _currentUser : '';
        userLine.style.display  = _currentUser ? '' : 'none';
        separator.style.display = _currentUser ? '' : 'none';
    }
    dropdown.classList.toggle('open', !isOpen);
    btn.setAttribute('aria-expanded', String(!isOpen));
}

// Close the dropdown.
function closeHamburgerMenu() {
    document.getElementById('hamburger-dropdown').classList.remove('open');
    document.getElementById('hamburger-btn').setAttribute('aria-expanded', 'false');
}

// Close the dropdown when the user clicks anywhere outside the menu.
document.addEventListener('click', e => {
    const menu = document.getElementById('hamburger-menu');
    if (menu && !menu.contains(e.target)) {
        closeHamburgerMenu();
    }
});


// ==========================================================================
// Help display
// ==========================================================================

function showHelp() {
    window.open('https://tucats.github.io/ego/DASHBOARD.html', '_blank');
}

// ==========================================================================
// Settings sheet
// ==========================================================================

// Highlight the single .settings-segmented-btn matching value inside the
// segmented control identified by containerId (see the Dark mode row).
function syncSegmented(containerId, value) {
    document.querySelectorAll('#' + containerId + ' .settings-segmented-btn').forEach(btn => {
        btn.classList.toggle('active', btn.dataset.value === value);
    });
}

// Open the settings sheet and sync all toggles to their stored preferences.
function showSettings() {
    document.getElementById('setting-remember-login').checked = getRememberLogin();
    syncSegmented('setting-dark-mode', getDarkMode());
    document.getElementById('setting-toolbar-style').checked  = getToolbarStyle() === 'text';
    document.getElementById('setting-use-passkeys').checked   = getUsePasskeys();
    document.getElementById('setting-format').checked         = codeFormatEnabled;
    document.getElementById('setting-console').checked        = getShowConsole();
    document.getElementById('settings-overlay').style.display = 'flex';
}

// Close the settings sheet.
function hideSettings() {
    document.getElementById('settings-overlay').style.display = 'none';
}

// Wire up both settings toggles once the DOM is ready.
document.addEventListener('DOMContentLoaded', () => {
    // "Remember login" — persist token as a cookie. setRememberLogin() already
    // deletes any stale token/role/identity cookie when turned off; when
    // turned on while already logged in, write the current in-memory session
    // out too.
    document.getElementById('setting-remember-login').addEventListener('change', function () {
        setRememberLogin(this.checked);
        if (this.checked && _token) {
            setCookie(COOKIE_TOKEN, _token, TOKEN_MAX_AGE);
            setCookie(COOKIE_ROLE, roleCookieValue(), TOKEN_MAX_AGE);
            if (_currentUser) setCookie(COOKIE_IDENTITY, _currentUser, TOKEN_MAX_AGE);
        }
    });

    // "Dark mode" — a 3-way segmented control (Auto / On / Off) rather than a
    // single checkbox; each button sets the preference to its own data-value
    // and re-highlights itself as the active choice.
    document.querySelectorAll('#setting-dark-mode .settings-segmented-btn').forEach(btn => {
        btn.addEventListener('click', function () {
            setDarkMode(this.dataset.value);
            syncSegmented('setting-dark-mode', this.dataset.value);
        });
    });

    // "Use Text Buttons" — applied app-wide via a body class; see
    // applyToolbarStyle() in dashboard-core.js. Checked (the default) means
    // "text", unchecked means "icons".
    document.getElementById('setting-toolbar-style').addEventListener('change', function () {
        setToolbarStyle(this.checked ? 'text' : 'icons');
    });

    // "Use passkeys" — re-applies passkey UI immediately so the login button
    // appears or disappears without needing a page reload.
    document.getElementById('setting-use-passkeys').addEventListener('change', function () {
        setUsePasskeys(this.checked);
    });

    // "Format" — persisted via the code-format cookie; read by runEditorCode().
    document.getElementById('setting-format').addEventListener('change', function () {
        codeFormatEnabled = this.checked;
        setCodeFormat(this.checked);
    });

    // "Console" — persists the preference and immediately applies it, in case
    // the Code tab is already open behind the Settings sheet.
    document.getElementById('setting-console').addEventListener('change', function () {
        setShowConsole(this.checked);
        applyConsoleVisible(this.checked);
    });
});

// ==========================================================================
// Logoff
// ==========================================================================

// Clear the token (memory + cookie) and show the login overlay.
// Called from the hamburger menu's "Log Out" item.
function logoff() {
    clearToken();                  // erases both _token and the persisted cookie
    codeSessionUUID = null;        // invalidate the server-side symbol table UUID
    showLogin();
}

// ==========================================================================
// Log tab — fetch and display the last 500 server log lines
//
// The endpoint is GET /services/admin/log?tail=500.  When the Accept header
// is text/plain the server returns raw newline-delimited log text, which we
// display verbatim inside a <pre> block.  The Refresh button and switching
// to this tab both call loadLog() so the view is always up to date.
// ==========================================================================

// Raw log text from the last fetch. Kept so search can re-highlight without
// making a new network request.
let logRawText = '';

// Search state: the array of all <mark> elements rendered in the current
// search, and the index of the currently highlighted one.
let logMatches     = [];
let logMatchIndex  = -1;

// Update the "< 3 / 18 >" stepper pill next to the search box.
//
// Pass a total of zero to mean "nothing to step through": with no search term
// at all (hide === true) the pill disappears entirely, and after a search that
// found nothing it stays visible showing "0 / 0" with both arrows disabled, so
// the user gets an answer rather than a control that silently vanished.
//
// `position` is 1-based (the number the user reads), not the 0-based
// logMatchIndex used internally.
function logSetSearchStatus(position, total, hide) {
    const nav   = document.getElementById('log-search-nav');
    const count = document.getElementById('log-search-status');
    // The two arrow buttons are the pill's only <button> children.
    const btns  = nav.querySelectorAll('.icon-pill-btn');

    // classList.toggle(name, flag) adds the class when flag is true and
    // removes it when false — a shorthand for an if/else around add/remove.
    nav.classList.toggle('visible', !hide);
    nav.classList.toggle('empty', total === 0);

    count.textContent = position + ' / ' + total;
    btns.forEach(b => { b.disabled = (total === 0); });
}

// Show the "x" inside the search box only when there is text to clear, so an
// empty field is just an empty field. Called on every keystroke and by any
// code that changes the field's value -- assigning to input.value from script
// does NOT fire an input event, so those callers must invoke this themselves.
function logSyncSearchClear() {
    const input = document.getElementById('log-search-input');

    document.getElementById('log-search-clear')
        .classList.toggle('visible', input.value.length > 0);
}

// Build the query string for a log request from the line count and the active
// filter.
//
// encodeURIComponent escapes characters that would otherwise be read as part of
// the URL's own syntax. It matters most for the message pattern, which may
// legitimately contain "?" -- a single-character wildcard to the server, but
// the start of the query string to a URL parser.
//
// Filters that are not set are left out of the URL entirely rather than sent
// empty. The server does accept an empty value and reads it as "no filter", so
// either would work; omitting them keeps the URL that shows up in the server's
// own request log to just the filters actually in force.
function logQueryString() {
    const parts = ['tail=' + getLogTail()];

    if (logFilterState.session > 0) {
        parts.push('session=' + logFilterState.session);
    }

    if (logFilterState.classes.length > 0) {
        parts.push('class=' + encodeURIComponent(logFilterState.classes.join(',')));
    }

    if (logFilterState.msg !== '') {
        parts.push('msg=' + encodeURIComponent(logFilterState.msg));
    }

    if (logFilterState.archive) {
        parts.push('archive=true');
    }

    if (logFilterState.since !== '') {
        parts.push('since=' + encodeURIComponent(logFilterState.since));
    }

    if (logFilterState.until !== '') {
        parts.push('until=' + encodeURIComponent(logFilterState.until));
    }

    if (logFilterState.serverId !== '') {
        parts.push('serverid=' + encodeURIComponent(logFilterState.serverId));
    }

    return parts.join('&');
}

// Fetch the last N log lines (N comes from getLogTail(), default 500), applying
// any active server-side filter, and render them into #log-content.
async function loadLog() {
    const container = document.getElementById('log-content');

    container.innerHTML = '<p style="padding:0.5rem;color:#666;">Loading\u2026</p>';

    // Clear any leftover search state from a previous load.
    logRawText    = '';
    logMatches    = [];
    logMatchIndex = -1;
    logSetSearchStatus(0, 0, true);

    try {
        const token = getToken();

        const res = await fetch('/services/admin/log?' + logQueryString(), {
            headers: {
                'Accept':        'text/plain',
                'Authorization': token ? 'Bearer ' + token : '',
            },
        });

        if (res.status === 401) {
            clearToken();
            showLogin('Session expired. Please sign in again.');
            return;
        }

        // The server rejects a filter it cannot honor -- an unknown logging
        // class, a malformed pattern, or a structured filter against a server
        // whose log is in text rather than JSON format. Its message names the
        // specific problem, so show that instead of a bare status code.
        if (res.status === 400) {
            const detail = await res.json().catch(() => ({}));

            container.innerHTML = '<p style="padding:0.5rem;color:#c0392b;">' +
                escapeHtml(detail.msg || 'The log filter was rejected by the server.') +
                '</p>';

            return;
        }

        if (!res.ok) {
            container.innerHTML = '<p style="padding:0.5rem;color:#c0392b;">Failed to load log (HTTP ' + res.status + ').</p>';
            return;
        }

        logRawText = await res.text();
        logRenderPlain();

        // Scroll to the bottom so the most recent lines are visible.
        container.scrollTop = container.scrollHeight;

    } catch (e) {
        if (e.message !== 'Unauthorized') {
            container.innerHTML = '<p style="padding:0.5rem;color:#c0392b;">Network error: ' + escapeHtml(e.message) + '</p>';
        }
    }
}

// Render the raw log text as plain content, with no search highlights.
function logRenderPlain() {
    const container = document.getElementById('log-content');
    const pre = document.createElement('pre');
    pre.textContent = logRawText;
    container.innerHTML = '';
    container.appendChild(pre);
}

// Scroll the log content area to the bottom. scrollTop is how far the content
// has been scrolled down, and scrollHeight is the full height of the content;
// setting the one to the other asks to scroll past the end, which the browser
// clamps to "as far down as it goes".
function logScrollToEnd() {
    const container = document.getElementById('log-content');
    container.scrollTop = container.scrollHeight;
}

// Scroll the log content area back to the top -- the oldest line fetched.
function logScrollToStart() {
    document.getElementById('log-content').scrollTop = 0;
}

// Build the highlighted HTML for the current search term and populate the
// match list. Called by logSearch() and reused by Prev/Next.
function logApplySearch(term) {
    const container = document.getElementById('log-content');

    if (!term) {
        logRenderPlain();
        logMatches    = [];
        logMatchIndex = -1;
        logSetSearchStatus(0, 0, true);
        return;
    }

    // Escape any regex special characters in the search term so a literal
    // string search is performed (e.g. "a.b" matches "a.b", not "axb").
    const escaped = term.replace(/[.*+?^${}()|[\]\\]/g, '\\$&');
    const re = new RegExp(escaped, 'gi'); // gi = global + case-insensitive

    // Walk the raw text and replace every match with a <mark> tag.
    // escapeHtml is applied to the non-matching segments so the surrounding
    // text is safe to inject as innerHTML.
    let html         = '';
    let lastIndex    = 0;
    let matchCount   = 0;
    const matchData  = []; // [{start, end}] for each match in the raw text

    let m;
    while ((m = re.exec(logRawText)) !== null) {
        // Escape the text between the previous match end and this match start.
        html += escapeHtml(logRawText.slice(lastIndex, m.index));
        // Wrap the matched text in a <mark>. Preserve original casing from source.
        html += '<mark>' + escapeHtml(m[0]) + '</mark>';
        matchData.push({ start: m.index, end: re.lastIndex });
        lastIndex = re.lastIndex;
        matchCount++;
    }
    // Escape any remaining text after the last match.
    html += escapeHtml(logRawText.slice(lastIndex));

    if (matchCount === 0) {
        logRenderPlain();
        logMatches    = [];
        logMatchIndex = -1;
        logSetSearchStatus(0, 0, false);
        return;
    }

    // Inject the highlighted HTML into a <pre> block.
    const pre = document.createElement('pre');
    pre.innerHTML = html;
    container.innerHTML = '';
    container.appendChild(pre);

    // querySelectorAll returns a NodeList, not a plain Array. Array.from()
    // converts it so we can use array indexing and .length in Prev/Next.
    logMatches    = Array.from(container.querySelectorAll('mark'));
    logMatchIndex = 0;

    logHighlightCurrent();
}

// Centre the given match vertically inside the log pane, scrolling ONLY that
// pane.
//
// The obvious call here is current.scrollIntoView({block:'center'}), and that
// is what this used to do -- but scrollIntoView scrolls every scrollable
// ancestor of the element, not just the nearest one. The whole page is a
// little taller than the window, so bringing a match into view also nudged the
// document down and slid the header off the top of the screen. There is no
// option to tell scrollIntoView "this container only", so the scroll position
// is computed by hand instead.
//
// getBoundingClientRect() gives an element's position in window coordinates.
// Subtracting the container's top from the match's top gives how far the match
// sits below the top of the visible pane; subtracting half the leftover height
// turns "put it at the top" into "put it in the middle". Assigning to
// container.scrollTop touches nothing outside the pane, and the browser clamps
// the value to the scrollable range, so matches near either end simply land as
// close to centre as they can get.
function logScrollMatchIntoView(current) {
    const container = document.getElementById('log-content');

    const containerTop = container.getBoundingClientRect().top;
    const matchRect    = current.getBoundingClientRect();

    const offsetInPane = matchRect.top - containerTop;
    const centreOffset = (container.clientHeight - matchRect.height) / 2;

    container.scrollTop += offsetInPane - centreOffset;
}

// Mark the current match as the active one (orange) and scroll it into view.
function logHighlightCurrent() {
    logMatches.forEach(m => m.classList.remove('log-match-current'));

    if (logMatches.length === 0) return;

    const current = logMatches[logMatchIndex];
    current.classList.add('log-match-current');
    logScrollMatchIntoView(current);

    logSetSearchStatus(logMatchIndex + 1, logMatches.length, false);
}

// Run a new search from the input field.
function logSearch() {
    const term = document.getElementById('log-search-input').value.trim();
    logApplySearch(term);
}

// Jump to the next match, wrapping around at the end.
function logSearchNext() {
    if (logMatches.length === 0) return;
    // The % operator is "modulo" — it gives the remainder after division.
    // Dividing by the list length makes the index wrap back to 0 after the
    // last match, so the search cycles continuously.
    logMatchIndex = (logMatchIndex + 1) % logMatches.length;
    logHighlightCurrent();
}

// Jump to the previous match, wrapping around at the start.
function logSearchPrev() {
    if (logMatches.length === 0) return;
    // Adding logMatches.length before the modulo prevents a negative result
    // when logMatchIndex is 0: (0 - 1) = -1, but (-1 % N) stays negative in
    // JavaScript, so we add N first to guarantee a positive number.
    logMatchIndex = (logMatchIndex - 1 + logMatches.length) % logMatches.length;
    logHighlightCurrent();
}

// Clear the search: restore plain text and reset state.
function logSearchClear() {
    const input = document.getElementById('log-search-input');

    input.value = '';
    logSyncSearchClear();
    // Put the caret back in the search box so the user can type a new term
    // straight away, rather than having to click back into the field.
    input.focus();

    logRenderPlain();
    logMatches    = [];
    logMatchIndex = -1;
    logSetSearchStatus(0, 0, true);
}

// Allow the user to press Enter in the search box to trigger a search,
// and Escape to clear it — without needing to click a button.
document.getElementById('log-search-input').addEventListener('keydown', e => {
    if (e.key === 'Enter')  { e.preventDefault(); logSearch(); }
    if (e.key === 'Escape') { e.preventDefault(); logSearchClear(); }
});

// Show or hide the in-field "x" as the user types. The input event fires for
// every change the user makes -- typing, pasting, cutting, undo -- which
// keydown alone would not cover.
document.getElementById('log-search-input')
    .addEventListener('input', logSyncSearchClear);

// ==========================================================================
// Log filter sheet
//
// The funnel in the Log toolbar opens this. Everything in it changes what the
// SERVER sends back, which is a different thing from the search box in the
// toolbar: search looks through lines already on screen, while a filter changes
// which lines are fetched at all.
//
// Filtering has to happen on the server because the log is structured there --
// one JSON object per line, carrying a session number, a logging class, and a
// message identifier such as "log.server.request". The server flattens those
// into a readable sentence on the way out, translating the identifier and
// substituting its arguments. By the time a line arrives here, the pieces a
// filter needs have been merged into prose, so the browser could not do this
// job even if we wanted it to.
//
// Since/Until can be typed as free text, or picked via the calendar glyph
// beside each field -- which is decorative only; the real, fully native
// <input type="datetime-local"> that opens the picker is stacked invisibly
// on top of it (see .datetime-picker-input in dashboard.css for why it is
// driven by ordinary browser clicks rather than by script). Either way,
// normalizeLogDateTime() below turns the value into RFC 3339 before it is
// stored or sent, using the browser's own Date parser -- the same thing
// new Date(...) already does with whatever the native picker produces, so
// one function covers both entry paths. A value the browser cannot make
// sense of is sent through unchanged rather than rejected here: the server
// falls back to the same flexible parser the "ego" command line's
// --since/--until options normalize through (see parseLogQueryTime in
// internal/router/admin.go), so typing something like "8/11/2026" still has
// a good chance of working even though this quick client-side pass does not
// recognize it.
// ==========================================================================

// Turn a Since/Until field's raw text into RFC 3339, or return it unchanged
// if the browser's Date parser cannot make sense of it.
function normalizeLogDateTime(raw) {
    const value = raw.trim();

    if (value === '') return '';

    const parsed = new Date(value);

    return isNaN(parsed.getTime()) ? value : parsed.toISOString();
}

// Copy whatever the native pickers produce into their paired text field. The
// picker's own value is already local-time text of the form
// "2026-08-12T14:30:00" -- one of the formats the server accepts directly --
// but it still goes through the sheet's normal Apply-time normalization like
// any typed value, so there is exactly one code path that decides what
// actually gets sent.
document.getElementById('log-filter-since-picker').addEventListener('change', function () {
    document.getElementById('log-filter-since').value = this.value;
});

document.getElementById('log-filter-until-picker').addEventListener('change', function () {
    document.getElementById('log-filter-until').value = this.value;
});

// Server ID only means anything together with Archive (see the comment
// beside logFilterState in dashboard-core.js), so the field is disabled
// whenever Archive is off -- and cleared at the same time, so unchecking
// Archive can never leave a stale value sitting behind a disabled control.
document.getElementById('log-filter-archive').addEventListener('change', function () {
    const serverIdField = document.getElementById('log-filter-serverid');

    serverIdField.disabled = !this.checked;

    if (!this.checked) {
        serverIdField.value = '';
    }
});

// Show the filter sheet, filling it in from the filter currently in effect.
async function showLogFilter() {
    const overlay = document.getElementById('log-filter-overlay');

    document.getElementById('log-filter-error').textContent   = '';
    document.getElementById('log-filter-tail').value          = getLogTail();
    document.getElementById('log-filter-session').value       = logFilterState.session > 0 ? logFilterState.session : '';
    document.getElementById('log-filter-msg').value           = logFilterState.msg;
    document.getElementById('log-filter-archive').checked     = logFilterState.archive;
    document.getElementById('log-filter-since').value         = logFilterState.since;
    document.getElementById('log-filter-until').value         = logFilterState.until;
    document.getElementById('log-filter-serverid').value      = logFilterState.serverId;
    document.getElementById('log-filter-serverid').disabled   = !logFilterState.archive;

    overlay.style.display = 'flex';

    await renderLogFilterClasses();

    // Snapshot the fields so a backdrop click can tell whether anything was
    // edited and offer to discard. Taken after the class list is built, since
    // those checkboxes are part of the sheet's state.
    captureBaseline('log-filter-overlay');
}

// Build the checkbox list of logging classes.
//
// The names come from the server rather than being hardcoded, because a build
// can register additional loggers beyond the standard set. Every class is
// listed, including ones currently switched off: a logger that is off now may
// still have written the lines sitting in the log file, so filtering by it is
// perfectly sensible.
async function renderLogFilterClasses() {
    const list = document.getElementById('log-filter-classes');

    list.innerHTML = '<p class="field-hint">Loading classes…</p>';

    let names = [];

    try {
        const token = getToken();

        const res = await fetch('/admin/loggers', {
            headers: {
                'Accept':        'application/json',
                'Authorization': token ? 'Bearer ' + token : '',
            },
        });

        if (res.status === 401) {
            clearToken();
            hideLogFilter();
            showLogin('Session expired. Please sign in again.');

            return;
        }

        if (!res.ok) throw new Error('HTTP ' + res.status);

        const data = await res.json();

        names = Object.keys(data.loggers || {}).sort();
    } catch (e) {
        // The class list is the only part of the sheet that needs the server.
        // Losing it should not cost the user the session, message, and count
        // filters, so say so and carry on with the rest of the sheet usable.
        list.innerHTML = '';
        document.getElementById('log-filter-error').textContent =
            'Could not load the list of logging classes; the other filters still work.';

        return;
    }

    list.innerHTML = '';

    for (const name of names) {
        const row = document.createElement('label');
        row.className = 'filter-class-row';

        const box = document.createElement('input');
        box.type    = 'checkbox';
        box.value   = name;
        box.checked = logFilterState.classes.includes(name);

        const text = document.createElement('span');
        text.textContent = name;

        row.appendChild(box);
        row.appendChild(text);
        list.appendChild(row);
    }
}

// Close the sheet without applying anything.
function hideLogFilter() {
    document.getElementById('log-filter-overlay').style.display = 'none';
}

// Read the sheet, store the filter, and re-request the log.
function applyLogFilter() {
    const tail    = parseInt(document.getElementById('log-filter-tail').value, 10);
    const session = parseInt(document.getElementById('log-filter-session').value, 10);
    const error   = document.getElementById('log-filter-error');

    // Number.isNaN is true when the field was empty or held something that is
    // not a number at all. An empty session box means "any session", which is
    // fine; an empty or zero line count is not, since it would ask the server
    // for nothing.
    if (Number.isNaN(tail) || tail < 1) {
        error.textContent = 'Limit results must be a positive number.';

        return;
    }

    const classes = Array.from(
        document.querySelectorAll('#log-filter-classes input[type=checkbox]'))
        .filter(box => box.checked)
        .map(box => box.value);

    setLogTail(tail);

    const archive = document.getElementById('log-filter-archive').checked;

    logFilterState = {
        session:  Number.isNaN(session) || session < 1 ? 0 : session,
        msg:      document.getElementById('log-filter-msg').value.trim(),
        classes:  classes,
        archive:  archive,
        since:    normalizeLogDateTime(document.getElementById('log-filter-since').value),
        until:    normalizeLogDateTime(document.getElementById('log-filter-until').value),
        // Only kept when archive is also on -- see the comment beside
        // logFilterState in dashboard-core.js for why. The field is disabled
        // (and cleared) whenever archive is off, but that guard lives on the
        // archive checkbox's change handler; this is the belt-and-suspenders
        // check at the one place the state actually gets built.
        serverId: archive ? document.getElementById('log-filter-serverid').value.trim() : '',
    };

    saveLogFilter();
    updateLogFilterDot();
    hideLogFilter();

    // Re-request with the new filter. A rejected filter surfaces as a message
    // in the log pane, which is where the user is looking after applying one.
    loadLog();
}

// Reset every filter, leaving the line count alone -- that is a preference
// about how much to fetch, not a restriction on what comes back, so clearing
// filters should not silently change it.
function clearLogFilter() {
    document.getElementById('log-filter-error').textContent = '';
    document.getElementById('log-filter-session').value     = '';
    document.getElementById('log-filter-msg').value         = '';
    document.getElementById('log-filter-archive').checked   = false;
    document.getElementById('log-filter-since').value       = '';
    document.getElementById('log-filter-until').value       = '';

    // Setting .checked directly does not fire the archive checkbox's own
    // change handler, so its disable-and-clear side effect on Server ID has
    // to be repeated here explicitly.
    const serverIdField = document.getElementById('log-filter-serverid');
    serverIdField.value    = '';
    serverIdField.disabled = true;

    document.querySelectorAll('#log-filter-classes input[type=checkbox]')
        .forEach(box => { box.checked = false; });

    applyLogFilter();
}

// Show a dot on the funnel when a filter is in force, so it is obvious that the
// log on screen is not the whole log. The title gains a summary, so hovering
// says which filters are active without opening the sheet.
function updateLogFilterDot() {
    const dot = document.getElementById('log-filter-dot');
    const btn = document.getElementById('log-filter-btn');

    // classList.toggle(name, flag) adds the class when flag is true and removes
    // it when false.
    dot.classList.toggle('visible', isLogFilterActive());

    const active = [];

    if (logFilterState.session > 0)        active.push('session ' + logFilterState.session);
    if (logFilterState.classes.length > 0) active.push(logFilterState.classes.join(', '));
    if (logFilterState.msg !== '')         active.push('messages matching ' + logFilterState.msg);
    if (logFilterState.archive)            active.push('older logs included');
    if (logFilterState.since !== '')       active.push('since ' + logFilterState.since);
    if (logFilterState.until !== '')       active.push('until ' + logFilterState.until);
    if (logFilterState.serverId !== '')    active.push('server ID matching ' + logFilterState.serverId);

    btn.title = active.length > 0 ? 'Filtered by ' + active.join('; ') : 'Filter log';
}

// ==========================================================================
// Logger configuration sheet
//
// "Configure..." in the Log tab fetches GET /admin/loggers to learn the
// current on/off state of every named logger plus the "keep" count.  The
// sheet renders a toggle switch for each logger.  The Save button becomes
// enabled as soon as any value diverges from the original, and on click it
// POSTs only the changed loggers (plus the keep value) to /admin/loggers.
// ==========================================================================

// Snapshot of values when the sheet was opened, used to detect changes.
let loggerOriginalState = { keep: 0, loggers: {} };

// Fetch current logger state and open the config sheet.
async function showLoggerConfig() {
    document.getElementById('logger-config-error').textContent = '';
    document.getElementById('logger-save-btn').disabled = true;
    document.getElementById('logger-toggles').innerHTML = '<p style="color:#666;font-size:0.85rem;">Loading\u2026</p>';
    document.getElementById('logger-config-overlay').style.display = 'flex';

    try {
        const res  = await apiFetch('/admin/loggers');
        const data = await res.json();

        // Save original state for change detection.
        // Object.assign({}, data.loggers) makes a shallow copy of the loggers
        // object into a new, empty {}. Without the copy, loggerOriginalState.loggers
        // would point to the same object in memory as data.loggers — any later
        // change to data.loggers would silently overwrite the "original", breaking
        // the change detection in updateLoggerSaveBtn().
        loggerOriginalState = { keep: data.keep, loggers: Object.assign({}, data.loggers) };

        document.getElementById('logger-file').textContent = data.file || '';
        document.getElementById('logger-keep').value = data.keep;

        // Build a toggle row for each logger, sorted alphabetically.
        const togglesDiv = document.getElementById('logger-toggles');
        togglesDiv.innerHTML = '';

        const names = Object.keys(data.loggers).sort();
        for (const name of names) {
            const enabled = data.loggers[name];

            const row = document.createElement('div');
            row.className = 'logger-toggle-row';

            const labelEl = document.createElement('span');
            labelEl.className = 'logger-toggle-label';
            labelEl.textContent = name;

            // <label class="toggle-switch"><input type="checkbox"><span class="toggle-slider"></span></label>
            const switchLabel = document.createElement('label');
            switchLabel.className = 'toggle-switch';

            const input = document.createElement('input');
            input.type    = 'checkbox';
            input.checked = enabled;
            input.dataset.logger = name;
            input.addEventListener('change', updateLoggerSaveBtn);

            const slider = document.createElement('span');
            slider.className = 'toggle-slider';

            switchLabel.appendChild(input);
            switchLabel.appendChild(slider);
            row.appendChild(labelEl);
            row.appendChild(switchLabel);
            togglesDiv.appendChild(row);
        }

        // Watch the numeric field for changes (replace any previous listener).
        document.getElementById('logger-keep').oninput = updateLoggerSaveBtn;

        updateLoggerSaveBtn();
        captureBaseline('logger-config-overlay');
    } catch (e) {
        if (e.message !== 'Unauthorized') {
            document.getElementById('logger-config-error').textContent = 'Failed to load logger configuration.';
            document.getElementById('logger-toggles').innerHTML = '';
        }
    }
}

// Close the sheet without saving.
function hideLoggerConfig() {
    document.getElementById('logger-config-overlay').style.display = 'none';
}

// Enable the Save button only when something has actually changed.
function updateLoggerSaveBtn() {
    const keepVal    = parseInt(document.getElementById('logger-keep').value, 10) || 0;
    const keepChanged = keepVal !== loggerOriginalState.keep;

    let loggerChanged = false;
    document.querySelectorAll('#logger-toggles input[type=checkbox]').forEach(input => {
        if (input.checked !== loggerOriginalState.loggers[input.dataset.logger]) {
            loggerChanged = true;
        }
    });

    document.getElementById('logger-save-btn').disabled = !(keepChanged || loggerChanged);
}

// Save logger configuration.
//
// Everything in this sheet is server state now that the result limit has moved
// to the Log Filter sheet, so there is no longer a case where the Save button
// is enabled but nothing needs to be sent.
async function submitLoggerConfig() {
    const keepVal       = parseInt(document.getElementById('logger-keep').value, 10) || 0;
    const changedLoggers = {};

    document.querySelectorAll('#logger-toggles input[type=checkbox]').forEach(input => {
        const name = input.dataset.logger;
        if (input.checked !== loggerOriginalState.loggers[name]) {
            changedLoggers[name] = input.checked;
        }
    });

    document.getElementById('logger-save-btn').disabled = true;

    try {
        const token = getToken();
        const res = await fetch('/admin/loggers', {
            method:  'POST',
            headers: {
                'Content-Type':  'application/json',
                'Authorization': token ? 'Bearer ' + token : '',
            },
            body: JSON.stringify({ keep: keepVal, loggers: changedLoggers }),
        });

        if (res.status === 401) {
            clearToken();
            hideLoggerConfig();
            showLogin('Session expired. Please sign in again.');
            return;
        }

        if (!res.ok) {
            const data = await res.json().catch(() => ({}));
            document.getElementById('logger-config-error').textContent =
                data.msg || 'Failed to save logger configuration (HTTP ' + res.status + ').';
            document.getElementById('logger-save-btn').disabled = false;
            return;
        }

        hideLoggerConfig();
    } catch (e) {
        document.getElementById('logger-config-error').textContent = 'Network error. Please try again.';
        document.getElementById('logger-save-btn').disabled = false;
    }
}

