// dashboard-admin.js
// The administrative tabs and their editing sheets: the per-tab content
// loaders (Memory, Users, DSNs, Tables), the DSN permission sheets, and the
// server configuration sheet.
//
// THE DASHBOARD (HTML, CSS, AND JAVASCRIPT) WERE PROTOTYPED BY CLAUDE
// CODE, and extended by both Claude Code and human developers. The dashboard
// code is reviewed and tested by humans before any changes are committed.
// The dashboard uses api endpoints in the Ego  server that were written by
// humans, as is the rest of the Ego server.
//
// LOAD ORDER MATTERS. These files are plain <script> tags, not modules, so
// they all share one global scope -- but a function declaration is hoisted
// only within its own file. Anything that runs immediately at the top level
// may therefore only call functions declared in the same file or an earlier
// one. Deferred code (event handlers, callbacks, timers) is unrestricted,
// because by the time it runs every file has loaded. dashboard.html lists the
// files in this order:
//
//     dashboard-core.js        cookies, settings, token, idle timer, fetch
//     dashboard-admin.js       tab loaders, DSN permission and config sheets
//     dashboard-data.js        Data tab and its row editor
//     dashboard-sql.js         SQL tab, highlighting, and the SQL formatter
//     dashboard-sqlwizard.js   Build wizard and the SQL statement parser
//     dashboard-ui.js          tab switching, login, user/DSN sheets, log tab
//     dashboard-code.js        Code tab: editor, run, debugger, console
//     dashboard-startup.js     entry point, then passkey support
//
// Note also that names declared at the top level of any of these files are
// shared across all of them. The minifier deliberately never renames such
// names (see internal/util/javascript/minify.go), which is what makes serving
// them as separate files safe.
//
// ==========================================================================
// Tab content loaders
//
// Each function is responsible for one tab: it fetches data from the server,
// builds an HTML table string, and injects it into the tab's container div.
// They are called by openTab() every time a tab is selected, so the data is
// always refreshed when you switch tabs.
// ==========================================================================

// Convert a raw byte count into a readable string like "3.14 MB". Shared by
// loadMemory() (Metrics' memory figures) and showConfigSheet() (the Server
// Info block's total/available memory).
function fmtBytes(n) {
    if (n >= 1073741824) return (n / 1073741824).toFixed(2) + ' GB';
    if (n >= 1048576)    return (n / 1048576).toFixed(2)    + ' MB';
    if (n >= 1024)       return (n / 1024).toFixed(2)       + ' KB';
    return n + ' B';
}

// Load the Memory tab — fetches server memory statistics and cache data,
// rendering both into the combined Memory tab.
async function loadMemory() {
    // Compute a human-readable uptime string from the server start-time string
    // (time.UnixDate format, e.g. "Mon Jan  2 15:04:05 MST 2006").
    function fmtUptime(since) {
        if (!since) return '—';
        const start = new Date(since);
        if (isNaN(start.getTime())) return '—';
        const ms    = Date.now() - start.getTime();
        const secs  = Math.floor(ms / 1000);
        const mins  = Math.floor(secs / 60);
        const hours = Math.floor(mins / 60);
        const days  = Math.floor(hours / 24);
        if (days  > 0) return days  + 'd ' + (hours % 24) + 'h ' + (mins % 60) + 'm';
        if (hours > 0) return hours + 'h ' + (mins % 60)  + 'm';
        if (mins  > 0) return mins  + 'm ' + (secs % 60)  + 's';
        return secs + 's';
    }

    // Build a label+value pair of <td> cells for a stat grid row.
    function pair(label, value) {
        return '<td class="stat-lbl">' + label + '</td><td class="stat-val">' + value + '</td>';
    }

    // Empty label+value placeholder used to fill out short rows.
    function emptyPair() { return '<td></td><td></td>'; }

    // ---- Single call to /admin/resources returns both memory and cache data ----
    const memContainer   = document.getElementById('memory-content');
    const cacheContainer = document.getElementById('caches-content');
    try {
        const res = await apiFetch('/admin/resources');
        const d   = await res.json();

        const sep = '<td class="stat-sep"></td>';

        // The goroutine count was added to /admin/resources after this dashboard
        // shipped, so tolerate its absence rather than letting an undefined value
        // throw. Calling .toLocaleString() on undefined raises a TypeError, and
        // because the whole Metrics table is assembled in one expression that
        // would blank the entire panel rather than just this one cell. The "|| 0"
        // idiom is the same guard already used for item.size further down.
        const goroutines = d.goroutines || 0;

        // Metrics — 3-column compact grid (same 8-cell row structure as Cache Status below)
        let memHtml = '<table class="stat-grid"><thead><tr><th colspan="8">Metrics</th></tr></thead><tbody>';
        memHtml += '<tr>' + pair('Uptime',             fmtUptime(_serverStartTime))       + sep + pair('Objects in Use',  d.objects.toLocaleString()) + sep + pair('Application Memory', fmtBytes(d.system))  + '</tr>';
        memHtml += '<tr>' + pair('Requests Processed', d.server.session.toLocaleString()) + sep + pair('Heap Memory',     fmtBytes(d.current))        + sep + pair('Stack Memory',        fmtBytes(d.stack))   + '</tr>';
        memHtml += '<tr>' + pair('GC Cycles',          d.gc.toLocaleString())             + sep + pair('Goroutines',      goroutines.toLocaleString()) + sep + emptyPair()                                       + '</tr>';
        memHtml += '</tbody></table>';
        memContainer.innerHTML = memHtml;

        // Cache Status — 3-column compact grid
        let cacheHtml = '<table class="stat-grid"><thead><tr><th colspan="8">Cache Status</th></tr></thead><tbody>';
        cacheHtml += '<tr>' + pair('DSN Entries',         d.dsnCount)                    + sep + pair('Cached Services',    d.serviceCount)               + sep + pair('Authorizations',  d.authorizationCount) + '</tr>';
        cacheHtml += '<tr>' + pair('Schema Entries',      d.schemaCount)                 + sep + pair('Service Cache Size', d.serviceSize + '&nbsp;items') + sep + pair('Tokens',          d.tokenCount)         + '</tr>';
        cacheHtml += '<tr>' + pair('Code Run Sessions',   d.runCount)                    + sep + pair('Cached Assets',      d.assetCount)                 + sep + pair('Blacklist Status', d.blacklistCount)     + '</tr>';
        cacheHtml += '<tr>' + pair('Code Debug Sessions', d.debugCount)                  + sep + pair('Asset Cache size',   fmtBytes(d.assetSize))        + sep + emptyPair()                                    + '</tr>';
        cacheHtml += '</tbody></table>';

        const items = d.items || [];
        if (items.length > 0) {
            cacheHtml += '<hr class="stat-divider"><table><thead><tr>'
                       + '<th>Cached Endpoints</th><th>Class</th><th>Reuse count</th><th class="status-val">Size</th><th>Last accessed</th>'
                       + '</tr></thead><tbody>';
            for (const item of items) {
                const lastStr = item.last ? new Date(item.last).toLocaleString() : '';
                const sizeStr = item.class === 'asset' ? fmtBytes(item.size || 0) : '';
                cacheHtml += '<tr>'
                           + '<td>' + escapeHtml(item.name)  + '</td>'
                           + '<td>' + escapeHtml(item.class) + '</td>'
                           + '<td>' + item.count             + '</td>'
                           + '<td class="status-val">' + sizeStr + '</td>'
                           + '<td>' + lastStr                + '</td>'
                           + '</tr>';
            }
            cacheHtml += '</tbody></table>';
        }

        cacheContainer.innerHTML = cacheHtml;
    } catch (e) {
        if (e.message !== 'Unauthorized') console.error('Error loading status:', e);
    }
}

// Load the Users tab — fetches the user list and renders it as a table
// with columns for username and permissions.
async function loadUsers() {
    const container = document.getElementById('user-content');
    try {
        const res   = await apiFetch('/admin/users');
        const data  = await res.json();

        // The API wraps the list in an envelope: { "items": [...], "count": N, ... }
        // The "|| []" fallback prevents errors if the field is missing.
        const users = data.items || [];

        if (users.length === 0) {
            container.innerHTML = '<p style="padding:1rem;color:#666;">No users found.</p>';
            return;
        }

        let html = '<table><thead><tr><th>User</th><th>ID</th><th>Permissions</th><th>Passkeys</th><th>Last Login</th></tr></thead><tbody>';

        for (const u of users) {
            // Array.isArray() is necessary because the server may return permissions
        // as either an array (["ego.logon","ego.admin"]) or a single string.
        // join(', ') concatenates the array elements into one comma-separated string.
        // The || '' at the end converts null or undefined to an empty string.
        const perms    = Array.isArray(u.permissions) ? u.permissions.join(', ') : (u.permissions || '');
            const id       = u.id || '';
            const passkeys = u.passkeys != null ? String(u.passkeys) : '0';
            const rawToken = u.lastTokenAt || '';
            // Format the RFC3339 timestamp as a locale date/time string, or show a
            // dash when the value is absent or is Go's zero time (year 0001).
            const lastLogin = rawToken && !rawToken.startsWith('0001')
                ? new Date(rawToken).toLocaleString()
                : '—';

            // data-* attributes carry row values into the click handler without a
            // global variable. escapeHtml() is used for display and attribute safety.
            html += '<tr data-name="' + escapeHtml(u.name) + '" data-perms="' + escapeHtml(perms) + '" data-passkeys="' + escapeHtml(passkeys) + '" data-last-token="' + escapeHtml(rawToken) + '">'
                  + '<td>' + escapeHtml(u.name) + '</td>'
                  + '<td class="user-id">' + escapeHtml(id) + '</td>'
                  + '<td>' + escapeHtml(perms)  + '</td>'
                  + '<td class="passkey-count">' + escapeHtml(passkeys) + '</td>'
                  + '<td>' + lastLogin + '</td>'
                  + '</tr>';
        }

        html += '</tbody></table>';
        container.innerHTML = html;

        // Attach a click listener to every row so clicking opens the edit sheet.
        container.querySelectorAll('tbody tr').forEach(row => {
            row.addEventListener('click', () => {
                showEditUserSheet(row.dataset.name, row.dataset.perms, row.dataset.passkeys, row.dataset.lastToken);
            });
        });
    } catch (e) {
        if (e.message !== 'Unauthorized') console.error('Error loading users:', e);
    }
}

// Escape characters that have special meaning in HTML so that user-supplied
// strings from the server are rendered as plain text, not as markup.
//
// Without this, a username like "<script>alert(1)</script>" would execute
// JavaScript in the browser — a Cross-Site Scripting (XSS) attack.
// Each replace() call handles one dangerous character:
//   & → &amp;   (must be first, otherwise the later replacements double-encode)
//   < → &lt;    (prevents opening an HTML tag)
//   > → &gt;    (prevents closing an HTML tag)
//   " → &quot;  (prevents breaking out of an attribute value)
function escapeHtml(str) {
    return String(str)
        .replace(/&/g, '&amp;')
        .replace(/</g, '&lt;')
        .replace(/>/g, '&gt;')
        .replace(/"/g, '&quot;');
}

// JS port of egostrings.Gibberish() (internal/util/strings/gibberish.go) —
// converts a UUID into a compact, human-friendly base-32 string using the
// same alphabet and digit order as the Go implementation, so client- and
// server-generated IDs look identical in style.
//
// Algorithm: split the UUID's 16 bytes into two 64-bit integers (hi from
// bytes 0-7, low from bytes 8-15), then base-32-encode each — low's digits
// first, followed by hi's — using the alphabet below.
//
// A note on BigInt for anyone unfamiliar with it: ordinary JS numbers are
// 64-bit *floating point* values, which can only represent whole numbers
// exactly up to 2^53 — well short of the 64-bit *integers* this function
// needs to build from raw UUID bytes. BigInt is a second, separate numeric
// type built for exactly this: arbitrary-size whole numbers with no
// precision loss. A trailing lowercase "n" on a number literal (e.g. `0n`,
// `8n`) marks it as a BigInt rather than a regular number — and BigInt
// values can only be mixed with *other* BigInt values in arithmetic (you
// cannot write `1n + 1`, only `1n + 1n`), which is why bytes pulled from the
// `bytes` array below are explicitly wrapped in `BigInt(...)` before use.
function gibberishFromUuid(uuidStr) {
    const digits = 'abcdefghijkmnpqrstuvwxyz23456789';
    const radix  = BigInt(digits.length); // 32, as a BigInt so it can divide/mod hi and low below

    // Turn "550e8400-e29b-..." into the 16 raw byte values it encodes.
    // First strip the dashes, leaving a 32-character hex string (each byte
    // is 2 hex digits). Then walk it two characters at a time and convert
    // each pair from hex to a plain 0-255 number via parseInt(str, 16) —
    // the second argument tells parseInt to read the string as base 16
    // (hexadecimal) rather than the usual base 10.
    const bytes = [];
    const hex   = uuidStr.replace(/-/g, '');
    for (let i = 0; i < 32; i += 2) bytes.push(parseInt(hex.substr(i, 2), 16));

    // Pack the first 8 bytes into "hi" and the last 8 into "low", one byte
    // at a time. `<< 8n` shifts the accumulated value left by one byte
    // (8 bits) to make room, then `+ BigInt(bytes[i])` drops the next byte
    // into the space that opened up at the bottom — the standard way to
    // assemble a multi-byte integer from individual bytes, most-significant
    // byte first.
    let hi = 0n, low = 0n;
    for (let i = 0; i < 8; i++)  hi  = (hi  << 8n) + BigInt(bytes[i]);
    for (let i = 8; i < 16; i++) low = (low << 8n) + BigInt(bytes[i]);

    // Convert low, then hi, to base 32: repeatedly take the remainder after
    // dividing by 32 (that's the next "digit", 0-31) to look up a character
    // in `digits`, then integer-divide by 32 to drop that digit and repeat.
    // This naturally produces the digits in least-significant-first order.
    // Number(...) is needed to index into the `digits` string because a
    // BigInt can't be used directly as an array/string index — only a
    // regular number can — but it's always safe here since the remainder
    // is guaranteed to be less than 32.
    let result = '';
    while (low > 0n) {
        result += digits[Number(low % radix)];
        low = low / radix; // BigInt division truncates automatically, like Math.floor
    }
    while (hi > 0n) {
        result += digits[Number(hi % radix)];
        hi = hi / radix;
    }

    // A UUID of all zero bytes produces no digits at all (both loops above
    // exit immediately), so `result` would be "" — an empty string is falsy
    // in JS, so `result || '-nil-'` substitutes the fallback text in that
    // one case and returns `result` unchanged in every other case.
    return result || '-nil-';
}

// Generate a new gibberish-encoded row ID, the same style of value the
// server assigns to the "_row_id_" column (see defs.RowIDName). Used by the
// SQL Build wizard's INSERT form to pre-fill that column when it is present
// on the target table, since raw INSERT statements bypass the server's own
// automatic row-ID assignment (see internal/server/tables/scripting/insert.go).
//
// crypto.randomUUID() is a built-in browser function (no library needed)
// that returns a fresh, randomly-generated UUID string like
// "550e8400-e29b-41d4-a716-446655440000" each time it's called.
function generateRowId() {
    return gibberishFromUuid(crypto.randomUUID());
}

// Load the DSNs tab — fetches the data source name list and renders it as
// a table with columns for connection details.
async function loadDsns() {
    const container = document.getElementById('dsns-content');
    try {
        const res  = await apiFetch('/dsns');
        const data = await res.json();
        const dsns = data.items || [];

        if (dsns.length === 0) {
            container.innerHTML = '<p style="padding:1rem;color:#666;">No DSNs found.</p>';
            return;
        }

        let html = '<table><thead><tr>'
                 + '<th>Name</th><th>Provider</th><th>Database</th>'
                 + '<th>Host</th><th>Port</th><th>User</th>'
                 + '<th>Secured</th><th>Restricted</th>'
                 + '</tr></thead><tbody>';

        for (const d of dsns) {
            // SQLite DSNs have no host or port; default to empty string so
            // the table cell exists but is blank rather than showing "0" or "null".
            const host = d.host || '';
            // d.port is a number; String() converts it to text for display.
            // The ternary (condition ? valueIfTrue : valueIfFalse) avoids "0" for missing ports.
            const port = d.port ? String(d.port) : '';

            // For the boolean flags, show "Yes"/"No" rather than true/false.
            // The ternary operator (condition ? 'Yes' : 'No') is a compact if/else.
            //
            // Each row is clickable: clicking opens the DSN detail sheet.
            const safeName = escapeHtml(d.name);
            html += '<tr class="dsn-row" onclick="showDsnDetail(\'' + safeName + '\')"'
                  + ' title="Click to view details for ' + safeName + '">'
                  + '<td>' + safeName                  + '</td>'
                  + '<td>' + escapeHtml(d.provider)    + '</td>'
                  + '<td>' + escapeHtml(d.database)    + '</td>'
                  + '<td>' + escapeHtml(host)           + '</td>'
                  + '<td>' + escapeHtml(port)           + '</td>'
                  + '<td>' + escapeHtml(d.user || '')   + '</td>'
                  + '<td>' + (d.secured    ? 'Yes' : 'No') + '</td>'
                  + '<td>' + (d.restricted ? 'Yes' : 'No') + '</td>'
                  + '</tr>';
        }

        html += '</tbody></table>';
        container.innerHTML = html;
    } catch (e) {
        if (e.message !== 'Unauthorized') console.error('Error loading DSNs:', e);
    }
}

// DSN name currently shown in the DSN detail sheet.
let _dsnDetailName = '';

// Open the DSN detail sheet for the given DSN name. Shows the DSN attributes
// as a two-column table, and fetches permissions if the DSN is restricted.
async function showDsnDetail(name) {
    _dsnDetailName = name;

    const overlay  = document.getElementById('dsn-detail-overlay');
    const content  = document.getElementById('dsn-detail-content');
    const permSec  = document.getElementById('dsn-permissions-section');
    const permCont = document.getElementById('dsn-permissions-content');

    document.getElementById('dsn-detail-title').textContent = name;
    document.getElementById('dsn-detail-error').textContent = '';
    content.innerHTML  = '<p style="color:#666;font-size:0.85rem;">Loading\u2026</p>';
    permSec.style.display = 'none';
    permCont.innerHTML = '';
    overlay.style.display = 'flex';

    // Managing per-user DSN permissions requires ego.dsn.admin (or
    // ego.root) -- the server rejects both the @permissions lookup and the
    // add/edit/delete calls with a permission error for anyone else, so
    // don't even fetch the list, and hide the buttons that would only lead
    // to a failed request.
    const deleteBtn  = document.getElementById('dsn-detail-delete-btn');
    const addPermBtn = document.getElementById('dsn-detail-add-perm-btn');
    if (deleteBtn)  deleteBtn.style.display  = _isDsnAdmin ? '' : 'none';
    if (addPermBtn) addPermBtn.style.display = _isDsnAdmin ? '' : 'none';

    try {
        // Fetch the full DSN list to find the details for this DSN.
        const res  = await apiFetch('/dsns');
        const data = await res.json();

        if (!res.ok) {
            document.getElementById('dsn-detail-error').textContent =
                data.msg || 'Failed to load DSN details (HTTP ' + res.status + ').';
            content.innerHTML = '';
            return;
        }

        const dsns   = data.items || [];
        const dsnObj = dsns.find(d => d.name === name);

        if (!dsnObj) {
            document.getElementById('dsn-detail-error').textContent = 'DSN not found.';
            content.innerHTML = '';
            return;
        }

        // Render DSN attributes as a two-column key/value table.
        const labels = {
            name:       'Name',
            provider:   'Provider',
            database:   'Database',
            host:       'Host',
            port:       'Port',
            user:       'User',
            secured:    'Secured',
            restricted: 'Restricted',
        };

        let html = '<table><thead><tr><th>Attribute</th><th>Value</th></tr></thead><tbody>';
        for (const [key, label] of Object.entries(labels)) {
            let val = dsnObj[key];
            if (val === undefined || val === null) val = '';
            if (typeof val === 'boolean') val = val ? 'Yes' : 'No';
            if (key === 'port' && !val) val = '';
            html += '<tr><td>' + label + '</td><td>' + escapeHtml(String(val)) + '</td></tr>';
        }
        html += '</tbody></table>';
        content.innerHTML = html;

        // If the DSN is restricted, fetch and display permissions -- but only
        // for a user allowed to see them; the endpoint itself requires
        // ego.dsn.admin (or ego.root) and would otherwise just 403.
        if (dsnObj.restricted && _isDsnAdmin) {
            permSec.style.display = '';
            permCont.innerHTML = '<p style="color:#666;font-size:0.85rem;">Loading permissions\u2026</p>';
            try {
                const pRes  = await apiFetch('/dsns/' + encodeURIComponent(name) + '/@permissions');
                const pData = await pRes.json();

                if (!pRes.ok) {
                    permCont.innerHTML = '<p style="color:#c00;">Failed to load permissions.</p>';
                } else {
                    const items = pData.items || {};
                    // Only show users that have at least one permission.
                    const users = Object.keys(items).sort().filter(u => (items[u] || []).length > 0);
                    if (users.length === 0) {
                        permCont.innerHTML = '<p style="color:#666;font-size:0.85rem;">No permissions defined.</p>';
                    } else {
                        let pHtml = '<table><thead><tr><th>User</th><th>Permissions</th></tr></thead><tbody>';
                        for (const user of users) {
                            const permArr  = items[user] || [];
                            const permsStr = permArr.join(', ');
                            const safeUser = escapeHtml(user);
                            // Encode current perms into a data attribute for the click handler.
                            const dataPerms = escapeHtml(permArr.join(','));
                            pHtml += '<tr class="dsn-row" title="Click to edit permissions for ' + safeUser + '"'
                                   + ' onclick="showDsnPermEdit(\'' + safeUser + '\', \'' + dataPerms + '\')">'
                                   + '<td>' + safeUser + '</td>'
                                   + '<td>' + escapeHtml(permsStr) + '</td>'
                                   + '</tr>';
                        }
                        pHtml += '</tbody></table>';
                        permCont.innerHTML = pHtml;
                    }
                }
            } catch (pe) {
                if (pe.message !== 'Unauthorized') {
                    permCont.innerHTML = '<p style="color:#c00;">Network error: ' + escapeHtml(pe.message) + '</p>';
                }
            }
        }
    } catch (e) {
        if (e.message !== 'Unauthorized') {
            document.getElementById('dsn-detail-error').textContent =
                'Network error: ' + e.message;
            content.innerHTML = '';
        }
    }
}

// Close the DSN detail sheet.
function hideDsnDetail() {
    document.getElementById('dsn-detail-overlay').style.display = 'none';
}

// Delete the currently displayed DSN, then close the sheet and refresh the list.
async function submitDeleteDsn() {
    document.getElementById('dsn-detail-delete-btn').disabled = true;

    try {
        const token = getToken();
        const res = await fetch('/dsns/' + encodeURIComponent(_dsnDetailName), {
            method:  'DELETE',
            headers: { 'Authorization': token ? 'Bearer ' + token : '' },
        });

        if (!res.ok) {
            if (res.status === 401) {
                clearToken();
                hideDsnDetail();
                showLogin('Session expired. Please sign in again.');
                return;
            }
            const data = await res.json().catch(() => ({}));
            document.getElementById('dsn-detail-error').textContent =
                data.msg || 'Failed to delete DSN (HTTP ' + res.status + ').';
            return;
        }

        hideDsnDetail();
        loadDsns();
    } catch (e) {
        document.getElementById('dsn-detail-error').textContent = 'Network error. Please try again.';
    } finally {
        document.getElementById('dsn-detail-delete-btn').disabled = false;
    }
}

// Switch to the Tables tab with the current DSN pre-selected. Called from the
// "Show tables…" button in the DSN detail sheet.
function openDsnTablesFromSheet() {
    hideDsnDetail();
    _pendingTablesDsn = _dsnDetailName;
    openTab('tables');
}

// ==========================================================================
// DSN permission edit sheet
// ==========================================================================

// Original permissions for the user currently being edited (array of strings).
// Stored so submitDsnPermEdit() can diff against the new value.
let _dsnPermEditOriginal = [];

// Open the permission edit sheet for a specific user within the current DSN.
// currentPermsStr is a comma-separated string of the existing permissions.
function showDsnPermEdit(user, currentPermsStr) {
    _dsnPermEditOriginal = currentPermsStr ? currentPermsStr.split(',').map(p => p.trim()).filter(Boolean) : [];

    document.getElementById('dsn-perm-edit-error').textContent = '';
    document.getElementById('dsn-perm-edit-user').value  = user;
    document.getElementById('dsn-perm-edit-perms').value = _dsnPermEditOriginal.join(', ');
    document.getElementById('dsn-perm-edit-save-btn').disabled   = false;
    document.getElementById('dsn-perm-edit-delete-btn').disabled = false;
    document.getElementById('dsn-perm-edit-overlay').style.display = 'flex';
    captureBaseline('dsn-perm-edit-overlay');
    document.getElementById('dsn-perm-edit-perms').focus();
}

// Close the permission edit sheet without saving.
function hideDsnPermEdit() {
    document.getElementById('dsn-perm-edit-overlay').style.display = 'none';
}

// Build the actions array by diffing old permissions against new ones.
// Removed permissions are prefixed with "-", added ones with "+".
function buildPermActions(oldPerms, newPerms) {
    const actions = [];
    for (const p of oldPerms) {
        if (!newPerms.includes(p)) actions.push('-' + p);
    }
    for (const p of newPerms) {
        if (!oldPerms.includes(p)) actions.push('+' + p);
    }
    return actions;
}

// POST the permission changes to /dsns/@permissions.
async function submitDsnPermEdit() {
    const user     = document.getElementById('dsn-perm-edit-user').value;
    const permsRaw = document.getElementById('dsn-perm-edit-perms').value;
    const newPerms = permsRaw.split(',').map(p => p.trim()).filter(Boolean);

    const actions = buildPermActions(_dsnPermEditOriginal, newPerms);
    if (actions.length === 0) {
        hideDsnPermEdit();
        return;
    }

    document.getElementById('dsn-perm-edit-save-btn').disabled = true;

    try {
        const token = getToken();
        const res = await fetch('/dsns/@permissions', {
            method:  'POST',
            headers: {
                'Content-Type':  'application/json',
                'Authorization': token ? 'Bearer ' + token : '',
            },
            body: JSON.stringify({ dsn: _dsnDetailName, user, actions }),
        });

        if (res.status === 401) {
            clearToken();
            hideDsnPermEdit();
            hideDsnDetail();
            showLogin('Session expired. Please sign in again.');
            return;
        }

        if (!res.ok) {
            const data = await res.json().catch(() => ({}));
            document.getElementById('dsn-perm-edit-error').textContent =
                data.msg || 'Failed to update permissions (HTTP ' + res.status + ').';
            return;
        }

        // Refresh the DSN detail sheet to show updated permissions.
        hideDsnPermEdit();
        showDsnDetail(_dsnDetailName);
    } catch (e) {
        document.getElementById('dsn-perm-edit-error').textContent = 'Network error. Please try again.';
    } finally {
        document.getElementById('dsn-perm-edit-save-btn').disabled = false;
    }
}

// Remove all permissions for the current user by posting "-" for each existing one.
async function submitDeleteDsnPerm() {
    const user = document.getElementById('dsn-perm-edit-user').value;

    if (!confirm('Remove all permissions for "' + user + '" on DSN "' + _dsnDetailName + '"?')) return;

    const actions = _dsnPermEditOriginal.map(p => '-' + p);
    if (actions.length === 0) {
        hideDsnPermEdit();
        return;
    }

    document.getElementById('dsn-perm-edit-delete-btn').disabled = true;

    try {
        const token = getToken();
        const res = await fetch('/dsns/@permissions', {
            method:  'POST',
            headers: {
                'Content-Type':  'application/json',
                'Authorization': token ? 'Bearer ' + token : '',
            },
            body: JSON.stringify({ dsn: _dsnDetailName, user, actions }),
        });

        if (res.status === 401) {
            clearToken();
            hideDsnPermEdit();
            hideDsnDetail();
            showLogin('Session expired. Please sign in again.');
            return;
        }

        if (!res.ok) {
            const data = await res.json().catch(() => ({}));
            document.getElementById('dsn-perm-edit-error').textContent =
                data.msg || 'Failed to delete permissions (HTTP ' + res.status + ').';
            return;
        }

        hideDsnPermEdit();
        showDsnDetail(_dsnDetailName);
    } catch (e) {
        document.getElementById('dsn-perm-edit-error').textContent = 'Network error. Please try again.';
    } finally {
        document.getElementById('dsn-perm-edit-delete-btn').disabled = false;
    }
}

// ==========================================================================
// Add DSN permission sheet
// ==========================================================================

// Open the add-permission sheet with blank fields.
function showDsnPermAdd() {
    document.getElementById('dsn-perm-add-error').textContent = '';
    document.getElementById('dsn-perm-add-user').value  = '';
    document.getElementById('dsn-perm-add-perms').value = '';
    document.getElementById('dsn-perm-add-save-btn').disabled = false;
    document.getElementById('dsn-perm-add-overlay').style.display = 'flex';
    captureBaseline('dsn-perm-add-overlay');
    document.getElementById('dsn-perm-add-user').focus();
}

// Close the add-permission sheet without saving.
function hideDsnPermAdd() {
    document.getElementById('dsn-perm-add-overlay').style.display = 'none';
}

// POST new permissions to /dsns/@permissions, then refresh the DSN detail sheet.
async function submitDsnPermAdd() {
    const user     = document.getElementById('dsn-perm-add-user').value.trim();
    const permsRaw = document.getElementById('dsn-perm-add-perms').value;
    const perms    = permsRaw.split(',').map(p => p.trim()).filter(Boolean);

    if (!user) {
        document.getElementById('dsn-perm-add-error').textContent = 'User is required.';
        return;
    }
    if (perms.length === 0) {
        document.getElementById('dsn-perm-add-error').textContent = 'At least one permission is required.';
        return;
    }

    document.getElementById('dsn-perm-add-save-btn').disabled = true;

    try {
        const token = getToken();
        const res = await fetch('/dsns/@permissions', {
            method:  'POST',
            headers: {
                'Content-Type':  'application/json',
                'Authorization': token ? 'Bearer ' + token : '',
            },
            body: JSON.stringify({ dsn: _dsnDetailName, user, actions: perms.map(p => '+' + p) }),
        });

        if (res.status === 401) {
            clearToken();
            hideDsnPermAdd();
            hideDsnDetail();
            showLogin('Session expired. Please sign in again.');
            return;
        }

        if (!res.ok) {
            const data = await res.json().catch(() => ({}));
            document.getElementById('dsn-perm-add-error').textContent =
                data.msg || 'Failed to add permissions (HTTP ' + res.status + ').';
            return;
        }

        hideDsnPermAdd();
        showDsnDetail(_dsnDetailName);
    } catch (e) {
        document.getElementById('dsn-perm-add-error').textContent = 'Network error. Please try again.';
    } finally {
        document.getElementById('dsn-perm-add-save-btn').disabled = false;
    }
}

// Send a DELETE to /admin/caches/ to flush all server-side caches, then
// reload the Memory tab to reflect the now-empty cache state.
async function flushCaches() {
    const btn = document.querySelector('[onclick="flushCaches()"]');
    btn.disabled = true;
    try {
        const token = getToken();
        const res = await fetch('/admin/caches/', {
            method:  'DELETE',
            headers: token ? { 'Authorization': 'Bearer ' + token } : {},
        });

        if (res.status === 401) {
            clearToken();
            showLogin('Session expired. Please sign in again.');
            return;
        }

        if (!res.ok) {
            const data = await res.json().catch(() => ({}));
            alert(data.msg || 'Failed to flush caches (HTTP ' + res.status + ').');
            return;
        }

        // Reload the Memory tab to reflect the now-empty caches.
        loadMemory();
    } catch (e) {
        alert('Network error: ' + e.message);
    } finally {
        btn.disabled = false;
    }
}

// ==========================================================================
// Configuration sheet
// ==========================================================================

// Formats the elapsed time since the server started as a compact duration
// string like "3h 4m 22s", shown alongside the absolute start time in the
// Configuration sheet's Server Info block. Leading zero units are omitted
// (an uptime under an hour reads "4m 22s", not "0h 4m 22s"), but seconds are
// always shown.
function fmtServerUptime(since) {
    const start = new Date(since);
    if (isNaN(start.getTime())) return '';

    const totalSecs = Math.max(0, Math.floor((Date.now() - start.getTime()) / 1000));
    const days  = Math.floor(totalSecs / 86400);
    const hours = Math.floor((totalSecs % 86400) / 3600);
    const mins  = Math.floor((totalSecs % 3600) / 60);
    const secs  = totalSecs % 60;

    const parts = [];
    if (days > 0)                          parts.push(days  + 'd');
    if (days > 0 || hours > 0)             parts.push(hours + 'h');
    if (days > 0 || hours > 0 || mins > 0) parts.push(mins  + 'm');
    parts.push(secs + 's');

    return parts.join(' ');
}

// Populated by showConfigSheet() and read by showConfigItemDetail() below --
// keyed by setting name, each value is {value, description} as returned by
// GET /admin/config's items map.
let _configItems = {};

// Fetch GET /admin/config and display all server configuration items in a
// read-only sheet. Keys are sorted alphabetically for easy scanning. Each
// item now includes a localized description (see defs.ConfigItem
// server-side); every row is clickable and opens a detail popup showing it
// (see showConfigItemDetail() below).
async function showConfigSheet() {
    const content = document.getElementById('config-content');
    const errorEl = document.getElementById('config-error');

    errorEl.textContent = '';
    content.innerHTML = '<p style="color:#666;font-size:0.85rem;">Loading\u2026</p>';
    document.getElementById('config-overlay').style.display = 'flex';

    // Host name, version, UUID, and start time \u2014 cached in globals by
    // loadServerInfo() at page load \u2014 sit above the Setting/Value table
    // rather than needing their own tab or API call. They render immediately;
    // the host-machine rows below (platform, CPU, memory) come from a second,
    // slightly slower request and are appended once it resolves rather than
    // delaying this table.
    document.getElementById('config-server-info').innerHTML =
        '<table id="config-server-table">' +
        '<tr><td>Host Name</td><td>'   + escapeHtml(_serverHostName || '') + '</td></tr>' +
        '<tr><td>Ego Version</td><td>' + escapeHtml(_serverVersion ? 'v' + _serverVersion : '') + '</td></tr>' +
        '<tr><td>Server UUID</td><td>' + escapeHtml(_serverId || '') + '</td></tr>' +
        '<tr><td>Started</td><td>'     + (_serverStartTime ? escapeHtml(_serverStartTime) + ' (up ' + fmtServerUptime(_serverStartTime) + ')' : '') + '</td></tr>' +
        '</table>';

    // Host machine info (CPU, memory, OS) -- a "GET /admin/serverinfo" call
    // separate from the cached globals above. Best-effort: if it fails (for
    // instance a non-admin caller, though this sheet is admin-only already,
    // or a host that blocks the underlying OS query) the sheet still works
    // fine without these rows, so errors are swallowed rather than shown.
    try {
        const hostRes  = await apiFetch('/admin/serverinfo');
        const hostData = await hostRes.json();

        if (hostRes.ok) {
            // gopsutil reports the OS family as "darwin"; "macOS" is what
            // users actually call it, so substitute it here for display only
            // -- every other field is shown exactly as the server reports it.
            const platformName = hostData.os === 'darwin' ? 'macOS' : (hostData.platform || hostData.os);
            const platformLabel = [platformName, hostData.platformVersion].filter(Boolean).join(' ');

            document.getElementById('config-server-table').insertAdjacentHTML('beforeend',
                '<tr><td>Platform</td><td>'         + escapeHtml(platformLabel) + '</td></tr>' +
                '<tr><td>Architecture</td><td>'      + escapeHtml(hostData.architecture || '') + '</td></tr>' +
                '<tr><td>CPU Cores</td><td>'         + escapeHtml(String(hostData.cpuCores || '')) + '</td></tr>' +
                '<tr><td>Total Memory</td><td>'      + fmtBytes(hostData.totalMemory || 0) + '</td></tr>' +
                '<tr><td>Available Memory</td><td>'  + fmtBytes(hostData.availableMemory || 0) + '</td></tr>');
        }
    } catch (e) {
        console.error('Could not load host info:', e);
    }

    try {
        const res  = await apiFetch('/admin/config');
        const data = await res.json();

        if (!res.ok) {
            errorEl.textContent = data.message || 'Failed to load configuration.';
            content.innerHTML = '';
            return;
        }

        _configItems = data.items || {};
        const keys = Object.keys(_configItems).sort();

        if (keys.length === 0) {
            content.innerHTML = '<p style="color:#666;font-size:0.85rem;">No configuration items found.</p>';
            return;
        }

        // Build a two-column table: Setting | Value.
        // escapeHtml() prevents any HTML characters in keys or values (e.g. < > &)
        // from being interpreted as markup — important for path values on Windows.
        // data-key (not the value/description themselves) is all that goes in
        // the DOM; showConfigItemDetail() looks both up from _configItems.
        const rows = keys.map(k => {
            const item = _configItems[k];

            return `<tr class="config-row" data-key="${escapeHtml(k)}"><td>${escapeHtml(k)}</td><td>${escapeHtml(item.value)}</td></tr>`;
        }).join('');

        content.innerHTML =
            '<table>' +
            '<thead><tr><th>Setting</th><th>Value</th></tr></thead>' +
            '<tbody>' + rows + '</tbody>' +
            '</table>';

    } catch (e) {
        errorEl.textContent = 'Network error. Please try again.';
        content.innerHTML = '';
    }
}

// Hide the configuration sheet.
function hideConfigSheet() {
    document.getElementById('config-overlay').style.display = 'none';
}

// ---------------------------------------------------------------------------
// Config item detail popup
//
// Clicking (or tapping -- there's no separate touch case to handle, a click
// is a click) a row in #config-content opens a small centered dialog showing
// that setting's full name, current value, and description. The click
// listener is delegated onto the static #config-content container --
// registered once here at load time -- rather than attached to individual
// rows, since showConfigSheet() replaces the table's innerHTML every time
// the sheet is opened.
// ---------------------------------------------------------------------------

// Original value of the item currently shown in the popup, used by
// updateConfigItemSaveBtn() to detect whether the value input actually
// differs from the server's current value.
let _configItemOriginalValue = '';

// Set when the most recent submitConfigItemEdit() attempt failed. While
// true, updateConfigItemSaveBtn() keeps Save enabled even if the input has
// been edited back to _configItemOriginalValue -- otherwise a user who
// mistypes a value, sees the PATCH fail, and then retypes the original
// value would find Save disabled again with the error message still on
// screen and no way to re-submit short of closing and reopening the popup.
let _configItemSaveFailed = false;

// Whether the item currently shown in the popup may be edited at all: its
// "readonly" flag (set server-side, see defs.ConfigItem) must be false AND
// the logged-in user must hold ego.root (_isAdmin) -- ego.server.admin is
// not sufficient, matching PATCH /admin/config's own Permissions(RootPermission)
// gate in internal/commands/routes.go. Read by startConfigItemEdit() to guard
// against the pencil button somehow firing while it should be hidden.
let _configItemEditable = false;

// Look up key in _configItems and populate/show the detail popup. Falls back
// to a placeholder message when the setting has no registered description.
// Always opens in the read-only display state (value shown as a span, not an
// input) -- startConfigItemEdit() below switches it into edit mode. The
// pencil button is only shown when _configItemEditable ends up true.
function showConfigItemDetail(key) {
    const item = _configItems[key];
    if (!item) return;

    document.getElementById('config-item-key').textContent   = key;
    document.getElementById('config-item-value').textContent = item.value;
    document.getElementById('config-item-desc').textContent  =
        item.description || 'No description available.';
    document.getElementById('config-item-error').textContent = '';

    _configItemEditable = _isAdmin && !item.readonly;
    _configItemOriginalValue = item.value;
    _configItemSaveFailed = false;

    const valueInput = document.getElementById('config-item-value-input');
    valueInput.value = item.value;

    document.getElementById('config-item-value').style.display = '';
    valueInput.style.display = 'none';
    document.getElementById('config-item-edit-btn').style.display = _configItemEditable ? '' : 'none';
    document.getElementById('config-item-save-btn').style.display = 'none';
    document.getElementById('config-item-save-btn').disabled = true;

    document.getElementById('config-item-overlay').style.display = 'flex';
}

// Close the config item detail popup.
function hideConfigItemDetail() {
    document.getElementById('config-item-overlay').style.display = 'none';
}

// Pencil button handler: swap the read-only value span for an editable input
// pre-filled with the current value, and reveal the (still-disabled) Save
// button. Only reachable when _configItemEditable is true, since that's what
// controls the pencil button's own visibility.
function startConfigItemEdit() {
    if (!_configItemEditable) return;

    document.getElementById('config-item-value').style.display = 'none';
    document.getElementById('config-item-edit-btn').style.display = 'none';

    const valueInput = document.getElementById('config-item-value-input');
    valueInput.style.display = '';
    valueInput.focus();
    valueInput.select();

    document.getElementById('config-item-save-btn').style.display = '';
    document.getElementById('config-item-save-btn').disabled = true;
    _configItemSaveFailed = false;
}

// Enable the Save button once the value input actually diverges from the
// value the popup was opened with, or unconditionally after a failed save
// attempt so the user always has a way to re-submit (even a value that's
// been edited back to the original -- see _configItemSaveFailed). Also
// clears any stale error message left over from a previous attempt once
// the user starts correcting the value.
function updateConfigItemSaveBtn() {
    const valueInput = document.getElementById('config-item-value-input');
    document.getElementById('config-item-save-btn').disabled =
        !_configItemSaveFailed && valueInput.value === _configItemOriginalValue;
    document.getElementById('config-item-error').textContent = '';
}

document.getElementById('config-item-value-input').addEventListener('input', updateConfigItemSaveBtn);

// Save the value input via PATCH /admin/config, which takes a JSON object
// mapping the setting name to its new value (see PatchConfigHandler). On
// success, updates the cached item and the corresponding row in the
// still-open Configuration sheet behind this popup, then closes it.
async function submitConfigItemEdit() {
    const key      = document.getElementById('config-item-key').textContent;
    const newValue = document.getElementById('config-item-value-input').value;
    const errorEl  = document.getElementById('config-item-error');

    errorEl.textContent = '';
    document.getElementById('config-item-save-btn').disabled = true;

    try {
        const token = getToken();
        const res = await fetch('/admin/config', {
            method:  'PATCH',
            headers: {
                'Content-Type':  'application/json',
                'Authorization': token ? 'Bearer ' + token : '',
            },
            body: JSON.stringify({ [key]: newValue }),
        });

        if (res.status === 401) {
            clearToken();
            hideConfigItemDetail();
            showLogin('Session expired. Please sign in again.');
            return;
        }

        if (!res.ok) {
            const data = await res.json().catch(() => ({}));
            errorEl.textContent = data.msg || 'Failed to save setting (HTTP ' + res.status + ').';
            _configItemSaveFailed = true;
            document.getElementById('config-item-save-btn').disabled = false;
            return;
        }

        if (_configItems[key]) _configItems[key].value = newValue;
        document.querySelectorAll('#config-content tr.config-row').forEach(row => {
            if (row.dataset.key === key) row.children[1].textContent = newValue;
        });

        hideConfigItemDetail();
    } catch (e) {
        errorEl.textContent = 'Network error. Please try again.';
        _configItemSaveFailed = true;
        document.getElementById('config-item-save-btn').disabled = false;
    }
}

document.getElementById('config-content').addEventListener('click', e => {
    const row = e.target.closest('tr.config-row');
    if (row) showConfigItemDetail(row.dataset.key);
});

// Load the Tables tab — populates the DSN picker then fetches the table list
// for the currently selected DSN.
async function loadTables() {
    const picker    = document.getElementById('tables-dsn-picker');
    const container = document.getElementById('tables-content');

    // ---- Populate / refresh the DSN picker ----------------------------------
    // Remember which DSN was selected so we can restore it after a refresh.
    const previousDsn = picker.value;

    try {
        const res  = await apiFetch('/dsns');
        const data = await res.json();
        const dsns = (data.items || []).map(d => d.name).sort();

        // Rebuild the <select> options only if the list changed, to avoid a
        // flash of blank content when the user clicks Refresh.
        // picker.options is an HTMLOptionsCollection (an array-like object, but not
        // a real Array). Array.from() converts it so we can use .map() on it.
        const currentOptions = Array.from(picker.options).map(o => o.value);
        const listChanged = dsns.join(',') !== currentOptions.join(',');

        if (listChanged) {
            picker.innerHTML = '';
            if (dsns.length === 0) {
                picker.innerHTML = '<option value="">— no DSNs —</option>';
                container.innerHTML = '<p style="padding:1rem;color:#666;">No DSNs configured.</p>';
                return;
            }
            for (const name of dsns) {
                const opt = document.createElement('option');
                opt.value       = name;
                opt.textContent = name;
                picker.appendChild(opt);
            }
            // Restore previous selection if it still exists.
            if (previousDsn && dsns.includes(previousDsn)) {
                picker.value = previousDsn;
            }
        }
    } catch (e) {
        if (e.message !== 'Unauthorized') console.error('Error loading DSNs for Tables tab:', e);
        return;
    }

    // ---- Fetch the table list for the selected DSN --------------------------
    // If we arrived here via a DSN row click, override the picker with the
    // requested DSN before reading its value. Clear the variable afterwards
    // so a manual Refresh uses the picker's own selection.
    if (_pendingTablesDsn) {
        picker.value      = _pendingTablesDsn;
        _pendingTablesDsn = null;
    }

    const dsn = picker.value;
    if (!dsn) return;

    container.innerHTML = '<p style="padding:1rem;color:#666;">Loading\u2026</p>';

    try {
        const res  = await apiFetch('/dsns/' + encodeURIComponent(dsn) + '/tables');
        const data = await res.json();

        if (!res.ok) {
            container.innerHTML = '<p style="padding:1rem;color:#c0392b;">'
                + escapeHtml(data.msg || 'Failed to load tables (HTTP ' + res.status + ').')
                + '</p>';
            return;
        }

        const tables = data.tables || [];

        if (tables.length === 0) {
            container.innerHTML = '<p style="padding:1rem;color:#666;">No tables found in <strong>'
                + escapeHtml(dsn) + '</strong>.</p>';
            return;
        }

        let html = '<table><thead><tr>'
                 + '<th>Name</th><th>Schema</th><th>Columns</th><th>Rows</th>'
                 + '</tr></thead><tbody>';

        for (const t of tables) {
            html += '<tr data-name="' + escapeHtml(t.name) + '" data-schema="' + escapeHtml(t.schema || '') + '">'
                  + '<td>' + escapeHtml(t.name)         + '</td>'
                  + '<td>' + escapeHtml(t.schema || '')  + '</td>'
                  + '<td>' + t.columns                   + '</td>'
                  + '<td>' + t.rows                      + '</td>'
                  + '</tr>';
        }

        html += '</tbody></table>';
        container.innerHTML = html;

        // Make rows clickable — open the detail sheet for the selected table.
        container.querySelectorAll('tbody tr').forEach(row => {
            row.addEventListener('click', () => {
                showTableDetail(dsn, row.dataset.name);
            });
        });
    } catch (e) {
        if (e.status === 403) {
            container.innerHTML = '<p style="padding:1rem;color:#c0392b;">' + escapeHtml(e.message) + '</p>';
        } else if (e.message !== 'Unauthorized') {
            container.innerHTML = '<p style="padding:1rem;color:#c0392b;">Network error: '
                + escapeHtml(e.message) + '</p>';
        }
    }
}

// DSN and table name currently shown in the table-detail sheet.
let _tableDetailDsn   = '';
let _tableDetailTable = '';

// Open the table-detail sheet and fetch column metadata for the given table.
async function showTableDetail(dsn, tableName) {
    _tableDetailDsn   = dsn;
    _tableDetailTable = tableName;

    const overlay    = document.getElementById('table-detail-overlay');
    const permSec    = document.getElementById('table-permissions-section');
    const permCont   = document.getElementById('table-permissions-content');
    const addPermBtn = document.getElementById('table-detail-add-perm-btn');

    document.getElementById('table-detail-title').textContent  = tableName;
    document.getElementById('table-detail-error').textContent  = '';
    permSec.style.display    = 'none';
    permCont.innerHTML       = '';
    addPermBtn.style.display = 'none';
    overlay.style.display = 'flex';

    // These run as two independent steps (rather than one function) so that a
    // failure or early-out in the metadata fetch never skips the permissions
    // fetch, and vice versa.
    await loadTableColumns(dsn, tableName);
    await loadTablePermissions(dsn, tableName);
}

// Fetch and render the column metadata table in the table-detail sheet.
async function loadTableColumns(dsn, tableName) {
    const content = document.getElementById('table-detail-content');
    content.innerHTML = '<p style="color:#666;font-size:0.85rem;">Loading\u2026</p>';

    try {
        const res  = await apiFetch('/dsns/' + encodeURIComponent(dsn) + '/tables/' + encodeURIComponent(tableName));
        const data = await res.json();

        if (!res.ok) {
            document.getElementById('table-detail-error').textContent =
                data.msg || 'Failed to load table details (HTTP ' + res.status + ').';
            content.innerHTML = '';
            return;
        }

        const columns = data.columns || [];

        if (columns.length === 0) {
            content.innerHTML = '<p style="color:#666;font-size:0.85rem;">No columns found.</p>';
            return;
        }

        let html = '<table><thead><tr>'
                 + '<th>Column</th><th>Type</th><th>Size</th><th>Nullable</th><th>Unique</th>'
                 + '</tr></thead><tbody>';

        for (const col of columns) {
            const size     = col.size > 0 ? col.size : '';
            const nullable = col.nullable && col.nullable.specified ? (col.nullable.value ? 'Yes' : 'No') : '';
            const unique   = col.unique   && col.unique.specified   ? (col.unique.value   ? 'Yes' : 'No') : '';

            html += '<tr>'
                  + '<td>' + escapeHtml(col.name) + '</td>'
                  + '<td>' + escapeHtml(col.type) + '</td>'
                  + '<td>' + size                 + '</td>'
                  + '<td>' + nullable             + '</td>'
                  + '<td>' + unique               + '</td>'
                  + '</tr>';
        }

        html += '</tbody></table>';
        content.innerHTML = html;
    } catch (e) {
        if (e.message !== 'Unauthorized') {
            document.getElementById('table-detail-error').textContent =
                'Network error: ' + e.message;
            content.innerHTML = '';
        }
    }
}

// If the table's parent DSN is restricted, fetch and display table-level
// permissions -- but only for a DSN admin; the underlying endpoints require
// ego.dsn.admin (or ego.root) and would otherwise just 403.
async function loadTablePermissions(dsn, tableName) {
    if (!_isDsnAdmin) return;

    const permSec    = document.getElementById('table-permissions-section');
    const permCont   = document.getElementById('table-permissions-content');
    const addPermBtn = document.getElementById('table-detail-add-perm-btn');

    try {
        const dRes  = await apiFetch('/dsns/' + encodeURIComponent(dsn));
        const dData = await dRes.json();

        if (!dRes.ok || !dData.restricted) return;

        addPermBtn.style.display = '';
        permSec.style.display    = '';
        permCont.innerHTML = '<p style="color:#666;font-size:0.85rem;">Loading permissions\u2026</p>';

        const pRes  = await apiFetch('/dsns/' + encodeURIComponent(dsn) + '/tables/' + encodeURIComponent(tableName) + '/@permissions');
        const pData = await pRes.json();

        if (!pRes.ok) {
            permCont.innerHTML = '<p style="color:#c00;">Failed to load permissions.</p>';
            return;
        }

        const items = pData.permissions || [];

        if (items.length === 0) {
            permCont.innerHTML = '<p style="color:#666;font-size:0.85rem;">No permissions defined.</p>';
            return;
        }

        let pHtml = '<table><thead><tr><th>User</th><th>Permissions</th></tr></thead><tbody>';
        for (const item of items) {
            const permArr  = item.permissions || [];
            const permsStr = permArr.join(', ');
            const safeUser = escapeHtml(item.user);
            // Encode current perms into a data attribute for the click handler.
            const dataPerms = escapeHtml(permArr.join(','));
            pHtml += '<tr class="dsn-row" title="Click to edit permissions for ' + safeUser + '"'
                   + ' onclick="showTablePermEdit(\'' + safeUser + '\', \'' + dataPerms + '\')">'
                   + '<td>' + safeUser + '</td>'
                   + '<td>' + escapeHtml(permsStr) + '</td>'
                   + '</tr>';
        }
        pHtml += '</tbody></table>';
        permCont.innerHTML = pHtml;
    } catch (pe) {
        if (pe.message !== 'Unauthorized') {
            permCont.innerHTML = '<p style="color:#c00;">Network error: ' + escapeHtml(pe.message) + '</p>';
        }
    }
}

// Close the table-detail sheet.
function hideTableDetail() {
    document.getElementById('table-detail-overlay').style.display = 'none';
}

// Switch to the Data tab and pre-select the DSN/table currently shown in the
// table-detail sheet.
function viewDataFromTable() {
    _pendingDataDsn   = _tableDetailDsn;
    _pendingDataTable = _tableDetailTable;
    hideTableDetail();
    openTab('data');
}

// ==========================================================================
// Table permission edit sheet
// ==========================================================================

// Original permissions for the user currently being edited (array of strings).
// Stored so submitTablePermEdit() can diff against the new value.
let _tablePermEditOriginal = [];

// Open the permission edit sheet for a specific user on the current table.
// currentPermsStr is a comma-separated string of the existing permissions.
function showTablePermEdit(user, currentPermsStr) {
    _tablePermEditOriginal = currentPermsStr ? currentPermsStr.split(',').map(p => p.trim()).filter(Boolean) : [];

    document.getElementById('table-perm-edit-error').textContent = '';
    document.getElementById('table-perm-edit-user').value  = user;
    document.getElementById('table-perm-edit-perms').value = _tablePermEditOriginal.join(', ');
    document.getElementById('table-perm-edit-save-btn').disabled   = false;
    document.getElementById('table-perm-edit-delete-btn').disabled = false;
    document.getElementById('table-perm-edit-overlay').style.display = 'flex';
    captureBaseline('table-perm-edit-overlay');
    document.getElementById('table-perm-edit-perms').focus();
}

// Close the permission edit sheet without saving.
function hideTablePermEdit() {
    document.getElementById('table-perm-edit-overlay').style.display = 'none';
}

// PUT the diffed permission changes (built by buildPermActions(), shared with
// the DSN permission sheets) to the table's permissions endpoint. Each entry
// is prefixed "+" to grant or "-" to revoke, matching what GrantPermissions
// on the server expects.
async function submitTablePermEdit() {
    const user     = document.getElementById('table-perm-edit-user').value;
    const permsRaw = document.getElementById('table-perm-edit-perms').value;
    const newPerms = permsRaw.split(',').map(p => p.trim()).filter(Boolean);

    const actions = buildPermActions(_tablePermEditOriginal, newPerms);
    if (actions.length === 0) {
        hideTablePermEdit();
        return;
    }

    document.getElementById('table-perm-edit-save-btn').disabled = true;

    try {
        const token = getToken();
        const url = '/dsns/' + encodeURIComponent(_tableDetailDsn) + '/tables/' + encodeURIComponent(_tableDetailTable)
                  + '/permissions?user=' + encodeURIComponent(user);
        const res = await fetch(url, {
            method:  'PUT',
            headers: {
                'Content-Type':  'application/json',
                'Authorization': token ? 'Bearer ' + token : '',
            },
            body: JSON.stringify(actions),
        });

        if (res.status === 401) {
            clearToken();
            hideTablePermEdit();
            hideTableDetail();
            showLogin('Session expired. Please sign in again.');
            return;
        }

        if (!res.ok) {
            const data = await res.json().catch(() => ({}));
            document.getElementById('table-perm-edit-error').textContent =
                data.msg || 'Failed to update permissions (HTTP ' + res.status + ').';
            return;
        }

        // Refresh the table detail sheet to show updated permissions.
        hideTablePermEdit();
        showTableDetail(_tableDetailDsn, _tableDetailTable);
    } catch (e) {
        document.getElementById('table-perm-edit-error').textContent = 'Network error. Please try again.';
    } finally {
        document.getElementById('table-perm-edit-save-btn').disabled = false;
    }
}

// Remove all permissions for the current user on this table.
async function submitDeleteTablePerm() {
    const user = document.getElementById('table-perm-edit-user').value;

    if (!confirm('Remove all permissions for "' + user + '" on table "' + _tableDetailTable + '"?')) return;

    document.getElementById('table-perm-edit-delete-btn').disabled = true;

    try {
        const token = getToken();
        const url = '/dsns/' + encodeURIComponent(_tableDetailDsn) + '/tables/' + encodeURIComponent(_tableDetailTable)
                  + '/permissions?user=' + encodeURIComponent(user);
        const res = await fetch(url, {
            method:  'DELETE',
            headers: {
                'Authorization': token ? 'Bearer ' + token : '',
            },
        });

        if (res.status === 401) {
            clearToken();
            hideTablePermEdit();
            hideTableDetail();
            showLogin('Session expired. Please sign in again.');
            return;
        }

        if (!res.ok) {
            const data = await res.json().catch(() => ({}));
            document.getElementById('table-perm-edit-error').textContent =
                data.msg || 'Failed to delete permissions (HTTP ' + res.status + ').';
            return;
        }

        hideTablePermEdit();
        showTableDetail(_tableDetailDsn, _tableDetailTable);
    } catch (e) {
        document.getElementById('table-perm-edit-error').textContent = 'Network error. Please try again.';
    } finally {
        document.getElementById('table-perm-edit-delete-btn').disabled = false;
    }
}

// ==========================================================================
// Add table permission sheet
// ==========================================================================

// Open the add-permission sheet with blank fields.
function showTablePermAdd() {
    document.getElementById('table-perm-add-error').textContent = '';
    document.getElementById('table-perm-add-user').value  = '';
    document.getElementById('table-perm-add-perms').value = '';
    document.getElementById('table-perm-add-save-btn').disabled = false;
    document.getElementById('table-perm-add-overlay').style.display = 'flex';
    captureBaseline('table-perm-add-overlay');
    document.getElementById('table-perm-add-user').focus();
}

// Close the add-permission sheet without saving.
function hideTablePermAdd() {
    document.getElementById('table-perm-add-overlay').style.display = 'none';
}

// PUT new permissions to the table's permissions endpoint, then refresh the
// table detail sheet.
async function submitTablePermAdd() {
    const user     = document.getElementById('table-perm-add-user').value.trim();
    const permsRaw = document.getElementById('table-perm-add-perms').value;
    const perms    = permsRaw.split(',').map(p => p.trim()).filter(Boolean);

    if (!user) {
        document.getElementById('table-perm-add-error').textContent = 'User is required.';
        return;
    }
    if (perms.length === 0) {
        document.getElementById('table-perm-add-error').textContent = 'At least one permission is required.';
        return;
    }

    document.getElementById('table-perm-add-save-btn').disabled = true;

    try {
        const token = getToken();
        const url = '/dsns/' + encodeURIComponent(_tableDetailDsn) + '/tables/' + encodeURIComponent(_tableDetailTable)
                  + '/permissions?user=' + encodeURIComponent(user);
        const res = await fetch(url, {
            method:  'PUT',
            headers: {
                'Content-Type':  'application/json',
                'Authorization': token ? 'Bearer ' + token : '',
            },
            body: JSON.stringify(perms.map(p => '+' + p)),
        });

        if (res.status === 401) {
            clearToken();
            hideTablePermAdd();
            hideTableDetail();
            showLogin('Session expired. Please sign in again.');
            return;
        }

        if (!res.ok) {
            const data = await res.json().catch(() => ({}));
            document.getElementById('table-perm-add-error').textContent =
                data.msg || 'Failed to add permissions (HTTP ' + res.status + ').';
            return;
        }

        hideTablePermAdd();
        showTableDetail(_tableDetailDsn, _tableDetailTable);
    } catch (e) {
        document.getElementById('table-perm-add-error').textContent = 'Network error. Please try again.';
    } finally {
        document.getElementById('table-perm-add-save-btn').disabled = false;
    }
}

