// dashboard-core.js
// Foundations used by every other dashboard file: cookie helpers, the
// persisted settings layer, token storage, the inactivity timer, the
// authenticated fetch wrapper, and overlay dismissal.
//
// This file must load first -- everything else assumes these exist.
//
// THE DASHBOARD (HTML, CSS, AND JAVASCRIPT) WERE PROTOTYPED BY CLAUDE
// CODE, and extended by both Claude Code and human developers. The dashboard
// code is reviewed and tested by humans before any changes are committed.
// The dashboard uses api endpoints in the Ego  server that were written by
// humans, as is the rest of the Ego server.
//
// LOAD ORDER MATTERS. These files are plain <script> tags, not modules, so
// they all share one global scope -- but a function declaration is hoisted
// only within its own file. Anything that runs immediately at the top level
// may therefore only call functions declared in the same file or an earlier
// one. Deferred code (event handlers, callbacks, timers) is unrestricted,
// because by the time it runs every file has loaded. dashboard.html lists the
// files in this order:
//
//     dashboard-core.js        cookies, settings, token, idle timer, fetch
//     dashboard-admin.js       tab loaders, DSN permission and config sheets
//     dashboard-data.js        Data tab and its row editor
//     dashboard-sql.js         SQL tab, highlighting, and the SQL formatter
//     dashboard-sqlwizard.js   Build wizard and the SQL statement parser
//     dashboard-ui.js          tab switching, login, user/DSN sheets, log tab
//     dashboard-code.js        Code tab: editor, run, debugger, console
//     dashboard-startup.js     entry point, then passkey support
//
// Note also that names declared at the top level of any of these files are
// shared across all of them. The minifier deliberately never renames such
// names (see internal/util/javascript/minify.go), which is what makes serving
// them as separate files safe.
//
// ==========================================================================
// Cookie helpers
//
// Thin wrappers around document.cookie so the rest of the code doesn't need
// to deal with cookie string parsing directly.
// ==========================================================================

// Attributes applied to every cookie written by this dashboard:
//   Secure       — transmitted only over HTTPS (same scheme as the dashboard)
//   SameSite=Strict — never sent on cross-site requests (same host)
//   path=/       — scoped to the entire site (no Domain attribute, so the
//                  browser restricts it to the exact host — no subdomains)
//
// Browsers do not support port-level cookie isolation, so Secure +
// SameSite=Strict + no Domain is the tightest restriction available.
//
// Secure is only appended when the dashboard itself was loaded over HTTPS.
// Browsers silently refuse to *set* a cookie carrying the Secure attribute
// from a plain-HTTP page — so when the server is run without TLS (e.g.
// `ego server start -k`), unconditionally including Secure meant every
// cookie write from this file was a silent no-op and nothing ever persisted.
const COOKIE_SECURE = location.protocol === 'https:' ? '; Secure' : '';
const COOKIE_ATTRS = '; path=/; SameSite=Strict' + COOKIE_SECURE;

// Write a cookie. maxAgeSeconds sets when it expires (omit or 0 for session).
function setCookie(name, value, maxAgeSeconds) {
    let cookie = encodeURIComponent(name) + '=' + encodeURIComponent(value) + COOKIE_ATTRS;
    if (maxAgeSeconds) cookie += '; max-age=' + maxAgeSeconds;
    document.cookie = cookie;
}

// Read a cookie by name. Returns the value string, or null if not set.
function getCookie(name) {
    const prefix = encodeURIComponent(name) + '=';
    for (const part of document.cookie.split(';')) {
        const trimmed = part.trim();
        if (trimmed.startsWith(prefix)) {
            return decodeURIComponent(trimmed.slice(prefix.length));
        }
    }
    return null;
}

// Delete a cookie by setting its max-age to 0.
// Must use the same attributes as setCookie so the browser matches the cookie.
function deleteCookie(name) {
    document.cookie = encodeURIComponent(name) + '=; max-age=0' + COOKIE_ATTRS;
}

// ==========================================================================
// Settings — persisted as browser cookies
// ==========================================================================

const COOKIE_TOKEN           = 'ego_dashboard_token';
const COOKIE_REMEMBER        = 'ego_dashboard_remember';
const COOKIE_DARK_MODE       = 'ego_dashboard_dark';
const COOKIE_ACTIVE_TAB      = 'ego_dashboard_tab';
const COOKIE_LOG_TAIL        = 'ego_dashboard_log_tail';
const COOKIE_LOG_FILTER      = 'ego_dashboard_log_filter'; // JSON: {session, msg, classes}
const COOKIE_ROLE            = 'ego_dashboard_role'; // 'admin', or a comma-separated list of 'serveradmin'/'coder'/'sql', or ''
const COOKIE_IDENTITY        = 'ego_dashboard_identity'; // logged-in username, for display only
const COOKIE_SHOW_CONSOLE    = 'ego_dashboard_show_console';
const COOKIE_CODE_FORMAT     = 'ego_dashboard_code_format'; // reformat editor source before Run/Debug (default OFF)
const COOKIE_TOOLBAR_STYLE   = 'ego_dashboard_toolbar_style'; // 'text' (icon+label, default) or 'icons' (icon only)
const COOKIE_PASSKEY_OFFERED = 'ego_dashboard_passkey_no'; // set when user says "don't ask again"
const COOKIE_USE_PASSKEYS    = 'ego_dashboard_use_passkeys'; // user preference: use passkeys (default ON)
const COOKIE_IDLE_TIMEOUT    = 'ego_dashboard_idle_timeout'; // server-provided duration string (e.g. "15m"), from login
const TOKEN_MAX_AGE          = 86400;      // 24 hours in seconds
const PASSKEY_NO_MAX_AGE     = 7776000;    // 90 days in seconds
// UI preferences (dark mode, remember-login choice, active tab, etc.) carry
// no credential material, so there is no security reason to cap their
// lifetime the way the bearer token is capped -- give them a long, effectively
// "until changed" lifetime so they survive closing and reopening the browser.
const SETTINGS_MAX_AGE       = 31536000;   // 1 year in seconds

// Tab IDs whose visibility depends on the logged-in user's permissions.
// 'dsns', 'tables', and 'data' are deliberately absent -- every user who can
// log in at all is allowed to use them, regardless of role. See
// tabPermitted() below for the rule applied to each tab in this list.
const PERMISSION_TABS = ['memory', 'users', 'log', 'sql', 'code'];

// Permission-string constants understood by the dashboard. Must match the
// server's internal/defs/permissions.go values.
const PERM_ROOT         = 'ego.root';
const PERM_SERVER_ADMIN = 'ego.server.admin';
const PERM_SQL          = 'ego.sql';
const PERM_CODE         = 'ego.code';
const PERM_DSN_ADMIN    = 'ego.dsn.admin';

// Derive the dashboard's role booleans from the permissions list returned
// by a successful login (POST /services/admin/logon, or the passkey
// login/finish endpoint). ego.root grants every dashboard privilege; the
// other permissions each unlock one additional area on top of the baseline
// every logged-in user gets (DSNs, Tables, and Data).
function rolesFromPermissions(permissions) {
    const perms = permissions || [];
    const admin = perms.includes(PERM_ROOT);

    return {
        admin:       admin,
        serverAdmin: admin || perms.includes(PERM_SERVER_ADMIN),
        coder:       admin || perms.includes(PERM_CODE),
        sql:         admin || perms.includes(PERM_SQL),
        dsnAdmin:    admin || perms.includes(PERM_DSN_ADMIN),
    };
}

// EGO_LANG holds the language code explicitly requested via ?lang= when the
// dashboard was fetched (e.g. /ui?lang=fr).  The server validates the value,
// substitutes it for the __EGO_LANG__ placeholder in dashboard.html, and embeds
// it in a <meta name="ego-lang"> tag before sending the page.
//
// When the operator did not supply ?lang=, or supplied an unsupported code, the
// server leaves the meta tag content empty.  In that case EGO_LANG is '' here,
// and apiFetch() deliberately omits the Accept-Language header so the browser
// can send its own native value — reflecting the user's actual OS/browser locale
// settings — rather than the server silently assuming a default language.
const EGO_LANG = document.querySelector('meta[name="ego-lang"]')?.content || '';

// Return the number of log lines to fetch (stored as a cookie, default 500).
function getLogTail() {
    // parseInt(string, 10) converts a string to a whole number in base 10 (decimal).
    // Always pass the second argument (the radix) to prevent misinterpretation
    // of strings with leading zeros, which some engines read as octal (base 8).
    const v = parseInt(getCookie(COOKIE_LOG_TAIL), 10);
    return v > 0 ? v : 500;
}

// Save the number of log lines to fetch.
function setLogTail(value) {
    setCookie(COOKIE_LOG_TAIL, String(value), SETTINGS_MAX_AGE);
}

// The server-side log filter currently in effect.
//
// session is a number (0 means every session), msg is a wildcard pattern (''
// means every message), and classes is an array of logging class names (an
// empty array means every class). archive asks the server to also read past
// the active log file into older rolled-over files and the zip archive, if
// one is configured. since and until are RFC 3339 timestamp strings ('' means
// no bound on that end) that restrict results to a time range. serverId is a
// glob pattern ('' means every server) matched against the writing server's
// UUID -- it only means anything together with archive (the active log file
// is written by one running process, so every entry in it already shares one
// ID), so the UI never lets it be set while archive is off; see
// applyLogFilter() and the archive checkbox's change handler. These seven are
// sent to the server as query parameters; the line count is kept separately
// in its own cookie because it is a lasting preference rather than part of a
// filter the user clears.
let logFilterState = { session: 0, msg: '', classes: [], archive: false, since: '', until: '', serverId: '' };

// Read the saved filter back out of its cookie. A filter is worth remembering
// across a page reload -- otherwise switching tabs and back silently throws it
// away -- but not worth remembering for a year like the display preferences
// are, so it rides on the same settings lifetime and is easy to clear.
function loadLogFilter() {
    // JSON.parse turns the stored text back into an object. It throws on
    // malformed input, so a cookie corrupted or written by an older version of
    // the dashboard falls back to "no filter" rather than breaking the tab.
    try {
        const saved = JSON.parse(getCookie(COOKIE_LOG_FILTER) || '{}');
        const archive = saved.archive === true;

        logFilterState = {
            session:  parseInt(saved.session, 10) > 0 ? parseInt(saved.session, 10) : 0,
            msg:      typeof saved.msg === 'string' ? saved.msg : '',
            classes:  Array.isArray(saved.classes) ? saved.classes : [],
            archive:  archive,
            since:    typeof saved.since === 'string' ? saved.since : '',
            until:    typeof saved.until === 'string' ? saved.until : '',
            // Only trusted when archive is also on -- a cookie written by an
            // older dashboard version, or hand-edited, could otherwise smuggle
            // in the one combination the server refuses.
            serverId: archive && typeof saved.serverId === 'string' ? saved.serverId : '',
        };
    } catch (e) {
        logFilterState = { session: 0, msg: '', classes: [], archive: false, since: '', until: '', serverId: '' };
    }
}

// Persist the current filter.
function saveLogFilter() {
    setCookie(COOKIE_LOG_FILTER, JSON.stringify(logFilterState), SETTINGS_MAX_AGE);
}

// Is any filter actually restricting what comes back?
function isLogFilterActive() {
    return logFilterState.session > 0 ||
           logFilterState.msg !== '' ||
           logFilterState.classes.length > 0 ||
           logFilterState.archive ||
           logFilterState.since !== '' ||
           logFilterState.until !== '' ||
           logFilterState.serverId !== '';
}

// Load the "remember login" preference from its cookie (default: false).
function getRememberLogin() {
    return getCookie(COOKIE_REMEMBER) === '1';
}

// Save the "remember login" preference. Turning it off immediately forgets
// any already-persisted session (token + role) instead of merely leaving it
// untouched -- otherwise a stale token cookie from an earlier "remembered"
// login (possibly a different user) would still be silently restored the
// next time the dashboard loads, even though the checkbox now shows unchecked.
function setRememberLogin(value) {
    setCookie(COOKIE_REMEMBER, value ? '1' : '0', SETTINGS_MAX_AGE);
    if (!value) {
        deleteCookie(COOKIE_TOKEN);
        deleteCookie(COOKIE_ROLE);
        deleteCookie(COOKIE_IDENTITY);
    }
}

// Load the "dark mode" preference: 'on', 'off', or 'auto' (match the
// browser/OS setting -- see systemPrefersDark). Defaults to 'auto' when the
// cookie is absent. A legacy '1'/'0' value, from before this setting had
// three states, is read back as 'on'/'off' so an existing explicit choice
// carries over instead of silently becoming 'auto'.
function getDarkMode() {
    const v = getCookie(COOKIE_DARK_MODE);
    if (v === '1') return 'on';
    if (v === '0') return 'off';
    return (v === 'on' || v === 'off') ? v : 'auto';
}

// Save the "dark mode" preference and apply it immediately.
function setDarkMode(value) {
    setCookie(COOKIE_DARK_MODE, value, SETTINGS_MAX_AGE);
    applyDarkModeSetting(value);
}

// True when the browser/OS reports a dark color-scheme preference.
// prefers-color-scheme has been part of the standard Media Queries spec
// since 2019 and is supported by every current browser (Safari 12.1+,
// Chrome/Edge 76+, Firefox 67+) -- not a Safari-specific feature.
function systemPrefersDark() {
    return window.matchMedia && window.matchMedia('(prefers-color-scheme: dark)').matches;
}

// Resolve the 'on'/'off'/'auto' setting to an actual true/false and apply it.
function applyDarkModeSetting(setting) {
    applyDarkMode(setting === 'auto' ? systemPrefersDark() : setting === 'on');
}

// If the browser/OS theme changes while "Auto" is selected, follow it live
// instead of waiting for the next page load.
if (window.matchMedia) {
    window.matchMedia('(prefers-color-scheme: dark)').addEventListener('change', () => {
        if (getDarkMode() === 'auto') applyDarkModeSetting('auto');
    });
}

// Load the "use passkeys" preference from its cookie (default: true — absent cookie means ON).
// When false, passkey UI is suppressed regardless of the server configuration.
function getUsePasskeys() {
    const v = getCookie(COOKIE_USE_PASSKEYS);
    return v === null || v === '1'; // default ON when cookie is absent
}

// Save the "use passkeys" preference and re-apply all passkey UI immediately.
function setUsePasskeys(value) {
    setCookie(COOKIE_USE_PASSKEYS, value ? '1' : '0', SETTINGS_MAX_AGE);
    applyPasskeyLoginUI();
}

// passkeysActive returns true only when BOTH the server has passkeys enabled AND
// the user has not turned them off in Settings.  Use this everywhere instead of
// checking _passkeysEnabled directly.
function passkeysActive() {
    return _passkeysEnabled && getUsePasskeys();
}

// Load the "show console" preference from its cookie (default: true).
function getShowConsole() {
    const v = getCookie(COOKIE_SHOW_CONSOLE);
    return v === null || v === '1'; // default ON when cookie is absent
}

// Save the "show console" preference.
function setShowConsole(value) {
    setCookie(COOKIE_SHOW_CONSOLE, value ? '1' : '0', SETTINGS_MAX_AGE);
}

// Load the "reformat before Run/Debug" preference from its cookie (default:
// false). Unlike Console/passkeys, this defaults OFF when the cookie is
// absent -- it drives a still-new server-side AST formatter, so new users
// have to opt in rather than have it silently rewrite their source.
function getCodeFormat() {
    return getCookie(COOKIE_CODE_FORMAT) === '1';
}

// Save the "reformat before Run/Debug" preference.
function setCodeFormat(value) {
    setCookie(COOKIE_CODE_FORMAT, value ? '1' : '0', SETTINGS_MAX_AGE);
}

// Load the "toolbar button style" preference: 'text' (icon + label, the
// default) or 'icons' (icon only, no label). Applies uniformly to every
// tab's toolbar, including the Log tab, which shows icons only unless this
// is 'text'.
function getToolbarStyle() {
    return getCookie(COOKIE_TOOLBAR_STYLE) === 'icons' ? 'icons' : 'text';
}

// Save the "toolbar button style" preference and apply it immediately.
function setToolbarStyle(value) {
    setCookie(COOKIE_TOOLBAR_STYLE, value, SETTINGS_MAX_AGE);
    applyToolbarStyle(value);
}

// Toggle the body class that CSS uses to collapse every toolbar button down
// to icon-only (or expand every icon-only button up to icon+label). No
// per-button JS is needed: every affected button's label lives in a
// <span class="btn-label">, and this class alone decides whether it's shown.
function applyToolbarStyle(value) {
    document.body.classList.toggle('toolbar-icons-only', value === 'icons');
}

// Apply or remove the dark class on <body>. All tabs, including the Code tab,
// respond to this — the Code tab uses CSS custom properties that are overridden
// by body.dark #code-ui, so no special handling is needed here.
function applyDarkMode(value) {
    document.body.classList.toggle('dark', value);
    const logoSrc = value
        ? '/assets/dashboard/dark-logo.png'
        : '/assets/dashboard/logo.png';
    const logo = document.getElementById('header-logo');
    if (logo) logo.src = logoSrc;
    const loginLogo = document.getElementById('login-logo');
    if (loginLogo) loginLogo.src = logoSrc;
}

// ==========================================================================
// Token storage — in-memory, optionally also persisted as a cookie
//
// The bearer token is always kept in the plain JS variable _token for the
// current session. When the "Remember login" setting is enabled, it is also
// written to a cookie so that a page refresh restores the session without
// requiring a new login.
// ==========================================================================

// The current bearer token. null means the user is not logged in.
let _token = null;

// Server start time string (time.UnixDate format), hostname, version, and
// instance UUID, all captured once from /services/up at page load. Also used
// by fmtUptime() in loadMemory() (Metrics' Uptime row) and by
// showConfigSheet(), which displays all four at the top of the Configuration
// sheet.
let _serverStartTime = null;
let _serverHostName  = null;
let _serverVersion   = null;
let _serverId        = null;

// When the user clicks a DSN row, this is set to the DSN name before openTab('tables')
// is called, so loadTables() can pre-select it in the picker.
let _pendingTablesDsn = null;

// Role flags for the currently logged-in user. All start false; they are
// set by setRole() after a successful login. _isAdmin means the user holds
// ego.root (every privilege); _isServerAdmin additionally covers
// ego.server.admin, which unlocks the Status/Users/Log tabs but not
// Code/SQL. _isDsnAdmin covers ego.dsn.admin, which unlocks creating new
// DSNs (the DSNs tab itself is visible to everyone).
let _isAdmin = false;
let _isServerAdmin = false;
let _isCoder = false;
let _isSql = false;
let _isDsnAdmin = false;

// Username of the currently logged-in user. Set on every successful login so
// the edit-user sheet can decide whether to show the passkey registration button
// (passkeys can only be registered by the owner of the account).
let _currentUser = '';

// Whether the server has passkeys enabled (ego.server.allow.passkeys).
// Loaded once at startup from /services/admin/webauthn/config. Defaults to
// false so all passkey UI stays hidden until the server confirms it's on.
let _passkeysEnabled = false;

// Return the current token (or null if not logged in).
function getToken() {
    return _token;
}

// Store a new token. If "remember login" is on, persist it to a cookie too;
// otherwise make sure no stale token cookie from an earlier remembered login
// is left behind to be silently restored on the next page load.
function setToken(token) {
    _token = token;
    if (getRememberLogin()) {
        setCookie(COOKIE_TOKEN, token, TOKEN_MAX_AGE);
    } else {
        deleteCookie(COOKIE_TOKEN);
    }
}

// Discard the token from memory and from any persisted cookie. Also clears
// the stored role so the next login starts from a clean state.
function clearToken() {
    _token = null;
    deleteCookie(COOKIE_TOKEN);
    clearRole();
}

// Encode the current in-memory role flags (_isAdmin/_isServerAdmin/_isCoder/
// _isSql/_isDsnAdmin) as the COOKIE_ROLE string value: 'admin' for full
// access, otherwise a comma-separated list of whichever of
// 'serveradmin'/'coder'/'sql'/'dsnadmin' apply (e.g. 'coder',
// 'serveradmin,sql'), or '' for none of those -- which still leaves the
// baseline DSNs/Tables/Data tabs available. Shared by setRole() and the
// "remember login" toggle handler in dashboard-ui.js so the encoding lives
// in exactly one place.
function roleCookieValue() {
    if (_isAdmin) return 'admin';

    const flags = [];
    if (_isServerAdmin) flags.push('serveradmin');
    if (_isCoder) flags.push('coder');
    if (_isSql) flags.push('sql');
    if (_isDsnAdmin) flags.push('dsnadmin');

    return flags.join(',');
}

// Store the user's role flags. 'admin' means full access (ego.root);
// 'serverAdmin' unlocks Status/Users/Log, 'coder' unlocks Code, 'sql'
// unlocks SQL, 'dsnAdmin' unlocks creating new DSNs -- a non-admin user can
// hold any combination of these, or none, and still use the baseline
// DSNs/Tables/Data tabs. The optional identity parameter records the
// logged-in username.
//
// The role and identity cookies' lifetimes always mirror the token cookie's:
// both persist across restarts when "remember login" is on, and both are
// session-scoped (and cleaned up immediately) when it's off. They used to
// have independent lifetimes (role was always session-only, and identity
// was never persisted at all) which could desync after a restart -- token
// still valid, role/identity gone -- leaving a "logged in" user with no role
// (and therefore no visible tabs) or an unlabeled "Logging in as" line.
function setRole(admin, serverAdmin, coder, sqlUser, dsnAdmin, identity) {
    _isAdmin = !!admin;
    _isServerAdmin = _isAdmin || !!serverAdmin;
    _isCoder = _isAdmin || !!coder;
    _isSql = _isAdmin || !!sqlUser;
    _isDsnAdmin = _isAdmin || !!dsnAdmin;
    if (identity) _currentUser = identity;

    if (getRememberLogin()) {
        setCookie(COOKIE_ROLE, roleCookieValue(), TOKEN_MAX_AGE);
        if (_currentUser) setCookie(COOKIE_IDENTITY, _currentUser, TOKEN_MAX_AGE);
    } else {
        deleteCookie(COOKIE_ROLE);
        deleteCookie(COOKIE_IDENTITY);
    }
}

// Restore role flags and identity from their saved cookies. Called on page
// load when a remembered token is restored.
function restoreRole() {
    const r = getCookie(COOKIE_ROLE) || '';
    const flags = r.split(',');
    _isAdmin = (r === 'admin');
    _isServerAdmin = _isAdmin || flags.includes('serveradmin');
    _isCoder = _isAdmin || flags.includes('coder');
    _isSql = _isAdmin || flags.includes('sql');
    _isDsnAdmin = _isAdmin || flags.includes('dsnadmin');
    _currentUser = getCookie(COOKIE_IDENTITY) || '';
}

// Clear the role state from memory and from the cookie.
function clearRole() {
    _isAdmin = false;
    _isServerAdmin = false;
    _isCoder = false;
    _isSql = false;
    _isDsnAdmin = false;
    _currentUser = '';
    deleteCookie(COOKIE_ROLE);
    deleteCookie(COOKIE_IDENTITY);
}

// Whether the current user is allowed to see tabId. 'memory' (Server),
// 'users', and 'log' require server-admin privilege (ego.root or
// ego.server.admin); 'sql' requires ego.sql (or ego.root); 'code' requires
// ego.code (or ego.root). Every tab not in PERMISSION_TABS -- DSNs, Tables,
// Data -- is available to any logged-in user.
function tabPermitted(tabId) {
    switch (tabId) {
        case 'memory':
        case 'users':
        case 'log':
            return _isServerAdmin;
        case 'sql':
            return _isSql;
        case 'code':
            return _isCoder;
        default:
            return true;
    }
}

// Show or hide the permission-gated tab buttons based on the current user's
// role -- see tabPermitted() above for the rule applied to each. Also shows
// or hides the "+ New DSN" button: the DSNs tab itself is visible to any
// logged-in user, but creating a DSN additionally requires ego.dsn.admin
// (or ego.root). This must be called after every login and after every
// page-load token restore.
function applyTabVisibility() {
    PERMISSION_TABS.forEach(tabId => {
        // Each tab button is a <div> with class matching the tab ID (e.g. class="memory").
        // There is exactly one such element per tab, so querySelector is safe here.
        const btn = document.querySelector('.tab-container .' + tabId);
        if (btn) {
            btn.style.display = tabPermitted(tabId) ? '' : 'none';
        }
    });

    const newDsnBtn = document.getElementById('new-dsn-btn');
    if (newDsnBtn) newDsnBtn.style.display = _isDsnAdmin ? '' : 'none';
}

// Pick the tab a user without server-admin access should land on: Code if
// they hold ego.code (or ego.root, preferred when they hold both, matching
// the historical "coders land on Code" behavior), otherwise SQL if they
// hold ego.sql, otherwise DSNs -- the first of the tabs every logged-in
// user can see regardless of permissions.
function defaultNonAdminTab() {
    if (_isCoder) return 'code';
    if (_isSql) return 'sql';

    return 'dsns';
}

// ==========================================================================
// Inactivity timer
//
// If the user does nothing for idleTimeoutMs the token is automatically
// cleared and the login overlay is shown. Any mouse movement, click, key
// press, or scroll on the page resets the clock.
//
// The timeout duration comes from the server (ego.server.dashboard.inactivity,
// a Go duration string such as "15m"), delivered as part of the logon
// response -- see setIdleTimeout() below, called from both the password and
// passkey login success handlers. It is also cached in a cookie so a
// restored ("Remember login") session uses the same value without needing a
// fresh login. DEFAULT_IDLE_TIMEOUT_MS is only a fallback for the brief
// window before any login has ever supplied a real value (or if the cookie
// is absent/unparseable), and matches the server's own default.
//
// How it works:
//   - setInterval() runs a function repeatedly on a fixed interval.
//     Here we check every minute whether the user has been idle too long.
//   - "Activity" events update the lastActivity timestamp each time they fire.
//   - When the idle check finds that (now - lastActivity) exceeds the
//     timeout, it clears the token and shows the login screen.
// ==========================================================================

const DEFAULT_IDLE_TIMEOUT_MS = 15 * 60 * 1000; // 15 minutes -- matches the server's own default

// Parse a Go-style duration string ("15m", "1h30m", "2d") into milliseconds.
// Supports the same units the server accepts for this setting: d (days, an
// Ego-specific extension -- see util.ParseDuration), h, m, s. Returns null if
// the string contains no recognizable number+unit pair.
function parseDurationMs(str) {
    if (!str) return null;

    const unitMs = { d: 86400000, h: 3600000, m: 60000, s: 1000 };
    const re = /(\d+(?:\.\d+)?)(d|h|m|s)/g;
    let total = 0;
    let matched = false;
    let m;

    while ((m = re.exec(str)) !== null) {
        matched = true;
        total += parseFloat(m[1]) * unitMs[m[2]];
    }

    return matched ? total : null;
}

// The active idle timeout, in milliseconds. Initialized from the cookie left
// by a previous login (if any and if it still parses), so a page reload uses
// the last known server value even before any fresh login response arrives.
let idleTimeoutMs = parseDurationMs(getCookie(COOKIE_IDLE_TIMEOUT)) || DEFAULT_IDLE_TIMEOUT_MS;

// Apply the server's ego.server.dashboard.inactivity value from a logon
// response. Called after every successful password or passkey login. An
// empty or unparseable string is ignored, leaving whatever timeout was
// already in effect.
function setIdleTimeout(durationString) {
    const ms = parseDurationMs(durationString);
    if (ms) {
        idleTimeoutMs = ms;
        setCookie(COOKIE_IDLE_TIMEOUT, durationString, SETTINGS_MAX_AGE);
    }
}

// Record the time of the most recent user activity. Date.now() returns the
// current time as a number (milliseconds since 1 January 1970).
let lastActivity = Date.now();

// Update lastActivity whenever the user interacts with the page.
// We listen on the document (the whole page) for four common activity events.
['mousemove', 'mousedown', 'keydown', 'scroll'].forEach(eventName => {
    document.addEventListener(eventName, () => { lastActivity = Date.now(); }, { passive: true });
    // passive:true is a performance hint — it tells the browser this listener
    // will never call preventDefault(), so it doesn't need to wait for it.
});

// Check for inactivity every 60 seconds. If the gap since the last activity
// exceeds the timeout, treat it as an automatic logoff.
setInterval(() => {
    if (_token && (Date.now() - lastActivity) >= idleTimeoutMs) {
        clearToken();
        showLogin('Signed out due to inactivity.');
    }
}, 60 * 1000); // run this check once per minute

// ==========================================================================
// Authenticated fetch wrapper
//
// All API calls in this dashboard go through apiFetch() rather than calling
// fetch() directly. This ensures every request automatically includes the
// Authorization header with the bearer token, and that a 401 response
// (meaning the token itself is missing or invalid) is handled consistently
// by showing the login overlay. A 403 (valid token, insufficient permission
// for this resource) is left for the caller to handle inline -- see the
// per-status comments below.
//
// "async" means this function returns a Promise and can use "await" inside
// it, allowing asynchronous network calls to be written in a linear style.
// ==========================================================================
async function apiFetch(url) {
    const token = getToken();

    // Build the request headers incrementally so that each header is only
    // present when it actually has a meaningful value to contribute.
    const headers = {};

    // Include the bearer token only when one is available.  Omitting the
    // Authorization header entirely (rather than sending an empty value) is
    // the correct behavior for unauthenticated requests.
    if (token) {
        headers['Authorization'] = 'Bearer ' + token;
    }

    // Include an explicit Accept-Language header only when the operator
    // requested a specific language via ?lang= when loading the dashboard.
    // When EGO_LANG is empty the browser automatically sends its own
    // Accept-Language header based on the user's OS/browser locale settings,
    // which is exactly the behavior we want — no server-imposed default.
    if (EGO_LANG) {
        headers['Accept-Language'] = EGO_LANG;
    }

    const res = await fetch(url, { headers });

    // 401 = Unauthorized (token missing or invalid) — the session itself is
    // no good, so discard it and send the user back to the login overlay.
    if (res.status === 401) {
        clearToken();
        showLogin('Session expired or invalid. Please sign in again.');
        // Throwing an error stops execution in the calling function and jumps
        // to the nearest catch block, so the caller doesn't try to read a
        // response body that won't make sense.
        throw new Error('Unauthorized');
    }

    // 403 = Forbidden (token is valid, but the user lacks permission for this
    // specific resource). The session is still good, so do NOT log the user
    // out — just throw a distinguishable error and let the caller decide how
    // to surface it (typically an inline "not authorized" message built from
    // the server's response body).
    if (res.status === 403) {
        const data = await res.json().catch(() => ({}));
        const err = new Error(data.msg || 'Forbidden');
        err.status = 403;
        throw err;
    }

    return res;
}

// ==========================================================================
// Overlay backdrop-click dismiss
//
// Every dismissible overlay div carries onclick="overlayBackdropClick(event)".
// The handler fires only when the click lands on the dim backdrop itself
// (event.target === event.currentTarget), not on the sheet inside it.
//
// For editable sheets a baseline snapshot of all form fields is captured when
// the sheet opens (captureBaseline). On dismiss the current field values are
// compared to that snapshot; if anything changed the user is asked to confirm.
// ==========================================================================

// Per-overlay field snapshots.  Key = overlay element ID, value = serialized
// field state captured by captureBaseline().
const _sheetBaseline = {};

// Serialize every input/select/textarea inside an overlay into a single string
// and store it so isSheetModified() can detect later changes.
// Call this at the end of each showX() function, after all fields are set.
function captureBaseline(overlayId) {
    const overlay = document.getElementById(overlayId);
    const fields  = overlay.querySelectorAll('input, select, textarea');
    _sheetBaseline[overlayId] = Array.from(fields).map(f =>
        f.type === 'checkbox' ? String(f.checked) : f.value
    ).join('\x00');
}

// Return true if the current field values inside overlayId differ from the
// snapshot taken when the sheet was opened.
// The data-edit and config-item sheets delegate to their own save-button
// disabled state: data-edit's inputs are built dynamically, and config-item's
// New Value field is hidden entirely for readonly items, so in both cases the
// button's state is already the authoritative change signal.
function isSheetModified(overlayId) {
    if (overlayId === 'data-edit-overlay') {
        const btn = document.getElementById('data-edit-save-btn');
        return btn ? !btn.disabled : false;
    }
    if (overlayId === 'config-item-overlay') {
        const btn = document.getElementById('config-item-save-btn');
        return btn ? !btn.disabled : false;
    }
    const baseline = _sheetBaseline[overlayId];
    if (baseline === undefined) return false;
    const overlay = document.getElementById(overlayId);
    const fields  = overlay.querySelectorAll('input, select, textarea');
    const current = Array.from(fields).map(f =>
        f.type === 'checkbox' ? String(f.checked) : f.value
    ).join('\x00');
    return current !== baseline;
}

// Maps each dismissible overlay ID to its hide function and whether to
// perform a dirty check before dismissing.
const _overlayDismiss = {
    'new-user-overlay':      { hide: () => hideNewUserSheet(),  dirty: true  },
    'edit-user-overlay':     { hide: () => hideEditUserSheet(), dirty: true  },
    'new-dsn-overlay':       { hide: () => hideNewDsnSheet(),   dirty: true  },
    'dsn-perm-edit-overlay': { hide: () => hideDsnPermEdit(),   dirty: true  },
    'dsn-perm-add-overlay':  { hide: () => hideDsnPermAdd(),    dirty: true  },
    'table-perm-edit-overlay': { hide: () => hideTablePermEdit(), dirty: true  },
    'table-perm-add-overlay':  { hide: () => hideTablePermAdd(),  dirty: true  },
    'data-edit-overlay':     { hide: () => hideDataEdit(),      dirty: true  },
    'logger-config-overlay': { hide: () => hideLoggerConfig(),  dirty: true  },
    'log-filter-overlay':    { hide: () => hideLogFilter(),     dirty: true  },
    'dsn-detail-overlay':    { hide: () => hideDsnDetail(),     dirty: false },
    'table-detail-overlay':  { hide: () => hideTableDetail(),   dirty: false },
    'config-overlay':        { hide: () => hideConfigSheet(),   dirty: false },
    'config-item-overlay':   { hide: () => hideConfigItemDetail(), dirty: true  },
    'data-col-overlay':      { hide: () => hideDataColumns(),   dirty: false },
    'settings-overlay':      { hide: () => hideSettings(),      dirty: false },
    'sql-build-overlay':     { hide: () => hideSqlBuild(),      dirty: true  },
    'sql-generate-overlay':  { hide: () => hideSqlGenerate(),   dirty: false },
};

// onclick handler attached to each overlay backdrop div.
// Dismisses the sheet when the user clicks outside the sheet panel.
function overlayBackdropClick(event) {
    if (event.target !== event.currentTarget) return;
    const overlayId = event.currentTarget.id;
    const cfg = _overlayDismiss[overlayId];
    if (!cfg) return;
    if (cfg.dirty && isSheetModified(overlayId)) {
        if (!confirm('Do you wish to discard changes?')) return;
    }
    cfg.hide();
}

