// dashboard-code.js
// The Code tab: the Ego source editor, syntax highlighting, run/debug/trace
// execution, the debugger panel, and the interactive console.
//
// THE DASHBOARD (HTML, CSS, AND JAVASCRIPT) WERE PROTOTYPED BY CLAUDE
// CODE, and extended by both Claude Code and human developers. The dashboard
// code is reviewed and tested by humans before any changes are committed.
// The dashboard uses api endpoints in the Ego  server that were written by
// humans, as is the rest of the Ego server.
//
// LOAD ORDER MATTERS. These files are plain <script> tags, not modules, so
// they all share one global scope -- but a function declaration is hoisted
// only within its own file. Anything that runs immediately at the top level
// may therefore only call functions declared in the same file or an earlier
// one. Deferred code (event handlers, callbacks, timers) is unrestricted,
// because by the time it runs every file has loaded. dashboard.html lists the
// files in this order:
//
//     dashboard-core.js        cookies, settings, token, idle timer, fetch
//     dashboard-admin.js       tab loaders, DSN permission and config sheets
//     dashboard-data.js        Data tab and its row editor
//     dashboard-sql.js         SQL tab, highlighting, and the SQL formatter
//     dashboard-sqlwizard.js   Build wizard and the SQL statement parser
//     dashboard-ui.js          tab switching, login, user/DSN sheets, log tab
//     dashboard-code.js        Code tab: editor, run, debugger, console
//     dashboard-startup.js     entry point, then passkey support
//
// Note also that names declared at the top level of any of these files are
// shared across all of them. The minifier deliberately never renames such
// names (see internal/util/javascript/minify.go), which is what makes serving
// them as separate files safe.
//
// ==========================================================================
// Code tab — editor, syntax highlighting, run, and console
//
// The Code tab embeds a full Ego editor inside the dashboard. It mirrors
// the standalone webapp's app.js logic, but uses POST /admin/run (with the
// bearer token) instead of the webapp's unauthenticated POST /run endpoint.
// ==========================================================================

// Guard so the editor is only wired up once, no matter how many times the
// user clicks the Code tab.
let codeTabInitialized = false;

// UUID that identifies this browser session's symbol table on the server.
// Generated once the first time the Code tab is opened and sent with every
// /admin/run request so each dashboard user gets isolated state.
// Cleared on logoff so it cannot be reused after the session ends.
let codeSessionUUID = null;

// The Format and Console settings live in the main Settings sheet (hamburger
// menu) rather than the Code tab's own toolbar, so their state must be
// readable and settable before the Code tab has ever been opened (and thus
// before initCodeEditor() has run). Declared here at top level rather than
// inside initCodeEditor()'s closure for that reason.
//
// Trace is deliberately NOT one of these persisted settings: it is an execution
// mode selected from the Run/Debug/Trace dropdown (a peer of Run and Debug),
// tracked by codeRunMode in initCodeEditor() and reset to Run on page reload.

// Format toggle — when on, the editor is reformatted via POST /admin/format
// (the AST-based formatter) immediately before each Run/Debug. Persisted
// across sessions via the getCodeFormat/setCodeFormat cookie helpers.
let codeFormatEnabled = getCodeFormat();

// Console visibility — toggles the 'hide-console' class on #code-ui so CSS
// rules keyed on that class collapse the divider and console pane, letting
// the editor/output panels fill the remaining height. #code-ui is a static
// element present in the HTML from page load, so this works even before the
// Code tab has ever been opened.
function applyConsoleVisible(visible) {
    document.getElementById('code-ui').classList.toggle('hide-console', !visible);
}

// Apply the saved preference immediately at page load, not just when the
// Code tab is first opened, so the layout is already correct the first time
// the user visits it.
applyConsoleVisible(getShowConsole());

// Save the Code editor contents to a .ego file. The counterpart of the SQL
// tab's saveSqlFile(), sharing the same saveTextFile() implementation.
//
// Declared at top level rather than inside initCodeEditor() so it sits beside
// its SQL equivalent and can be called without the Code tab having been
// opened; the button that invokes it is wired up in initCodeEditor() with the
// rest of the Code tab's controls.
async function saveCodeFile() {
    const text = document.getElementById('code-editor')?.value || '';

    await saveTextFile(text, 'program.ego', 'Ego source file', ['.ego', '.txt']);
}

// Save the Code tab's Output pane contents to a .txt file, using the same
// saveTextFile() mechanism as saveCodeFile() and the SQL tab's saveSqlFile().
async function saveCodeOutput() {
    const text = document.getElementById('code-output-pane')?.textContent || '';

    await saveTextFile(text, 'output.txt', 'Text file', ['.txt']);
}

// loadCode is called by openTab every time the Code tab is selected.
// On the first call it generates the session UUID, initializes all the DOM
// wiring, and stores the guard; subsequent calls are no-ops so the editor
// state (text, history) is preserved between tabs.
function loadCode() {
    if (codeTabInitialized) return;
    codeTabInitialized = true;
    codeSessionUUID = crypto.randomUUID();
    initCodeEditor();
}

// initCodeEditor wires up all event listeners and state for the embedded
// code editor. It runs exactly once, the first time the Code tab is opened.
function initCodeEditor() {
    // -----------------------------------------------------------------------
    // DOM references
    // -----------------------------------------------------------------------
    const codeEditor       = document.getElementById('code-editor');
    const codeLineNumbers  = document.getElementById('code-line-numbers');
    const codeOutput       = document.getElementById('code-output-pane');
    const codeRunBtn       = document.getElementById('code-run-btn');
    const codeRunArrow     = document.getElementById('code-run-arrow');
    const codeRunDrop      = document.getElementById('code-run-dropdown');
    const codeSpinner      = document.getElementById('code-spinner');
    const codeHlLayer      = document.getElementById('code-highlight-layer');
    const codeDebugBand    = document.getElementById('code-debug-line-band');
    const codeDivider      = document.getElementById('code-divider');
    const codeLeftPane     = document.getElementById('code-left-pane');
    const codeMain         = document.getElementById('code-main');
    const codeConsoleDivider     = document.getElementById('code-console-divider');
    const codeConsolePane        = document.getElementById('code-console-pane');
    const codeConsoleHistory     = document.getElementById('code-console-history');
    const codeConsoleInput       = document.getElementById('code-console-input');
    const codeClearEditorBtn  = document.getElementById('code-clear-editor-btn');
    const codeClearOutputBtn  = document.getElementById('code-clear-output-btn');
    const codeSaveOutputBtn   = document.getElementById('code-save-output-btn');
    const codeElapsed         = document.getElementById('code-elapsed');
    const codeClearConsoleBtn = document.getElementById('code-clear-console-btn');
    const codeOpenFileBtn     = document.getElementById('code-open-file-btn');
    const codeSaveFileBtn     = document.getElementById('code-save-file-btn');
    const codeFormatBtn       = document.getElementById('code-format-btn');
    // codeFileInput is a hidden <input type="file"> element.  We trigger it
    // programmatically from the Open button so the button can be styled to
    // match the rest of the editor toolbar.
    const codeFileInput       = document.getElementById('code-file-input');

    // Debugger panel elements (hidden until a debug session is active).
    const codeDebuggerPanel  = document.getElementById('code-debugger-panel');
    const codeDebugOutput    = document.getElementById('code-debug-output');
    const codeDebugInputRow  = document.getElementById('code-debug-input-row');
    const codeClearDebugBtn  = document.getElementById('code-clear-debug-btn');
    const codeDebugPrompt    = document.getElementById('code-debug-prompt');
    const codeDebugInput     = document.getElementById('code-debug-input');
    const codeDebugSendBtn   = document.getElementById('code-debug-send-btn');

    // Debugger control buttons (Continue / Step / Step Into / Step Over).
    const codeDebugContinueBtn  = document.getElementById('code-debug-continue-btn');
    const codeDebugStepBtn      = document.getElementById('code-debug-step-btn');
    const codeDebugStepReturnBtn  = document.getElementById('code-debug-step-return-btn');
    const codeDebugStepOverBtn  = document.getElementById('code-debug-step-over-btn');

    // -----------------------------------------------------------------------
    // Run / Debug split button
    //
    // codeRunMode tracks the current sticky execution mode. The ▾ arrow opens a
    // dropdown with three items:
    //   "▶ Run"    — normal execution
    //   "🐛 Debug" — execution under the interactive debugger
    //   "👣 Trace" — normal execution with trace logging enabled
    // Selecting any item makes it the sticky mode: it updates the main button
    // label and immediately runs, and the main button then repeats that mode
    // until another is chosen. Trace is a peer of Run and Debug in every way
    // except that it (like the others) is not persisted across a page reload.
    // -----------------------------------------------------------------------
    let codeRunMode = 'run'; // 'run' | 'debug' | 'trace'

    // 1-based line number the debugger is currently paused on; 0 = no highlight.
    let codeDebugLine = 0;

    // Toggle the dropdown when the ▾ arrow is clicked.
    codeRunArrow.addEventListener('click', e => {
        e.stopPropagation(); // prevent the document click handler from closing it immediately
        codeRunDrop.classList.toggle('open');
    });

    // Close the dropdown when the user clicks anywhere outside it.
    document.addEventListener('click', () => codeRunDrop.classList.remove('open'));

    // Map from data-mode value to the main button's icon and label. Kept as
    // two separate maps (rather than one combined string) because the main
    // button's markup holds the icon and label in their own
    // <span class="btn-icon">/<span class="btn-label"> -- overwriting the
    // whole button's content with textContent would destroy those spans and
    // silently break the Toolbar Buttons setting for this button afterward.
    const modeIconMap  = { run: '\u25B6',  debug: '\u{1F41B}', trace: '\u{1F463}' };
    const modeLabelMap = { run: 'Run',     debug: 'Debug',     trace: 'Trace' };

    // Wire each dropdown item: make the chosen mode the sticky mode, reflect it
    // in the main button label, and immediately run. Trace behaves exactly like
    // Run and Debug here -- it stays selected until the user picks another mode
    // (it is just never persisted across a page reload).
    codeRunDrop.querySelectorAll('.code-run-item').forEach(item => {
        item.addEventListener('click', e => {
            e.stopPropagation();
            codeRunDrop.classList.remove('open');

            codeRunMode = item.dataset.mode || 'run';

            // Reflect the selected mode in the main button's icon and label,
            // updating each span in place rather than replacing the button's
            // whole content.
            codeRunBtn.querySelector('.btn-icon').textContent  = modeIconMap[codeRunMode]  || '\u25B6';
            codeRunBtn.querySelector('.btn-label').textContent = modeLabelMap[codeRunMode] || 'Run';

            // Mark the active item in the dropdown.
            codeRunDrop.querySelectorAll('.code-run-item').forEach(i => i.classList.remove('active'));
            item.classList.add('active');

            runEditorCode();
        });
    });

    // -----------------------------------------------------------------------
    // Syntax highlighting
    //
    // Reuses the same keyword sets and tokenizer used by the standalone webapp.
    // highlight(code) returns an HTML string with colored <span> elements.
    // -----------------------------------------------------------------------
    const CODE_KEYWORDS = new Set([
        'break','case','chan','const','continue','default','defer','else',
        'fallthrough','for','func','go','goto','if','import','interface',
        'map','package','range','return','select','struct','switch','type','var',
    ]);

    const CODE_BUILTINS = new Set([
        'bool','byte','complex64','complex128','error','float32','float64',
        'int','int8','int16','int32','int64','rune','string',
        'uint','uint8','uint16','uint32','uint64','uintptr',
        'true','false','nil','iota',
        'make','len','cap','new','append','copy','delete','close',
        'panic','recover','print','println',
    ]);

    function highlight(code) {
        function esc(s) {
            return s.replace(/&/g, '&amp;').replace(/</g, '&lt;').replace(/>/g, '&gt;');
        }
        function span(cls, s) {
            return '<span class="hl-' + cls + '">' + esc(s) + '</span>';
        }

        let out = '';
        let i   = 0;
        const n = code.length;

        while (i < n) {
            const ch  = code[i];
            const ch2 = code[i + 1];

            // Block comment  /* ... */
            if (ch === '/' && ch2 === '*') {
                const end = code.indexOf('*/', i + 2);
                if (end === -1) { out += span('comment', code.slice(i)); break; }
                out += span('comment', code.slice(i, end + 2));
                i = end + 2;
                continue;
            }

            // Line comment  // ...
            if (ch === '/' && ch2 === '/') {
                const nl  = code.indexOf('\n', i);
                const end = nl === -1 ? n : nl;
                out += span('comment', code.slice(i, end));
                i = end;
                continue;
            }

            // Double-quoted string  "..."
            if (ch === '"') {
                let j = i + 1;
                while (j < n && code[j] !== '"' && code[j] !== '\n') {
                    if (code[j] === '\\') j++;
                    j++;
                }
                if (j < n && code[j] === '"') j++;
                out += span('string', code.slice(i, j));
                i = j;
                continue;
            }

            // Raw (backtick) string  `...`
            if (ch === '`') {
                let j = i + 1;
                while (j < n && code[j] !== '`') j++;
                if (j < n) j++;
                out += span('string', code.slice(i, j));
                i = j;
                continue;
            }

            // Rune literal  '.'
            if (ch === "'") {
                let j = i + 1;
                if (j < n && code[j] === '\\') j += 2; else j++;
                if (j < n && code[j] === "'") j++;
                out += span('string', code.slice(i, j));
                i = j;
                continue;
            }

            // Numeric literal
            if (/[0-9]/.test(ch) || (ch === '.' && /[0-9]/.test(ch2))) {
                let j = i;
                if (ch === '0' && (ch2 === 'x' || ch2 === 'X')) {
                    j += 2;
                    while (j < n && /[0-9a-fA-F_]/.test(code[j])) j++;
                } else {
                    while (j < n && /[0-9_]/.test(code[j])) j++;
                    if (j < n && code[j] === '.') {
                        j++;
                        while (j < n && /[0-9_]/.test(code[j])) j++;
                    }
                    if (j < n && (code[j] === 'e' || code[j] === 'E')) {
                        j++;
                        if (j < n && (code[j] === '+' || code[j] === '-')) j++;
                        while (j < n && /[0-9]/.test(code[j])) j++;
                    }
                }
                out += span('number', code.slice(i, j));
                i = j;
                continue;
            }

            // Identifier, keyword, builtin, or function call
            if (/[a-zA-Z_]/.test(ch)) {
                let j = i;
                while (j < n && /[a-zA-Z0-9_]/.test(code[j])) j++;
                const word = code.slice(i, j);
                let k = j;
                while (k < n && (code[k] === ' ' || code[k] === '\t')) k++;
                if (CODE_KEYWORDS.has(word)) {
                    out += span('keyword', word);
                } else if (CODE_BUILTINS.has(word)) {
                    out += span('builtin', word);
                } else if (code[k] === '(') {
                    out += span('func', word);
                } else {
                    out += esc(word);
                }
                i = j;
                continue;
            }

            out += esc(ch);
            i++;
        }

        return out + ' ';
    }

    // Position (or hide) the debug line band.  Must be called whenever
    // codeDebugLine changes or the editor scrolls.
    function updateDebugBand() {
        if (codeDebugLine <= 0) {
            codeDebugBand.style.display = 'none';
            return;
        }
        const style      = window.getComputedStyle(codeHlLayer);
        const lineHeight = parseFloat(style.lineHeight);
        const paddingTop = parseFloat(style.paddingTop);
        const top        = paddingTop + (codeDebugLine - 1) * lineHeight - codeEditor.scrollTop;
        codeDebugBand.style.top     = top + 'px';
        codeDebugBand.style.height  = lineHeight + 'px';
        codeDebugBand.style.display = 'block';
    }

    // Scroll the editor so the given 1-based line is visible, centering it if
    // it is currently outside the viewport.
    function scrollToDebugLine(lineNum) {
        if (lineNum <= 0) return;
        const style      = window.getComputedStyle(codeHlLayer);
        const lineHeight = parseFloat(style.lineHeight);
        const paddingTop = parseFloat(style.paddingTop);
        const lineTop    = paddingTop + (lineNum - 1) * lineHeight;
        const lineBot    = lineTop + lineHeight;
        const visTop     = codeEditor.scrollTop;
        const visBot     = visTop + codeEditor.clientHeight;
        if (lineTop < visTop || lineBot > visBot) {
            codeEditor.scrollTop      = Math.max(0, lineTop - codeEditor.clientHeight / 2);
            codeLineNumbers.scrollTop = codeEditor.scrollTop;
        }
    }

    // Rebuild the syntax-highlight layer from the current editor text.
    function updateHighlight() {
        codeHlLayer.innerHTML = highlight(codeEditor.value);
        codeHlLayer.scrollTop  = codeEditor.scrollTop;
        codeHlLayer.scrollLeft = codeEditor.scrollLeft;
    }

    // Rebuild the line-number gutter from the current editor text.
    function updateLineNumbers() {
        const count = codeEditor.value.split('\n').length;
        let text = '';
        for (let i = 1; i <= count; i++) text += i + '\n';
        codeLineNumbers.textContent = text;
        codeLineNumbers.scrollTop = codeEditor.scrollTop;
    }

    // -----------------------------------------------------------------------
    // Editor event listeners
    // -----------------------------------------------------------------------

    // Sync line numbers and highlighting as the user types.
    codeEditor.addEventListener('input', () => {
        updateLineNumbers();
        updateHighlight();
    });

    // Sync scroll position of gutter and highlight layer with the textarea.
    codeEditor.addEventListener('scroll', () => {
        codeLineNumbers.scrollTop = codeEditor.scrollTop;
        codeHlLayer.scrollTop     = codeEditor.scrollTop;
        codeHlLayer.scrollLeft    = codeEditor.scrollLeft;
        updateDebugBand();
    });

    // Tab key — insert three spaces instead of moving focus.
    codeEditor.addEventListener('keydown', e => {
        if (e.key === 'Tab') {
            e.preventDefault();
            const start = codeEditor.selectionStart;
            const end   = codeEditor.selectionEnd;
            codeEditor.value = codeEditor.value.slice(0, start) + '   ' + codeEditor.value.slice(end);
            codeEditor.selectionStart = codeEditor.selectionEnd = start + 3;
            // Programmatic assignment doesn't fire 'input', so update manually.
            updateHighlight();
        }
        // Ctrl/Cmd+Enter runs the editor contents.
        if ((e.ctrlKey || e.metaKey) && e.key === 'Enter') runEditorCode();
    });

    // If the editor is empty on first display (no file opened, nothing
    // restored), seed it with a minimal sample program so the Code tab
    // isn't a blank void the first time a user opens it.
    if (codeEditor.value === '') {
        codeEditor.value =
            'package main\n' +
            '\n' +
            'import "fmt"\n' +
            '\n' +
            'func main() {\n' +
            '    fmt.Println("Hello, world")\n' +
            '}\n';
    }

    // Populate line numbers and highlighting on first display.
    updateLineNumbers();
    updateHighlight();

    // -----------------------------------------------------------------------
    // Clear buttons
    // -----------------------------------------------------------------------

    // Format button — reformat the editor on demand, independently of the
    // Format setting (which only controls reformatting before a run).
    //
    // Unlike the SQL formatter, this one is not local: formatEditorCode()
    // posts to the server and waits for the reply, so the handler is declared
    // `async` and uses `await` to pause until that reply arrives. The button
    // is disabled across the wait so a second click cannot start a second
    // request whose (older) reply might land after the first and overwrite it.
    //
    // The `finally` block runs whether the await succeeded or threw, so the
    // button can never be left permanently disabled by a failure.
    codeFormatBtn.addEventListener('click', async () => {
        codeFormatBtn.disabled = true;

        try {
            await formatEditorCode();
        } finally {
            codeFormatBtn.disabled = false;
        }
    });

    // Open button — click it to trigger the hidden file picker.
    codeOpenFileBtn.addEventListener('click', () => codeFileInput.click());

    // Save button — download the editor contents as a .ego file.
    codeSaveFileBtn.addEventListener('click', () => saveCodeFile());

    // When the user picks a file, read it as text and place it in the editor.
    // FileReader.readAsText fires a 'load' event when done; the file contents
    // arrive as event.target.result.  We then refresh the gutter and
    // syntax-highlight layer exactly as we do after any other edit.
    codeFileInput.addEventListener('change', () => {
        const file = codeFileInput.files[0];
        if (!file) return;

        const reader = new FileReader();
        reader.addEventListener('load', e => {
            codeEditor.value = e.target.result;
            updateLineNumbers();
            updateHighlight();
            // Reset so picking the same file again still fires 'change'.
            codeFileInput.value = '';
        });
        reader.readAsText(file);
    });

    codeClearEditorBtn.addEventListener('click', () => {
        codeEditor.value = '';
        updateLineNumbers();
        updateHighlight();
    });

    codeClearOutputBtn.addEventListener('click', () => {
        codeOutput.className  = 'idle';
        codeOutput.textContent = '';
        codeElapsed.textContent = '';
    });

    codeSaveOutputBtn.addEventListener('click', () => saveCodeOutput());

    codeClearDebugBtn.addEventListener('click', () => {
        codeDebugOutput.textContent = '';
    });

    codeClearConsoleBtn.addEventListener('click', () => {
        codeConsoleHistory.innerHTML = '';
    });

    // Console visibility and Format are set from the main Settings sheet
    // (hamburger menu) -- see applyConsoleVisible() and the
    // setting-format/setting-console wiring near showSettings(). Trace is not a
    // persisted setting; it is an execution mode in the Run/Debug/Trace dropdown.

    // -----------------------------------------------------------------------
    // Resizable vertical divider (editor | output)
    // -----------------------------------------------------------------------

    codeDivider.addEventListener('mousedown', e => {
        e.preventDefault();
        codeDivider.classList.add('dragging');
        document.body.style.userSelect = 'none';
        document.body.style.cursor = 'col-resize';

        const startX     = e.clientX;
        const startWidth = codeLeftPane.getBoundingClientRect().width;

        function onMouseMove(e) {
            const mainWidth = codeMain.getBoundingClientRect().width;
            const newWidth  = Math.min(
                Math.max(150, startWidth + e.clientX - startX),
                mainWidth - codeDivider.offsetWidth - 150
            );
            codeLeftPane.style.flexBasis = newWidth + 'px';
        }

        function onMouseUp() {
            codeDivider.classList.remove('dragging');
            document.body.style.userSelect = '';
            document.body.style.cursor = '';
            document.removeEventListener('mousemove', onMouseMove);
            document.removeEventListener('mouseup', onMouseUp);
        }

        document.addEventListener('mousemove', onMouseMove);
        document.addEventListener('mouseup', onMouseUp);
    });

    // -----------------------------------------------------------------------
    // Resizable horizontal divider (main | console)
    // -----------------------------------------------------------------------

    codeConsoleDivider.addEventListener('mousedown', e => {
        e.preventDefault();
        codeConsoleDivider.classList.add('dragging');
        document.body.style.userSelect = 'none';
        document.body.style.cursor = 'row-resize';

        const startY      = e.clientY;
        const startHeight = codeConsolePane.getBoundingClientRect().height;

        function onMouseMove(e) {
            const newHeight = Math.max(60, startHeight - (e.clientY - startY));
            codeConsolePane.style.flexBasis = newHeight + 'px';
        }

        function onMouseUp() {
            codeConsoleDivider.classList.remove('dragging');
            document.body.style.userSelect = '';
            document.body.style.cursor = '';
            document.removeEventListener('mousemove', onMouseMove);
            document.removeEventListener('mouseup', onMouseUp);
        }

        document.addEventListener('mousemove', onMouseMove);
        document.addEventListener('mouseup', onMouseUp);
    });

    // -----------------------------------------------------------------------
    // Run editor code
    //
    // Posts the editor contents to POST /admin/run with the bearer token.
    // The server compiles and runs the code with a fresh symbol table each
    // time (console: false = editor mode), then returns the output.
    // -----------------------------------------------------------------------

    // Post a single request to /admin/run and return the parsed JSON body.
    // Throws on network error or non-2xx HTTP status (after handling 401/403).
    async function adminRunPost(payload) {
        const token = getToken();
        const res = await fetch('/admin/run', {
            method:  'POST',
            headers: {
                'Content-Type':  'application/json',
                'Authorization': token ? 'Bearer ' + token : '',
            },
            body: JSON.stringify(payload),
        });

        if (res.status === 401) {
            clearToken();
            showLogin('Session expired. Please sign in again.');
            throw new Error('auth');
        }

        if (!res.ok) {
            throw new Error('HTTP error ' + res.status);
        }

        return res.json();
    }

    // Post the editor's current source to POST /admin/format (the AST-based
    // formatter added alongside the "Format" toggle) and, on success, replace
    // the editor content with the canonically reformatted version.
    //
    // A parse error, or any network/auth failure, is treated as non-fatal:
    // the editor is left untouched and the caller (runEditorCode) proceeds to
    // Run/Debug with the original source. This formatter is newer than the
    // main compiler and may not yet cover every construct the compiler
    // accepts, so a formatting failure must never block an otherwise-valid
    // run -- the compiler's own error reporting still applies normally to
    // whatever gets sent.
    async function formatEditorCode() {
        const token = getToken();

        let data;

        try {
            const res = await fetch('/admin/format', {
                method:  'POST',
                headers: {
                    'Content-Type':  'application/json',
                    'Authorization': token ? 'Bearer ' + token : '',
                },
                body: JSON.stringify({ code: codeEditor.value }),
            });

            if (res.status === 401) {
                clearToken();
                showLogin('Session expired. Please sign in again.');
                return;
            }

            if (!res.ok) return;

            data = await res.json();
        } catch (e) {
            return; // network error -- leave the editor untouched
        }

        if (data.error || !data.formatted) return; // parse error -- leave the editor untouched

        if (data.formatted !== codeEditor.value) {
            codeEditor.value = data.formatted;
            updateLineNumbers();
            updateHighlight();
        }
    }

    // Enable or disable the four debugger control buttons as a group.
    function setDebugButtonsEnabled(enabled) {
        codeDebugContinueBtn.disabled  = !enabled;
        codeDebugStepBtn.disabled      = !enabled;
        codeDebugStepReturnBtn.disabled  = !enabled;
        codeDebugStepOverBtn.disabled  = !enabled;
    }

    // Show the debugger panel, make the input row visible, update the prompt,
    // and focus the input field ready for the next command.
    function showDebugInput(prompt) {
        codeDebugPrompt.textContent = prompt || 'debug>';
        codeDebuggerPanel.style.display = 'flex';
        codeDebugInputRow.style.display = 'flex';
        codeDebugInput.value = '';
        codeDebugInput.focus();
        setDebugButtonsEnabled(true);
    }

    // Hide the input row inside the debugger panel without hiding the panel
    // itself, so accumulated debugger output remains visible.
    function hideDebugInput() {
        codeDebugInputRow.style.display = 'none';
        codeDebugInput.value = '';
        setDebugButtonsEnabled(false);
    }

    // Hide the entire debugger panel and clear its output.  Called at the
    // start of every new run so the panel is blank and out of the way.
    function hideDebugPanel() {
        codeDebuggerPanel.style.display = 'none';
        codeDebugInputRow.style.display = 'flex'; // reset for next session
        codeDebugOutput.textContent = '';
        codeDebugInput.value = '';
    }

    // Append a chunk of debugger message text to the Debugger output panel.
    // Each call creates a new entry element so messages are individually
    // delimited and the panel stays scrolled to the bottom.
    function appendDebuggerOutput(text) {
        if (!text) return;
        const entry = document.createElement('div');
        entry.className   = 'code-debug-entry';
        entry.textContent = text;
        codeDebugOutput.appendChild(entry);
        codeDebugOutput.scrollTop = codeDebugOutput.scrollHeight;
    }

    // Append program stdout to the Output pane.
    function appendProgramOutput(text) {
        if (!text) return;
        if (codeOutput.classList.contains('idle')) {
            codeOutput.textContent = text;
            codeOutput.className   = 'ok';
        } else {
            codeOutput.textContent += text;
        }
    }

    // Finish a debug session: hide the input row, append a completion notice
    // to the debugger panel (keeping it visible so the user can review output),
    // restore the run controls, and ensure the Output pane has a final state.
    function finishDebugSession() {
        hideDebugInput();
        appendDebuggerOutput('Program execution complete.');
        if (codeOutput.classList.contains('idle') || codeOutput.textContent === '') {
            codeOutput.textContent = '(no output)';
        }
        codeOutput.className  = 'ok';
        codeRunBtn.disabled   = false;
        codeRunArrow.disabled = false;
        codeSpinner.classList.remove('running');
        codeDebugLine = 0;
        updateDebugBand();
    }

    // Send one debug command (or '' to start the first stop) and handle the
    // response.  The session remains active as long as debugWaiting is true.
    async function sendDebugCommand(input) {
        codeDebugSendBtn.disabled = true;
        codeDebugInput.disabled   = true;
        setDebugButtonsEnabled(false);

        try {
            const data = await adminRunPost({
                session:    codeSessionUUID,
                debug:      true,
                debugInput: input,
            });

            appendDebuggerOutput(data.debugOutput);
            appendProgramOutput(data.programOutput);

            if (data.error) {
                appendDebuggerOutput('Error: ' + data.error);
                finishDebugSession();
                codeOutput.className = 'error';
                return;
            }

            if (data.debugWaiting) {
                codeDebugLine = data.line || 0;
                scrollToDebugLine(codeDebugLine);
                updateDebugBand();
                showDebugInput(data.debugPrompt);
            } else {
                finishDebugSession();
            }
        } catch (err) {
            if (err.message !== 'auth') {
                codeOutput.textContent = 'Network error: ' + err.message;
                codeOutput.className   = 'error';
            }
            hideDebugInput();
            codeRunBtn.disabled   = false;
            codeRunArrow.disabled = false;
            codeSpinner.classList.remove('running');
        } finally {
            codeDebugSendBtn.disabled = false;
            codeDebugInput.disabled   = false;
        }
    }

    // runEditorCode executes the editor contents in the current sticky mode
    // (codeRunMode). 'debug' starts an interactive debug session; 'run' and
    // 'trace' both do a normal run, with 'trace' additionally requesting trace
    // logging from the server.
    async function runEditorCode() {
        const trace = codeRunMode === 'trace';

        // When the Format toggle is on, reformat the editor contents via the
        // server's AST-based formatter before running -- formatEditorCode
        // leaves the editor untouched on any parse/network error, so a run
        // always proceeds with either the reformatted or the original source.
        if (codeFormatEnabled) {
            await formatEditorCode();
        }

        codeRunBtn.disabled   = true;
        codeRunArrow.disabled = true;
        codeSpinner.classList.add('running');
        codeOutput.className   = 'idle';
        codeOutput.textContent = '';
        codeElapsed.textContent = '';
        hideDebugPanel();

        // If the editor declares a func main(), append a call to it so the
        // server's Ego runtime actually invokes it.  The regex matches the
        // declaration anywhere in the source, ignoring leading whitespace.
        // We append to the code sent to the server only — the editor text
        // is left unchanged so the user does not see the extra line.
        let code = codeEditor.value;
        if (/^\s*func\s+main\s*\(\s*\)/m.test(code)) {
            code += '\n\nmain()';
        }

        if (codeRunMode === 'debug') {
            // Debug mode: compile on the server and start a debug session.
            // finishDebugSession (called by sendDebugCommand) clears spinner/buttons.
            try {
                const data = await adminRunPost({ code, session: codeSessionUUID, debug: true });

                appendDebuggerOutput(data.debugOutput);
                appendProgramOutput(data.programOutput);

                if (data.error) {
                    appendDebuggerOutput('Error: ' + data.error);
                    finishDebugSession();
                    codeOutput.className = 'error';
                } else if (data.debugWaiting) {
                    codeDebugLine = data.line || 0;
                    scrollToDebugLine(codeDebugLine);
                    updateDebugBand();
                    showDebugInput(data.debugPrompt);
                } else {
                    finishDebugSession();
                }
            } catch (err) {
                if (err.message !== 'auth') {
                    codeOutput.textContent = 'Network error: ' + err.message;
                    codeOutput.className   = 'error';
                }
                codeRunBtn.disabled   = false;
                codeRunArrow.disabled = false;
                codeSpinner.classList.remove('running');
            }
            return;
        }

        // Normal run mode.
        try {
            const payload = { code, session: codeSessionUUID };
            if (trace) payload.trace = true;

            const data = await adminRunPost(payload);

            if (data.error) {
                codeOutput.textContent = (data.output ? data.output + '\n' : '') + 'Error: ' + data.error;
                codeOutput.className  = 'error';
            } else {
                codeOutput.textContent = data.output || '(no output)';
                codeOutput.className  = 'ok';
            }
            if (data.elapsed) {
                codeElapsed.textContent = 'Ran in ' + data.elapsed;
            }
        } catch (err) {
            if (err.message !== 'auth') {
                codeOutput.textContent = 'Network error: ' + err.message;
                codeOutput.className  = 'error';
            }
        } finally {
            codeRunBtn.disabled   = false;
            codeRunArrow.disabled = false;
            codeSpinner.classList.remove('running');
        }
    }

    // The main button repeats the current sticky mode (Run, Debug, or Trace).
    codeRunBtn.addEventListener('click', runEditorCode);

    // Send debug input when the Send button is clicked or Enter is pressed.
    codeDebugSendBtn.addEventListener('click', () => {
        const cmd = codeDebugInput.value;
        codeDebugInput.value = '';
        sendDebugCommand(cmd);
    });

    // Debugger control buttons — shortcuts for common commands.
    codeDebugContinueBtn.addEventListener('click',  () => sendDebugCommand('continue'));
    codeDebugStepBtn.addEventListener('click',      () => sendDebugCommand('step'));
    codeDebugStepReturnBtn.addEventListener('click',  () => sendDebugCommand('step return'));
    codeDebugStepOverBtn.addEventListener('click',  () => sendDebugCommand('step over'));

    codeDebugInput.addEventListener('keydown', e => {
        if (e.key === 'Enter' && !e.shiftKey && !e.ctrlKey && !e.metaKey) {
            e.preventDefault();
            const cmd = codeDebugInput.value;
            codeDebugInput.value = '';
            sendDebugCommand(cmd);
        }
    });

    // -----------------------------------------------------------------------
    // Console REPL
    //
    // Sends each line to POST /admin/run with console: true so the server
    // reuses the persistent symbol table across successive console runs.
    // -----------------------------------------------------------------------

    // Append a prompt line and its output to the scrollable history div.
    function consoleAppend(code, outputText, isError) {
        const entry = document.createElement('div');
        entry.className = 'code-console-entry';

        const cmdLine = document.createElement('div');
        cmdLine.className   = 'code-console-cmd';
        cmdLine.textContent = 'ego> ' + code;
        entry.appendChild(cmdLine);

        if (outputText) {
            const outLine = document.createElement('div');
            outLine.className   = isError ? 'code-console-err' : 'code-console-out';
            outLine.textContent = outputText;
            entry.appendChild(outLine);
        }

        codeConsoleHistory.appendChild(entry);
        codeConsoleHistory.scrollTop = codeConsoleHistory.scrollHeight;
    }

    async function runConsoleCode() {
        const code = codeConsoleInput.value;
        if (!code.trim()) return;
        codeConsoleInput.value = '';

        try {
            const token = getToken();
            const res = await fetch('/admin/run', {
                method:  'POST',
                headers: {
                    'Content-Type':  'application/json',
                    'Authorization': token ? 'Bearer ' + token : '',
                },
                body: JSON.stringify({ code, console: true, session: codeSessionUUID }),
            });

            if (res.status === 401) {
                clearToken();
                showLogin('Session expired. Please sign in again.');
                return;
            }

            if (!res.ok) {
                consoleAppend(code, 'HTTP error ' + res.status, true);
                return;
            }

            const data = await res.json();

            if (data.error) {
                const text = (data.output ? data.output + '\n' : '') + 'Error: ' + data.error;
                consoleAppend(code, text, true);
            } else {
                consoleAppend(code, data.output || '', false);
            }
        } catch (err) {
            consoleAppend(code, 'Network error: ' + err.message, true);
        }
    }

    codeConsoleInput.addEventListener('keydown', e => {
        if (e.key === 'Enter' && !e.shiftKey && !e.ctrlKey && !e.metaKey) {
            e.preventDefault();
            runConsoleCode();
        }
    });
}

