// dashboard-data.js
// The Data tab -- browsing rows from a selected DSN and table -- together
// with its row edit sheet.
//
// THE DASHBOARD (HTML, CSS, AND JAVASCRIPT) WERE PROTOTYPED BY CLAUDE
// CODE, and extended by both Claude Code and human developers. The dashboard
// code is reviewed and tested by humans before any changes are committed.
// The dashboard uses api endpoints in the Ego  server that were written by
// humans, as is the rest of the Ego server.
//
// LOAD ORDER MATTERS. These files are plain <script> tags, not modules, so
// they all share one global scope -- but a function declaration is hoisted
// only within its own file. Anything that runs immediately at the top level
// may therefore only call functions declared in the same file or an earlier
// one. Deferred code (event handlers, callbacks, timers) is unrestricted,
// because by the time it runs every file has loaded. dashboard.html lists the
// files in this order:
//
//     dashboard-core.js        cookies, settings, token, idle timer, fetch
//     dashboard-admin.js       tab loaders, DSN permission and config sheets
//     dashboard-data.js        Data tab and its row editor
//     dashboard-sql.js         SQL tab, highlighting, and the SQL formatter
//     dashboard-sqlwizard.js   Build wizard and the SQL statement parser
//     dashboard-ui.js          tab switching, login, user/DSN sheets, log tab
//     dashboard-code.js        Code tab: editor, run, debugger, console
//     dashboard-startup.js     entry point, then passkey support
//
// Note also that names declared at the top level of any of these files are
// shared across all of them. The minifier deliberately never renames such
// names (see internal/util/javascript/minify.go), which is what makes serving
// them as separate files safe.
//
// ==========================================================================
// Data tab — browse rows from a selected DSN and table
// ==========================================================================

// Pending DSN/table set by viewDataFromTable(); consumed once by loadData()
// and loadDataTables() so the pickers are forced to the right selection even
// on a first visit to the Data tab when they have no options yet.
let _pendingDataDsn   = null;
let _pendingDataTable = null;

// Module-level state for the Data tab.
let _dataRows          = [];  // last fetched row objects
let _dataRowCount      = 0;   // server-reported row count
let _dataColumnMeta    = [];  // [{name, type, …}] from the table-detail API
let _dataColumnVisible = {};  // {columnName: boolean} — driven by the Columns sheet
let _dataCurrentDsn    = '';  // DSN used for the last metadata fetch
let _dataCurrentTable  = '';  // table used for the last metadata fetch

// Load the Data tab — refreshes the DSN picker, then cascades.
async function loadData() {
    const dsnPicker   = document.getElementById('data-dsn-picker');
    const previousDsn = _pendingDataDsn || dsnPicker.value;
    _pendingDataDsn   = null;

    try {
        const res  = await apiFetch('/dsns');
        const data = await res.json();
        const dsns = (data.items || []).map(d => d.name).sort();

        // Array.from() converts the HTMLOptionsCollection to a plain Array
        // so we can call .map() on it.
        const currentOptions = Array.from(dsnPicker.options).map(o => o.value);
        const listChanged    = dsns.join(',') !== currentOptions.join(',');

        if (listChanged) {
            dsnPicker.innerHTML = '';
            if (dsns.length === 0) {
                dsnPicker.innerHTML = '<option value="">— no DSNs —</option>';
                document.getElementById('data-table-picker').innerHTML = '<option value="">— no tables —</option>';
                document.getElementById('data-content').innerHTML =
                    '<p style="padding:1rem;color:#666;">No DSNs configured.</p>';
                return;
            }
            for (const name of dsns) {
                const opt = document.createElement('option');
                opt.value       = name;
                opt.textContent = name;
                dsnPicker.appendChild(opt);
            }
            if (previousDsn && dsns.includes(previousDsn)) {
                dsnPicker.value = previousDsn;
            }
        }
    } catch (e) {
        if (e.status === 403) {
            document.getElementById('data-content').innerHTML =
                '<p style="padding:1rem;color:#c0392b;">' + escapeHtml(e.message) + '</p>';
        } else if (e.message !== 'Unauthorized') {
            console.error('Error loading DSNs for Data tab:', e);
        }
        return;
    }

    await loadDataTables();
}

// Populate the table picker for the currently selected DSN, then cascade.
async function loadDataTables() {
    const dsnPicker   = document.getElementById('data-dsn-picker');
    const tablePicker = document.getElementById('data-table-picker');
    const container   = document.getElementById('data-content');
    const dsn         = dsnPicker.value;

    if (!dsn) return;

    const previousTable = _pendingDataTable || tablePicker.value;
    _pendingDataTable   = null;

    try {
        const res    = await apiFetch('/dsns/' + encodeURIComponent(dsn) + '/tables');
        const data   = await res.json();

        if (!res.ok) {
            tablePicker.innerHTML = '<option value="">— no tables —</option>';
            container.innerHTML = '<p style="padding:1rem;color:#c0392b;">'
                + escapeHtml(data.msg || 'Failed to load tables (HTTP ' + res.status + ').') + '</p>';
            return;
        }

        const tables = (data.tables || []).map(t => t.name).sort();

        tablePicker.innerHTML = '';
        if (tables.length === 0) {
            tablePicker.innerHTML = '<option value="">— no tables —</option>';
            container.innerHTML = '<p style="padding:1rem;color:#666;">No tables found in <strong>'
                + escapeHtml(dsn) + '</strong>.</p>';
            return;
        }
        for (const name of tables) {
            const opt = document.createElement('option');
            opt.value       = name;
            opt.textContent = name;
            tablePicker.appendChild(opt);
        }
        if (previousTable && tables.includes(previousTable)) {
            tablePicker.value = previousTable;
        }
    } catch (e) {
        if (e.status === 403) {
            tablePicker.innerHTML = '<option value="">— no tables —</option>';
            container.innerHTML = '<p style="padding:1rem;color:#c0392b;">' + escapeHtml(e.message) + '</p>';
        } else if (e.message !== 'Unauthorized') {
            console.error('Error loading tables for Data tab:', e);
        }
        return;
    }

    await loadDataMeta();
}

// Return the column name to use as the unique row key for PATCH/DELETE.
// Prefers _row_id_ if it is marked unique, then falls back to the first
// column in _dataColumnMeta whose unique.specified and unique.value are both
// true. Returns null when no unique column exists (row is read-only).
function findUniqueKeyCol() {
    // Two-pass: first check _row_id_ explicitly, then scan for any other unique column.
    let firstUnique = null;
    for (const col of _dataColumnMeta) {
        if (col.unique && col.unique.specified && col.unique.value) {
            if (col.name === '_row_id_') return '_row_id_';
            if (firstUnique === null) firstUnique = col.name;
        }
    }
    return firstUnique;
}

// Fetch column metadata for the selected DSN/table, reset visibility when the
// selection changes, then load rows.
async function loadDataMeta() {
    const dsn   = document.getElementById('data-dsn-picker').value;
    const table = document.getElementById('data-table-picker').value;

    if (!dsn || !table) return;

    // Reset column visibility whenever the DSN or table changes.
    if (dsn !== _dataCurrentDsn || table !== _dataCurrentTable) {
        _dataCurrentDsn   = dsn;
        _dataCurrentTable = table;
        _dataColumnVisible = {};
    }

    try {
        const res  = await apiFetch('/dsns/' + encodeURIComponent(dsn) + '/tables/' + encodeURIComponent(table) + '?rowids=true');
        const data = await res.json();
        _dataColumnMeta = res.ok ? (data.columns || []) : [];
    } catch (e) {
        if (e.message !== 'Unauthorized' && e.status !== 403) console.error('Error loading column metadata:', e);
        _dataColumnMeta = [];
    }

    await loadDataRows();
}

// Returns true when the SQL type name represents an integer type.
function isDataIntType(type) {
    return /^(int|integer|int32|int64|bigint|smallint|tinyint)$/i.test(type || '');
}

// Returns true when the SQL type name represents a floating-point type.
function isDataFloatType(type) {
    return /^(float|float32|float64|double|real|numeric|decimal)$/i.test(type || '');
}

// Fetch rows from the server and hand off to the renderer.
async function loadDataRows() {
    const dsn       = document.getElementById('data-dsn-picker').value;
    const table     = document.getElementById('data-table-picker').value;
    const container = document.getElementById('data-content');

    if (!dsn || !table) return;

    container.innerHTML = '<p style="padding:1rem;color:#666;">Loading\u2026</p>';

    try {
        const res  = await apiFetch(
            '/dsns/' + encodeURIComponent(dsn) + '/tables/' + encodeURIComponent(table) + '/rows'
        );
        const data = await res.json();

        if (!res.ok) {
            container.innerHTML = '<p style="padding:1rem;color:#c0392b;">'
                + escapeHtml(data.msg || 'Failed to load rows (HTTP ' + res.status + ').')
                + '</p>';
            return;
        }

        _dataRows     = data.rows  || [];
        _dataRowCount = data.count !== undefined ? data.count : _dataRows.length;
        renderDataRows();
    } catch (e) {
        if (e.status === 403) {
            container.innerHTML = '<p style="padding:1rem;color:#c0392b;">' + escapeHtml(e.message) + '</p>';
        } else if (e.message !== 'Unauthorized') {
            container.innerHTML = '<p style="padding:1rem;color:#c0392b;">Network error: '
                + escapeHtml(e.message) + '</p>';
        }
    }
}

// Pure render — builds the table from _dataRows, _dataColumnMeta, and
// _dataColumnVisible without touching the network.
function renderDataRows() {
    const container = document.getElementById('data-content');
    const table     = document.getElementById('data-table-picker').value;

    if (_dataRows.length === 0) {
        container.innerHTML = '<p style="padding:1rem;color:#666;">No rows found in <strong>'
            + escapeHtml(table) + '</strong>.</p>';
        return;
    }

    // Build a lookup: column name → metadata object.
    // This gives O(1) access to type info inside the loops below.
    const metaByName = {};
    for (const col of _dataColumnMeta) metaByName[col.name] = col;

    // Collect column names across every row, skipping _row_id_ (internal).
    // A Set is used here because it automatically ignores duplicate keys —
    // different rows may have the same column names, and a Set ensures each
    // name appears only once. Object.keys(row) returns an array of the
    // field names in that row object.
    const colSet = new Set();
    for (const row of _dataRows) {
        for (const key of Object.keys(row)) {
            if (key !== '_row_id_') colSet.add(key);
        }
    }
    // Array.from() converts the Set back to a plain Array so we can call .filter().
    // The visibility check uses !== false (not === true) so that columns without
    // an entry in _dataColumnVisible default to visible rather than hidden.
    const columns = Array.from(colSet).filter(c => _dataColumnVisible[c] !== false);

    // Return the CSS class for right-aligning numeric columns.
    function alignClass(colName) {
        const meta = metaByName[colName];
        const type = meta ? meta.type : '';
        return (isDataIntType(type) || isDataFloatType(type)) ? ' class="data-cell-num"' : '';
    }

    // Format a single cell value according to its column type.
    function fmtCell(val, colName) {
        // val == null (with ==, not ===) catches both null and undefined,
        // which is intentional — both mean "no value" in this context.
        if (val == null) return '<span class="data-null">null</span>';
        const meta = metaByName[colName];
        const type = meta ? meta.type : '';
        if (isDataFloatType(type)) {
            const n = Number(val);
            // Number.isFinite() returns true only for real, finite numbers.
            // It rejects NaN (Not a Number) and Infinity, which Number() can
            // produce from strings like "abc" or "Infinity".
            if (Number.isFinite(n)) {
                const s = String(n);
                // Always show a decimal point so floats look distinct from integers
                // (e.g. "42" becomes "42.0"). s.includes('.') checks if JS already
                // produced one (it does for values like 3.14).
                return escapeHtml(s.includes('.') ? s : s + '.0');
            }
        }
        return escapeHtml(String(val));
    }

    // Determine the unique key column. When it is _row_id_ we show a dedicated
    // "Row ID" header column (since _row_id_ is excluded from the data columns).
    // For any other unique column the key value is already visible in the data
    // columns, so no extra header column is needed.
    const keyCol       = findUniqueKeyCol();
    const showKeyCol   = keyCol === '_row_id_';

    let html = '<div class="data-table-scroll"><table><thead><tr>';
    if (showKeyCol) html += '<th>Row ID</th>';
    for (const col of columns) {
        html += '<th' + alignClass(col) + '>' + escapeHtml(col) + '</th>';
    }
    html += '</tr></thead><tbody>';

    for (let i = 0; i < _dataRows.length; i++) {
        const row = _dataRows[i];
        html += '<tr data-row-idx="' + i + '">';
        if (showKeyCol) {
            // != null (with !=, not !==) catches both null and undefined.
            const rowId = row['_row_id_'] != null ? String(row['_row_id_']) : '';
            html += '<td class="data-row-id">' + escapeHtml(rowId) + '</td>';
        }
        for (const col of columns) {
            html += '<td' + alignClass(col) + '>' + fmtCell(row[col], col) + '</td>';
        }
        html += '</tr>';
    }

    html += '</tbody></table></div>'
          + '<p class="data-row-count">'
          + _dataRowCount + ' row' + (_dataRowCount === 1 ? '' : 's')
          + '</p>';
    container.innerHTML = html;

    // Wire click handlers so each row opens the edit sheet.
    // parseInt(..., 10) converts the data-row-idx string attribute back to a
    // number (radix 10 = decimal) so showDataEdit receives an integer index.
    container.querySelectorAll('.data-table-scroll tbody tr').forEach(tr => {
        tr.addEventListener('click', () => showDataEdit(parseInt(tr.dataset.rowIdx, 10)));
    });
}

// Open the Columns sheet — builds a toggle row for every column in _dataRows.
function showDataColumns() {
    // Collect unique column names using a Set (duplicates are ignored automatically).
    const colSet = new Set();
    for (const row of _dataRows) {
        for (const key of Object.keys(row)) {
            if (key !== '_row_id_') colSet.add(key);
        }
    }
    // Convert the Set to a plain Array so we can iterate with for...of below.
    const columns = Array.from(colSet);
    const list    = document.getElementById('data-col-list');
    list.innerHTML = '';

    if (columns.length === 0) {
        list.innerHTML = '<p style="color:#666;font-size:0.85rem;">No columns available.</p>';
    } else {
        for (const colName of columns) {
            const visible = _dataColumnVisible[colName] !== false;

            const rowEl = document.createElement('div');
            rowEl.className = 'data-col-row';

            const label = document.createElement('label');
            label.className = 'toggle-switch';

            const input = document.createElement('input');
            input.type        = 'checkbox';
            input.checked     = visible;
            input.dataset.col = colName;
            input.addEventListener('change', () => {
                _dataColumnVisible[colName] = input.checked;
                renderDataRows();
            });

            const slider = document.createElement('span');
            slider.className = 'toggle-slider';

            label.appendChild(input);
            label.appendChild(slider);

            const nameEl = document.createElement('span');
            nameEl.className   = 'data-col-name';
            nameEl.textContent = colName;

            rowEl.appendChild(label);
            rowEl.appendChild(nameEl);
            list.appendChild(rowEl);
        }
    }

    document.getElementById('data-col-overlay').style.display = 'flex';
}

// Close the Columns sheet.
function hideDataColumns() {
    document.getElementById('data-col-overlay').style.display = 'none';
}

// Turn on every column toggle and re-render the table.
function selectAllDataColumns() {
    document.querySelectorAll('#data-col-list input[type="checkbox"]').forEach(cb => {
        cb.checked = true;
        _dataColumnVisible[cb.dataset.col] = true;
    });
    renderDataRows();
}

// ==========================================================================
// Data tab — row edit sheet
// ==========================================================================

// Index into _dataRows of the row currently being edited.
let _dataEditRowIdx = -1;

// Open the edit sheet for the row at the given index in _dataRows.
function showDataEdit(rowIdx) {
    const row = _dataRows[rowIdx];
    if (!row) return;

    _dataEditRowIdx = rowIdx;

    // Find which column uniquely identifies this row. == null (loose equality)
    // catches both null and undefined — either means the row is read-only.
    const keyCol  = findUniqueKeyCol();
    const keyVal  = keyCol != null ? row[keyCol] : null;
    const noRowId = keyVal == null;
    document.getElementById('data-edit-title').textContent    = noRowId ? 'Row Contents' : 'Edit Row';
    document.getElementById('data-edit-readonly').textContent = noRowId ? 'This row cannot be modified.' : '';
    document.getElementById('data-edit-error').textContent    = '';
    document.getElementById('data-edit-save-btn').disabled    = true;
    document.getElementById('data-edit-delete-btn').disabled  = noRowId;

    const fieldsDiv = document.getElementById('data-edit-fields');
    fieldsDiv.innerHTML = '';

    // Collect ALL column names across all rows (union, excluding _row_id_),
    // so every field is shown in the edit sheet regardless of current visibility.
    // A Set ensures each column name appears only once even if it exists in
    // multiple rows.
    const colSet = new Set();
    for (const r of _dataRows) {
        for (const key of Object.keys(r)) {
            if (key !== '_row_id_') colSet.add(key);
        }
    }

    const metaByName = {};
    for (const col of _dataColumnMeta) metaByName[col.name] = col;

    if (noRowId) {
        // Read-only view: render all columns as a two-column table.
        const table = document.createElement('table');
        table.className = 'data-edit-ro-table';
        for (const colName of colSet) {
            const val = row[colName];
            const tr  = document.createElement('tr');

            const th = document.createElement('th');
            th.textContent = colName;

            const td = document.createElement('td');
            td.className   = val == null ? 'data-edit-ro-null' : '';
            td.textContent = val == null ? 'null' : String(val);

            tr.appendChild(th);
            tr.appendChild(td);
            table.appendChild(tr);
        }
        fieldsDiv.appendChild(table);
    } else {
        for (const colName of colSet) {
            const originalVal = row[colName];
            const startNull   = originalVal == null;

            // The unique key column is shown read-only so the filter value
            // for PATCH/DELETE stays consistent with what is on the server.
            const isKeyField = (colName === keyCol);

            const fieldDiv = document.createElement('div');
            fieldDiv.className = 'data-edit-field';

            const labelEl = document.createElement('label');
            labelEl.className   = 'data-edit-label';
            labelEl.textContent = colName + (isKeyField ? ' \u{1F511}' : '');

            const inputRow = document.createElement('div');
            inputRow.className = 'data-edit-input-row';

            const input = document.createElement('input');
            input.type           = 'text';
            input.className      = 'data-edit-input' + (startNull ? ' data-edit-null' : '');
            input.dataset.col    = colName;
            input.dataset.isNull = startNull ? 'true' : 'false';
            input.value          = startNull ? '' : String(originalVal);
            input.placeholder    = startNull ? 'null' : '';
            input.spellcheck     = false;
            input.autocomplete   = 'off';

            if (isKeyField) {
                // Prevent the user from changing the key field; it is only
                // shown for context. readOnly keeps the value copyable.
                input.readOnly = true;
                input.classList.add('data-edit-readonly');
            } else {
                input.addEventListener('input', () => {
                    if (input.dataset.isNull === 'true') {
                        input.dataset.isNull = 'false';
                        input.classList.remove('data-edit-null');
                        input.placeholder = '';
                    }
                    checkDataEditChanged();
                });

                const nullBtn = document.createElement('button');
                nullBtn.type        = 'button';
                nullBtn.className   = 'data-edit-null-btn';
                nullBtn.textContent = 'Null';
                nullBtn.addEventListener('click', () => {
                    input.dataset.isNull = 'true';
                    input.value       = '';
                    input.placeholder = 'null';
                    input.classList.add('data-edit-null');
                    checkDataEditChanged();
                });
                inputRow.appendChild(nullBtn);
            }

            inputRow.insertBefore(input, inputRow.firstChild);
            fieldDiv.appendChild(labelEl);
            fieldDiv.appendChild(inputRow);
            fieldsDiv.appendChild(fieldDiv);
        }
    }

    document.getElementById('data-edit-overlay').style.display = 'flex';
    // No captureBaseline here — isSheetModified delegates to data-edit-save-btn.
}

// Enable the Save button only when at least one field differs from the original.
function checkDataEditChanged() {
    const row = _dataRows[_dataEditRowIdx];
    if (!row) return;

    let changed = false;
    document.querySelectorAll('#data-edit-fields .data-edit-input').forEach(input => {
        if (changed) return;
        const colName     = input.dataset.col;
        const originalVal = row[colName];
        const isNull      = input.dataset.isNull === 'true';

        // Loose equality (== / !=) is intentional here: it treats null and
        // undefined as equivalent, which is what we want since missing fields
        // and explicit nulls both mean "no value".
        if (isNull  &&  originalVal != null)  { changed = true; return; }
        if (!isNull && originalVal == null)   { changed = true; return; }
        if (!isNull && originalVal != null
                    && input.value !== String(originalVal)) { changed = true; }
    });

    document.getElementById('data-edit-save-btn').disabled = !changed;
}

// Send a PATCH request with only the changed fields, then reload rows.
async function submitDataEdit() {
    const row    = _dataRows[_dataEditRowIdx];
    const dsn    = document.getElementById('data-dsn-picker').value;
    const table  = document.getElementById('data-table-picker').value;
    const keyCol = findUniqueKeyCol();
    const keyVal = (row && keyCol) ? row[keyCol] : null;

    if (!row || !dsn || !table) return;

    if (keyVal == null) {
        document.getElementById('data-edit-error').textContent =
            'This row has no unique key and cannot be updated.';
        return;
    }

    // Build metadata lookup for type coercion.
    const metaByName = {};
    for (const col of _dataColumnMeta) metaByName[col.name] = col;

    // Collect only changed fields.
    const payload = {};
    document.querySelectorAll('#data-edit-fields .data-edit-input').forEach(input => {
        const colName     = input.dataset.col;
        const originalVal = row[colName];
        const isNull      = input.dataset.isNull === 'true';

        if (isNull && originalVal == null)  return; // unchanged null
        if (!isNull && originalVal != null
                    && input.value === String(originalVal)) return; // unchanged value

        if (isNull) {
            payload[colName] = null;
        } else {
            const meta = metaByName[colName];
            const type = meta ? meta.type : '';
            if (isDataIntType(type)) {
                // parseInt converts the input string to a whole number (radix 10 = decimal).
                // If the user typed something non-numeric, parseInt returns NaN
                // (Not a Number). In that case we send the raw string so the
                // server can return a descriptive validation error.
                const n = parseInt(input.value, 10);
                payload[colName] = isNaN(n) ? input.value : n;
            } else if (isDataFloatType(type)) {
                // parseFloat converts the input string to a floating-point number.
                // Same NaN fallback as the integer case above.
                const n = parseFloat(input.value);
                payload[colName] = isNaN(n) ? input.value : n;
            } else {
                payload[colName] = input.value;
            }
        }
    });

    // Object.keys() returns an array of the payload's property names.
    // If that array is empty, nothing changed — close without a network request.
    if (Object.keys(payload).length === 0) { hideDataEdit(); return; }

    document.getElementById('data-edit-save-btn').disabled = true;
    document.getElementById('data-edit-error').textContent = '';

    try {
        const token = getToken();
        const url   = '/dsns/' + encodeURIComponent(dsn)
                    + '/tables/' + encodeURIComponent(table)
                    + "/rows?filter=EQ(" + keyCol + ",'" + keyVal + "')";

        const res  = await fetch(url, {
            method:  'PATCH',
            headers: {
                'Content-Type':  'application/json',
                'Authorization': token ? 'Bearer ' + token : '',
            },
            body: JSON.stringify(payload),
        });
        const data = await res.json().catch(() => ({}));

        if (res.status === 401) {
            clearToken();
            hideDataEdit();
            showLogin('Session expired. Please sign in again.');
            return;
        }

        if (!res.ok) {
            document.getElementById('data-edit-error').textContent =
                data.msg || 'Save failed (HTTP ' + res.status + ').';
            document.getElementById('data-edit-save-btn').disabled = false;
            return;
        }

        hideDataEdit();
        await loadDataRows();
    } catch (e) {
        document.getElementById('data-edit-error').textContent = 'Network error: ' + e.message;
        document.getElementById('data-edit-save-btn').disabled = false;
    }
}

// Send a DELETE request for the current row, then reload rows.
async function submitDataDelete() {
    const row    = _dataRows[_dataEditRowIdx];
    const dsn    = document.getElementById('data-dsn-picker').value;
    const table  = document.getElementById('data-table-picker').value;
    const keyCol = findUniqueKeyCol();
    const keyVal = (row && keyCol) ? row[keyCol] : null;

    if (!row || !dsn || !table || keyVal == null) return;

    document.getElementById('data-edit-delete-btn').disabled = true;
    document.getElementById('data-edit-error').textContent = '';

    try {
        const token = getToken();
        const url   = '/dsns/' + encodeURIComponent(dsn)
                    + '/tables/' + encodeURIComponent(table)
                    + "/rows?filter=EQ(" + keyCol + ",'" + keyVal + "')";

        const res  = await fetch(url, {
            method:  'DELETE',
            headers: { 'Authorization': token ? 'Bearer ' + token : '' },
        });
        const data = await res.json().catch(() => ({}));

        if (res.status === 401) {
            clearToken();
            hideDataEdit();
            showLogin('Session expired. Please sign in again.');
            return;
        }

        if (!res.ok) {
            document.getElementById('data-edit-error').textContent =
                data.msg || 'Delete failed (HTTP ' + res.status + ').';
            document.getElementById('data-edit-delete-btn').disabled = false;
            return;
        }

        hideDataEdit();
        await loadDataRows();
    } catch (e) {
        document.getElementById('data-edit-error').textContent = 'Network error: ' + e.message;
        document.getElementById('data-edit-delete-btn').disabled = false;
    }
}

// Close the row edit sheet.
function hideDataEdit() {
    document.getElementById('data-edit-overlay').style.display = 'none';
}

// Switch to the SQL tab with a generated SELECT pre-loaded from the current
// Data tab selection. Only columns that are currently visible are included;
// if all columns are visible (the default) SELECT * is used instead.
async function openDataAsSql() {
    const dsn   = document.getElementById('data-dsn-picker').value;
    const table = document.getElementById('data-table-picker').value;
    if (!dsn || !table) return;

    // Filter out the internal _row_id_ column, then check which are visible.
    const allCols = _dataColumnMeta.filter(col => col.name !== '_row_id_');
    const visCols = allCols
        .filter(col => _dataColumnVisible[col.name] !== false)
        .map(col => col.name);

    // Use * when everything is visible; otherwise list only the visible columns.
    const colList = (visCols.length === 0 || visCols.length === allCols.length)
        ? '*'
        : visCols.join(', ');

    const sql = '// ' + dsn + ' dsn\n\nSELECT ' + colList + '\nFROM ' + table;

    // Switch to the SQL tab (triggers loadSql() to populate the DSN picker).
    openTab('sql');

    // Await a second loadSql() call to ensure the picker options are ready
    // before we set the value — openTab() fires it without awaiting.
    await loadSql();

    const picker = document.getElementById('sql-dsn-picker');
    if (Array.from(picker.options).some(o => o.value === dsn)) {
        picker.value = dsn;
    }

    const editor = document.getElementById('sql-editor');
    editor.value = sql;
    updateSqlHighlight();
    await submitSql();
}

